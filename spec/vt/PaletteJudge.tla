----------------------------- MODULE PaletteJudge -----------------------------
(* Judges recordings of the real encoder's colour reduction (harness        *)
(* c20-drive).  Record = [r, g, bs, e8f, e8b, e8u, gf, gb, tcf, ok]: for    *)
(* the colours (r, g, b), b \in bs: the palette index emitted for the       *)
(* foreground / background / underline role on a 256-colour terminal, the   *)
(* SGR code emitted on a grey terminal (30/90/37/97, +10 for background)    *)
(* and the components emitted in true-colour mode.                          *)
EXTENDS Palette256, TLC, Json, IOUtils, SequencesExt
Rec == ndJsonDeserialize(IOEnv.TRACE)
GrayLvl(code) == IF code = 30 THEN 0 ELSE IF code = 90 THEN 1 ELSE IF code = 37 THEN 2 ELSE IF code = 97 THEN 3 ELSE -1
\* first b index at which the record fails, with the reason
Check(r, i) ==
  LET c == <<r.r, r.g, r.bs[i]>> IN
  IF ~Minimal(c, r.e8f[i]) THEN "256-colour foreground entry is not a nearest entry"
  ELSE IF r.e8b[i] # r.e8f[i] THEN "256-colour background entry differs from foreground entry"
  ELSE IF r.e8u[i] # r.e8f[i] THEN "256-colour underline entry differs from foreground entry"
  ELSE IF ~GrayLevelOK(c, GrayLvl(r.gf[i])) THEN "grey level is not the nearest by luminance"
  ELSE IF r.gb[i] # r.gf[i] + 10 THEN "grey background level differs from foreground level"
  ELSE IF r.tcf[i] # c[3] THEN "true colour component changed"
  ELSE "ok"
Verdict(r) ==
  IF r.panic # "" THEN [why |-> "panic", b |-> 0]
  ELSE IF ~r.ok THEN [why |-> "unexpected SGR parameter structure", b |-> 0]
  ELSE IF ~r.hist THEN [why |-> "an encoder that had resolved other colours / roles before encodes a command differently from a fresh encoder", b |-> 0]
  ELSE LET bad == { i \in 1..Len(r.bs) : Check(r, i) # "ok" } IN
       IF bad = {} THEN [why |-> "ok", b |-> 0]
       ELSE LET i == CHOOSE i \in bad : \A j \in bad : i <= j IN [why |-> Check(r, i), b |-> r.bs[i]]
Bad == SelectSeq([i \in 1..Len(Rec) |-> [id |-> Rec[i].id] @@ Verdict(Rec[i])], LAMBDA v : v.why # "ok")
ASSUME ndJsonSerialize(IOEnv.OUT, Bad)
ASSUME PrintT(<<"JUDGED", Len(Rec), Len(Bad)>>)
VARIABLE x
Init == x = 0
Next == UNCHANGED x
=============================================================================
