----------------------------- MODULE Palette256 -----------------------------
(* The xterm 256-colour palette (entries 16..255: 6x6x6 cube with levels    *)
(* 0,95,135,175,215,255; grey ramp 8+10i) and the linear-light metric the   *)
(* library uses for colour comparison, in integer fixed point: Lin[v+1] =   *)
(* round(2^14 * srgb_to_linear(v/255)) computed once from the exact sRGB    *)
(* transfer function.  Property C20: the entry chosen for a colour is at    *)
(* minimal distance among the 240 entries.  Because the library works in    *)
(* f32 with hand-typed tables, a choice is flagged only if it is PROVABLY   *)
(* non-optimal: worse than another entry by more than the worst-case        *)
(* quantisation error of both squared distances.                            *)
EXTENDS Integers, Sequences
Lin == <<0, 5, 10, 15, 20, 25, 30, 35, 40, 45, 50, 55, 60, 66, 72, 78, 85, 92, 99, 107, 115, 123, 131, 140, 150, 159, 169, 180, 190, 201, 213, 224, 237, 249, 262, 275, 289, 303, 318, 332, 348, 363, 379, 396, 413, 430, 448, 466, 484, 503, 523, 542, 563, 583, 604, 626, 648, 670, 693, 717, 740, 765, 789, 814, 840, 866, 893, 920, 947, 975, 1003, 1032, 1062, 1092, 1122, 1153, 1184, 1216, 1248, 1281, 1314, 1348, 1382, 1417, 1453, 1488, 1525, 1562, 1599, 1637, 1675, 1714, 1753, 1793, 1834, 1875, 1916, 1959, 2001, 2044, 2088, 2132, 2177, 2222, 2268, 2314, 2361, 2409, 2457, 2506, 2555, 2604, 2655, 2706, 2757, 2809, 2861, 2915, 2968, 3022, 3077, 3133, 3189, 3245, 3302, 3360, 3418, 3477, 3537, 3597, 3657, 3719, 3780, 3843, 3906, 3970, 4034, 4099, 4164, 4230, 4297, 4364, 4432, 4500, 4569, 4639, 4709, 4780, 4852, 4924, 4997, 5070, 5144, 5219, 5294, 5370, 5447, 5524, 5602, 5680, 5760, 5839, 5920, 6001, 6082, 6165, 6248, 6331, 6416, 6500, 6586, 6672, 6759, 6847, 6935, 7024, 7113, 7203, 7294, 7386, 7478, 7571, 7664, 7758, 7853, 7949, 8045, 8142, 8239, 8338, 8436, 8536, 8636, 8737, 8839, 8941, 9044, 9148, 9252, 9357, 9463, 9570, 9677, 9785, 9893, 10002, 10112, 10223, 10334, 10446, 10559, 10673, 10787, 10902, 11017, 11134, 11251, 11368, 11487, 11606, 11726, 11847, 11968, 12090, 12213, 12336, 12460, 12585, 12711, 12837, 12965, 13092, 13221, 13350, 13481, 13611, 13743, 13875, 14008, 14142, 14276, 14412, 14548, 14684, 14822, 14960, 15099, 15239, 15379, 15521, 15663, 15805, 15949, 16093, 16238, 16384>>
CubeLevel(i) == IF i = 0 THEN 0 ELSE 55 + 40 * i
\* sRGB components of palette entry n (16..255)
EntryRGB(n) == IF n >= 232 THEN LET v == 8 + 10 * (n - 232) IN <<v, v, v>>
               ELSE LET k == n - 16 IN <<CubeLevel(k \div 36), CubeLevel((k \div 6) % 6), CubeLevel(k % 6)>>
Abs(x) == IF x < 0 THEN -x ELSE x
Sq(x) == x * x
Entries == 16..255
\* linear components of the 6 cube levels and the 24 greys (computed once)
CubeLin == [i \in 0..5 |-> Lin[CubeLevel(i) + 1]]
GreyLin == [i \in 0..23 |-> Lin[8 + 10 * i + 1]]
EntryLin(n) == IF n >= 232 THEN LET v == GreyLin[n - 232] IN <<v, v, v>>
               ELSE LET k == n - 16 IN <<CubeLin[k \div 36], CubeLin[(k \div 6) % 6], CubeLin[k % 6]>>
\* squared distance in fixed point (< 3 * 2^28).  Rounding each linear component to the grid moves
\* every difference d by at most 1, i.e. d^2 by at most 2|d| + 1: the true squared distance lies
\* within [Lo, Hi] below.
Lo(cl, pl) == Sq(Abs(cl[1] - pl[1]) - 1) + Sq(Abs(cl[2] - pl[2]) - 1) + Sq(Abs(cl[3] - pl[3]) - 1) - 6
Hi(cl, pl) == Sq(Abs(cl[1] - pl[1]) + 1) + Sq(Abs(cl[2] - pl[2]) + 1) + Sq(Abs(cl[3] - pl[3]) + 1)
MinOf(S) == CHOOSE x \in S : \A y \in S : x <= y
\* smallest upper bound over all 240 entries: the squared distance is a sum over channels, so the
\* best cube entry is the per-channel best level; the 24 greys are scanned
ChanBest(v) == MinOf({ Sq(Abs(v - CubeLin[l]) + 1) : l \in 0..5 })
BestHi(cl) == LET cube == ChanBest(cl[1]) + ChanBest(cl[2]) + ChanBest(cl[3])
                  grey == MinOf({ Hi(cl, <<GreyLin[g], GreyLin[g], GreyLin[g]>>) : g \in 0..23 })
              IN IF cube < grey THEN cube ELSE grey
\* the choice n for colour c is not provably worse than every... any other entry
Minimal(c, n) == n \in Entries /\ LET cl == <<Lin[c[1] + 1], Lin[c[2] + 1], Lin[c[3] + 1]>> IN Lo(cl, EntryLin(n)) <= BestHi(cl)
\* grey depth: integer luminance of the sRGB bytes, 0..2550000; levels 0, .33, .66, 1
Luma(c) == 2126 * c[1] + 7152 * c[2] + 722 * c[3]
Tol == 30    \* f32 rounding near a midpoint: either neighbour is accepted
GrayLevelOK(c, lvl) ==
  LET l == Luma(c) IN
  CASE lvl = 0 -> l <= 420750 + Tol
    [] lvl = 1 -> l >= 420750 - Tol /\ l <= 1262250 + Tol
    [] lvl = 2 -> l >= 1262250 - Tol /\ l <= 2116500 + Tol
    [] lvl = 3 -> l >= 2116500 - Tol
    [] OTHER -> FALSE
=============================================================================
