---------------------------- MODULE EncoderJudge ----------------------------
(* Translation validation of TTYEncoder (C05): the bytes emitted for each   *)
(* command are parsed by the VT interpreter (VT.tla) and must perform       *)
(* exactly the commanded operation with exactly its parameters; a Face must *)
(* produce exactly the requested rendition from ANY prior rendition;        *)
(* every command is emitted as complete, self-contained sequences, so a     *)
(* stream parses to the concatenation of its commands' operations.          *)
(* Numbers travel as ASCII digit strings (i32::MIN's magnitude does not fit *)
(* a TLC integer) and are compared as strings after a BigNat increment.     *)
EXTENDS VT, Json, IOUtils, SequencesExt
Rec == ndJsonDeserialize(IOEnv.TRACE)
N(b) == [i \in 1..Len(b) |-> b[i]]

\* ---- BigNat on ASCII digit strings
RECURSIVE IncAt(_, _)
IncAt(ds, i) == IF i = 0 THEN <<49>> \o ds
                ELSE IF ds[i] = 57 THEN IncAt([ds EXCEPT ![i] = 48], i - 1) ELSE [ds EXCEPT ![i] = @ + 1]
Inc(ds) == IncAt(ds, Len(ds))
IsZero(ds) == ds = <<48>>
RECURSIVE Dg(_)
Dg(n) == IF n < 10 THEN <<48 + n>> ELSE Dg(n \div 10) \o <<48 + (n % 10)>>

PGroups(it) == LET gs == Groups(it.p) IN [i \in 1..Len(gs) |-> IF gs[i] = <<>> THEN <<>> ELSE StripZ(gs[i])]
IsCsi(it, fin, np) == it.t = "csi" /\ it.f = fin /\ it.n = <<>> /\ Len(Groups(it.p)) = np /\ \A g \in 1..np : AllDigits(Groups(it.p)[g])
Csi(p, n, f) == [t |-> "csi", p |-> p, n |-> n, f |-> f]
Esc(f) == [t |-> "esc", p |-> <<>>, n |-> <<>>, f |-> f]
Str(t, body) == [t |-> t, p |-> body, n |-> <<>>, f |-> 0]

\* ---- expected rendition of a Face / FaceModify descriptor
RendOf(d) == [fg |-> d.fg, bg |-> d.bg, ul |-> d.ul, ulc |-> CDef, bold |-> d.bold = 1, faint |-> FALSE, italic |-> d.italic = 1,
              blink |-> d.blink = 1, reverse |-> d.reverse = 1, strike |-> d.strike = 1, bad |-> FALSE]
Busy == [fg |-> Col(1, 3, 0, 0), bg |-> Col(2, 9, 9, 9), ul |-> 3, ulc |-> Col(1, 7, 0, 0), bold |-> TRUE, faint |-> TRUE, italic |-> TRUE,
         blink |-> TRUE, reverse |-> TRUE, strike |-> TRUE, bad |-> FALSE]
GrayIdx == {0, 8, 7, 15}
ColOk(depth, want, got) ==
  IF want.k = 0 THEN got = CDef
  ELSE CASE depth = 24 -> got = want
         [] depth = 8  -> got.k = 1 /\ got.a >= 16 /\ got.a <= 255     \* one palette entry (which one: C20)
         [] depth = 2  -> got.k = 1 /\ got.a \in GrayIdx
RendOk(depth, want, got) ==
  /\ ~got.bad /\ ColOk(depth, want.fg, got.fg) /\ ColOk(depth, want.bg, got.bg)
  /\ got.ul = want.ul /\ got.ulc = CDef /\ got.bold = want.bold /\ got.faint = FALSE /\ got.italic = want.italic
  /\ got.blink = want.blink /\ got.reverse = want.reverse /\ got.strike = want.strike
Tri(v, old) == IF v = 0 THEN old ELSE v = 1
\* a modification: every field independent; colours per depth
ModOk(depth, d, r0, got) ==
  LET r1 == IF d.reset THEN DefaultRend ELSE r0
      colOk(want, old, g) == IF want.k = 0 THEN g = old ELSE IF depth = 24 THEN g = want ELSE IF depth = 8 THEN g.k = 1 /\ g.a >= 16 /\ g.a <= 255 ELSE g.k = 1 /\ g.a \in GrayIdx
  IN /\ ~got.bad
     /\ colOk(d.fg, r1.fg, got.fg) /\ colOk(d.bg, r1.bg, got.bg)
     /\ (IF depth = 2 THEN got.ulc = r1.ulc ELSE colOk(d.ulc, r1.ulc, got.ulc))
     /\ got.ul = (IF d.ul = -1 THEN r1.ul ELSE d.ul)
     /\ got.bold = Tri(d.bold, r1.bold) /\ got.italic = Tri(d.italic, r1.italic)
     /\ got.blink = Tri(d.blink, r1.blink) /\ got.strike = Tri(d.strike, r1.strike)
     /\ got.reverse = r1.reverse
     /\ (got.faint = r1.faint \/ (d.bold = 2 /\ got.faint = FALSE))     \* 22 resets both bold and faint

\* hex digits of a byte, lower or upper case
HexOk(h1, h2, b) == LET v(c) == IF c >= 48 /\ c <= 57 THEN c - 48 ELSE IF c >= 97 /\ c <= 102 THEN c - 87 ELSE IF c >= 65 /\ c <= 70 THEN c - 55 ELSE -100 IN v(h1) * 16 + v(h2) = b
RECURSIVE HexDecode(_)
HexDecode(h) == IF Len(h) < 2 THEN <<>> ELSE
  LET v(c) == IF c >= 48 /\ c <= 57 THEN c - 48 ELSE IF c >= 97 /\ c <= 102 THEN c - 87 ELSE IF c >= 65 /\ c <= 70 THEN c - 55 ELSE -100
  IN <<v(h[1]) * 16 + v(h[2])>> \o HexDecode(SubSeq(h, 3, Len(h)))

Verdict(d) ==
  IF d.out # "ok" THEN "panic-or-error"
  ELSE LET bytes == N(d.bytes) its == Parse(bytes, 1) x == N(d.x) y == N(d.y) IN
  IF \E i \in 1..Len(its) : its[i].t = "bad" THEN "malformed"
  ELSE
  CASE d.cmd = "CursorTo" ->
         IF Len(its) = 1 /\ IsCsi(its[1], 72, 2) /\ PGroups(its[1]) = <<Inc(x), Inc(y)>> THEN "ok" ELSE "wrong"
    [] d.cmd = "EraseChars" ->
         \* a zero count erases nothing: xterm reads a 0 parameter of ECH as 1
         IF IsZero(x) THEN (IF its = <<>> THEN "ok" ELSE "wrong-zero-count")
         ELSE IF Len(its) = 1 /\ IsCsi(its[1], 88, 1) /\ PGroups(its[1]) = <<x>> THEN "ok" ELSE "wrong"
    [] d.cmd = "Scroll" ->
         IF IsZero(x) THEN (IF its = <<>> THEN "ok" ELSE "wrong")
         ELSE IF Len(its) = 1 /\ IsCsi(its[1], IF d.neg THEN 84 ELSE 83, 1) /\ PGroups(its[1]) = <<x>> THEN "ok" ELSE "wrong"
    [] d.cmd = "CursorMove" ->
         LET want == (IF IsZero(y) THEN <<>> ELSE << <<IF d.en THEN 68 ELSE 67, y>> >>)
                     \o (IF IsZero(x) THEN <<>> ELSE << <<IF d.neg THEN 65 ELSE 66, x>> >>)
             \* the two moves commute: either order is the same operation
             ok(w) == Len(its) = Len(w) /\ \A i \in 1..Len(its) : IsCsi(its[i], w[i][1], 1) /\ PGroups(its[i]) = <<w[i][2]>>
         IN IF ok(want) \/ (Len(want) = 2 /\ ok(<<want[2], want[1]>>)) THEN "ok" ELSE "wrong"
    [] d.cmd = "DecModeSet" ->
         LET core == Csi(<<63>> \o x, <<>>, IF d.en THEN 104 ELSE 108)
             kb(lvl) == Csi(<<61>> \o lvl, <<>>, 117)
             alt == x = <<49, 48, 52, 57>>
             want == IF d.kitty /\ alt THEN (IF d.en THEN <<core, kb(<<53>>)>> ELSE <<kb(<<48>>), core>>) ELSE <<core>>
         IN IF its = want THEN "ok" ELSE "wrong"
    [] d.cmd = "DecModeGet" -> IF its = <<Csi(<<63>> \o x, <<36>>, 112)>> THEN "ok" ELSE "wrong"
    [] d.cmd = "CursorGet" -> IF its = <<Csi(<<54>>, <<>>, 110)>> THEN "ok" ELSE "wrong"
    [] d.cmd = "CursorSave" -> IF its = <<Esc(55)>> THEN "ok" ELSE "wrong"
    [] d.cmd = "CursorRestore" -> IF its = <<Esc(56)>> THEN "ok" ELSE "wrong"
    [] d.cmd = "EraseLineRight" -> IF Len(its) = 1 /\ its[1].t = "csi" /\ its[1].f = 75 /\ its[1].n = <<>> /\ its[1].p \in {<<>>, <<48>>} THEN "ok" ELSE "wrong"
    [] d.cmd = "EraseLineLeft" -> IF its = <<Csi(<<49>>, <<>>, 75)>> THEN "ok" ELSE "wrong"
    [] d.cmd = "EraseLine" -> IF its = <<Csi(<<50>>, <<>>, 75)>> THEN "ok" ELSE "wrong"
    [] d.cmd = "EraseScreen" -> IF its = <<Csi(<<50>>, <<>>, 74)>> THEN "ok" ELSE "wrong"
    [] d.cmd = "Reset" -> IF its = <<Esc(99)>> THEN "ok" ELSE "wrong"
    [] d.cmd = "DeviceAttrs" -> IF Len(its) = 1 /\ its[1].t = "csi" /\ its[1].f = 99 /\ its[1].n = <<>> /\ its[1].p \in {<<>>, <<48>>} THEN "ok" ELSE "wrong"
    [] d.cmd = "FaceGet" -> IF its = <<Str("dcs", <<36, 113, 109>>)>> THEN "ok" ELSE "wrong"
    [] d.cmd = "ScrollRegion" ->
         IF d.en THEN (IF Len(its) = 1 /\ IsCsi(its[1], 114, 2) /\ PGroups(its[1]) = <<Inc(x), Inc(y)>> THEN "ok" ELSE "wrong")
         ELSE (IF Len(its) = 1 /\ its[1].t = "csi" /\ its[1].f = 114 /\ its[1].p = <<>> /\ its[1].n = <<>> THEN "ok" ELSE "wrong")
    [] d.cmd = "KeyboardLevel" ->
         IF d.kitty THEN (IF its = <<Csi(<<61>> \o x, <<>>, 117)>> THEN "ok" ELSE "wrong") ELSE (IF its = <<>> THEN "ok" ELSE "wrong")
    [] d.cmd = "Title" -> IF its = <<Str("osc", <<48, 59>> \o N(d.txt))>> THEN "ok" ELSE "wrong"
    [] d.cmd = "Color" ->
         \* d.x = OSC number, d.y = palette index (if d.en), d.txt = "?" or "#rrggbb"
         LET body == x \o <<59>> \o (IF d.en THEN y \o <<59>> ELSE <<>>) \o N(d.txt) IN
         IF its = <<Str("osc", body)>> THEN "ok" ELSE "wrong"
    [] d.cmd = "Termcap" ->
         IF Len(its) = 1 /\ its[1].t = "dcs" /\ Len(its[1].p) >= 2 /\ SubSeq(its[1].p, 1, 2) = <<43, 113>>
            /\ LET body == SubSeq(its[1].p, 3, Len(its[1].p))
                   hs == IF body = <<>> THEN <<>> ELSE Split(body, 59, 1, <<>>) IN
               Len(hs) = Len(d.names) /\ \A i \in 1..Len(hs) : Len(hs[i]) = 2 * Len(d.names[i]) /\ HexDecode(hs[i]) = N(d.names[i])
         THEN "ok" ELSE "wrong"
    [] d.cmd = "Raw" -> IF bytes = N(d.txt) THEN "ok" ELSE "wrong"
    [] d.cmd \in {"Image", "ImageErase"} -> IF bytes = <<>> THEN "ok" ELSE "wrong"
    [] d.cmd = "Char" ->
         IF Len(its) = 1 /\ ((its[1].t = "txt" /\ x = Dg(its[1].f)) \/ (its[1].t = "c0" /\ x = Dg(its[1].f))) THEN "ok" ELSE "wrong"
    [] d.cmd = "Face" ->
         IF Len(its) = 1 /\ its[1].t = "csi" /\ its[1].f = 109 /\ its[1].n = <<>>
            /\ RendOk(d.depth, RendOf(d), Sgr(DefaultRend, its[1].p)) /\ RendOk(d.depth, RendOf(d), Sgr(Busy, its[1].p))
         THEN "ok" ELSE "wrong"
    [] d.cmd = "FaceModify" ->
         LET ok(r0) == LET got == IF its = <<>> THEN r0 ELSE Sgr(r0, its[1].p) IN ModOk(d.depth, d, r0, got)
         IN IF Len(its) <= 1 /\ (its = <<>> \/ (its[1].t = "csi" /\ its[1].f = 109 /\ its[1].n = <<>>)) /\ ok(DefaultRend) /\ ok(Busy) THEN "ok" ELSE "wrong"
    [] d.cmd = "stream" ->
         \* self-contained: the stream parses to the concatenation of the commands' own items
         LET RECURSIVE cat(_) cat(i) == IF i > Len(d.parts) THEN <<>> ELSE Parse(N(d.parts[i]), 1) \o cat(i + 1)
         IN IF its # cat(1) THEN "stream-not-self-contained"
            ELSE IF \E i \in 1..Len(d.parts) : N(d.parts[i]) # N(d.fresh[i]) THEN "encoding-depends-on-history"
            ELSE "ok"
    [] OTHER -> "unknown-command"

Bad == SelectSeq([i \in 1..Len(Rec) |-> [id |-> Rec[i].id, why |-> Verdict(Rec[i])]], LAMBDA v : v.why # "ok")
ASSUME ndJsonSerialize(IOEnv.OUT, Bad)
ASSUME PrintT(<<"JUDGED", Len(Rec), Len(Bad)>>)
VARIABLE x
Init == x = 0
Next == UNCHANGED x
=============================================================================
