------------------------------- MODULE SgrJudge -------------------------------
(* C06.  (a) round trip: what TTYEncoder writes in true-colour mode for a    *)
(* FaceModify / Face / text is read back by TTYCommandDecoder as the same    *)
(* modification (every expressible field), a modification that produces the  *)
(* same face from any face (minus reverse, which a modification cannot       *)
(* express), the same characters.  (b) writer: SGR histories interleaved     *)
(* with text written through CellWrite::tty_writer under several chunkings   *)
(* yield cells whose faces are those of the reference SGR machine (VT.tla).  *)
EXTENDS VT, Palette256, Json, IOUtils, SequencesExt
Rec == ndJsonDeserialize(IOEnv.TRACE)
N(b) == [i \in 1..Len(b) |-> b[i]]
ColR(c) == [k |-> c.k, a |-> c.a, b |-> c.b, c |-> c.c]

\* expressible part of a rendition, with palette colours resolved to RGB
Resolve(c, named) ==
  IF c.k = 1 THEN (IF c.a < 16 THEN LET t == named[c.a + 1] IN Col(2, t[1], t[2], t[3])
                   ELSE LET t == EntryRGB(c.a) IN Col(2, t[1], t[2], t[3]))
  ELSE ColR(c)
Project(r, named) == [fg |-> Resolve(r.fg, named), bg |-> Resolve(r.bg, named), ul |-> r.ul, bold |-> r.bold, italic |-> r.italic, blink |-> r.blink, strike |-> r.strike]
FaceRec(f) == [fg |-> ColR(f.fg), bg |-> ColR(f.bg), ul |-> f.ul, bold |-> f.bold = 1, italic |-> f.italic = 1, blink |-> f.blink = 1, strike |-> f.strike = 1]

\* ---- (a) descriptor equality on every expressible field
ModEq(m, d) == /\ m.reset = d.reset /\ ColR(m.fg) = ColR(d.fg) /\ ColR(m.bg) = ColR(d.bg) /\ ColR(m.ulc) = ColR(d.ulc)
               /\ m.ul = d.ul /\ m.bold = d.bold /\ m.italic = d.italic /\ m.blink = d.blink /\ m.strike = d.strike
\* semantics of a modification record (reset first, then every present field)
Tri(v, old) == IF v = 0 THEN old ELSE v = 1
ApplyMod(d, f) ==
  LET g == IF d.reset THEN [fg |-> CDef, bg |-> CDef, ul |-> 0, bold |-> FALSE, italic |-> FALSE, blink |-> FALSE, strike |-> FALSE] ELSE f IN
  [fg |-> IF d.fg.k = 0 THEN g.fg ELSE ColR(d.fg), bg |-> IF d.bg.k = 0 THEN g.bg ELSE ColR(d.bg),
   ul |-> IF d.ul = -1 THEN g.ul ELSE d.ul, bold |-> Tri(d.bold, g.bold), italic |-> Tri(d.italic, g.italic),
   blink |-> Tri(d.blink, g.blink), strike |-> Tri(d.strike, g.strike)]
BusyFace == [fg |-> Col(2, 9, 8, 7), bg |-> Col(2, 1, 1, 1), ul |-> 3, bold |-> TRUE, italic |-> TRUE, blink |-> TRUE, strike |-> TRUE]
PlainFace == [fg |-> CDef, bg |-> CDef, ul |-> 0, bold |-> FALSE, italic |-> FALSE, blink |-> FALSE, strike |-> FALSE]

\* ---- (b) reference: cells of a byte stream under the SGR machine
RECURSIVE Cells(_, _, _, _)
Cells(its, i, r, named) ==
  IF i > Len(its) THEN <<>>
  ELSE LET it == its[i] IN
       IF it.t = "csi" /\ it.f = 109 /\ it.n = <<>> THEN Cells(its, i + 1, Sgr(r, it.p), named)
       ELSE IF it.t \in {"txt", "c0"} THEN <<[cp |-> it.f] @@ Project(r, named)>> \o Cells(its, i + 1, r, named)
       ELSE Cells(its, i + 1, r, named)
GotCell(c) == [cp |-> c.cp, fg |-> ColR(c.fg), bg |-> ColR(c.bg), ul |-> c.ul, bold |-> c.bold, italic |-> c.italic, blink |-> c.blink, strike |-> c.strike]

Verdict(r) ==
  IF r.panic # "" THEN "panic"
  ELSE IF r.t = "modify" THEN
       (IF Len(r.decoded) # 1 THEN "not-one-modification"
        ELSE IF ~ModEq(r.m, r.decoded[1]) THEN "modify-roundtrip"
        \* the real FaceModify::apply on two faces follows the record's semantics
        ELSE IF FaceRec(r.applied[1]) # ApplyMod(r.m, PlainFace) \/ FaceRec(r.applied[2]) # ApplyMod(r.m, BusyFace) THEN "apply-semantics"
        ELSE "ok")
  ELSE IF r.t = "face" THEN
       (IF Len(r.decoded) # 1 THEN "not-one-modification"
        ELSE IF ApplyMod(r.decoded[1], PlainFace) # FaceRec(r.f) \/ ApplyMod(r.decoded[1], BusyFace) # FaceRec(r.f) THEN "face-roundtrip"
        ELSE IF FaceRec(r.applied[1]) # FaceRec(r.f) \/ FaceRec(r.applied[2]) # FaceRec(r.f) THEN "apply-semantics"
        ELSE "ok")
  ELSE IF r.t = "text" THEN (IF N(r.chars) = N(r.decodedchars) THEN "ok" ELSE "text-roundtrip")
  ELSE \* writer
       LET its == Parse(N(r.bytes), 1)
           exp == Cells(its, 1, DefaultRend, r.named)
           bad == { i \in 1..Len(r.runs) : [j \in 1..Len(r.runs[i].cells) |-> GotCell(r.runs[i].cells[j])] # exp }
       IN IF \E i \in 1..Len(its) : its[i].t = "bad" THEN "generator-produced-malformed-input"
       ELSE IF bad = {} THEN "ok"
       ELSE IF 1 \in bad THEN "writer-sgr-semantics" ELSE "writer-chunk-dependent"
Bad == SelectSeq([i \in 1..Len(Rec) |-> [id |-> Rec[i].id, why |-> Verdict(Rec[i])]], LAMBDA v : v.why # "ok")
ASSUME ndJsonSerialize(IOEnv.OUT, Bad)
ASSUME PrintT(<<"JUDGED", Len(Rec), Len(Bad)>>)
VARIABLE x
Init == x = 0
Next == UNCHANGED x
=============================================================================
