--------------------------------- MODULE VT ---------------------------------
(* A standards-following VT/xterm control-sequence interpreter, terminal    *)
(* side (C05, C06, C20): byte-level ECMA-48 parser (ground / ESC / CSI      *)
(* parameter-intermediate-final / OSC, DCS, APC strings terminated by ST or *)
(* BEL / UTF-8 text) producing control functions, and the SGR rendition     *)
(* machine with xterm semantics for every parameter (22 = normal intensity, *)
(* 21 = doubly underlined, 38/48/58 in ;5; ;2; :5: :2: forms, 4:0-4:5).     *)
(* Nothing here knows the library's encoder.                                *)
EXTENDS Integers, Sequences, FiniteSets, TLC

ESC == 27  BEL == 7
IsParam(b) == b >= 48 /\ b <= 63      \* 0-9 : ; < = > ?
IsInter(b) == b >= 32 /\ b <= 47
IsFinal(b) == b >= 64 /\ b <= 126
IsDigit(b) == b >= 48 /\ b <= 57

\* ---------- UTF-8 ----------
Utf8Len(b) == IF b < 128 THEN 1 ELSE IF b >= 194 /\ b <= 223 THEN 2 ELSE IF b >= 224 /\ b <= 239 THEN 3 ELSE IF b >= 240 /\ b <= 244 THEN 4 ELSE 0
Utf8CP(bs, i, n) ==
  CASE n = 1 -> bs[i]
    [] n = 2 -> (bs[i] % 32) * 64 + (bs[i+1] % 64)
    [] n = 3 -> (bs[i] % 16) * 4096 + (bs[i+1] % 64) * 64 + (bs[i+2] % 64)
    [] n = 4 -> (bs[i] % 8) * 262144 + (bs[i+1] % 64) * 4096 + (bs[i+2] % 64) * 64 + (bs[i+3] % 64)

\* ---------- scanning helpers ----------
RECURSIVE ScanParam(_, _)
ScanParam(bs, i) == IF i <= Len(bs) /\ IsParam(bs[i]) THEN ScanParam(bs, i + 1) ELSE i
RECURSIVE ScanInter(_, _)
ScanInter(bs, i) == IF i <= Len(bs) /\ IsInter(bs[i]) THEN ScanInter(bs, i + 1) ELSE i
\* index of the string terminator (ESC \ or BEL) at or after i; 0 if none. returns <<endOfData, next>>
RECURSIVE FindST(_, _)
FindST(bs, i) ==
  IF i > Len(bs) THEN <<0, 0>>
  ELSE IF bs[i] = BEL THEN <<i - 1, i + 1>>
  ELSE IF bs[i] = ESC /\ i + 1 <= Len(bs) /\ bs[i+1] = 92 THEN <<i - 1, i + 2>>
  ELSE IF bs[i] = ESC THEN <<0, 0>>
  ELSE FindST(bs, i + 1)

BadItem == [t |-> "bad", p |-> <<>>, n |-> <<>>, f |-> 0]
Item(t, p, n, f) == [t |-> t, p |-> p, n |-> n, f |-> f]

\* parse: sequence of items; t in csi/esc/osc/dcs/apc/txt/c0/bad
\*   csi: p = parameter bytes, n = intermediate bytes, f = final byte
RECURSIVE Parse(_, _)
Parse(bs, i) ==
  IF i > Len(bs) THEN <<>>
  ELSE LET b == bs[i] IN
  IF b = ESC THEN
     IF i + 1 > Len(bs) THEN <<BadItem>>
     ELSE LET c == bs[i+1] IN
       IF c = 91 THEN \* CSI
          LET j == ScanParam(bs, i + 2)
              k == ScanInter(bs, j)
          IN IF k <= Len(bs) /\ IsFinal(bs[k])
             THEN <<Item("csi", SubSeq(bs, i + 2, j - 1), SubSeq(bs, j, k - 1), bs[k])>> \o Parse(bs, k + 1)
             ELSE <<BadItem>>
       ELSE IF c \in {93, 80, 95} THEN \* OSC ] , DCS P , APC _
          LET st == FindST(bs, i + 2) IN
          IF st[2] = 0 THEN <<BadItem>>
          ELSE <<Item(IF c = 93 THEN "osc" ELSE IF c = 80 THEN "dcs" ELSE "apc", SubSeq(bs, i + 2, st[1]), <<>>, 0)>> \o Parse(bs, st[2])
       ELSE IF c >= 48 /\ c <= 126 THEN <<Item("esc", <<>>, <<>>, c)>> \o Parse(bs, i + 2)
       ELSE <<BadItem>>
  ELSE IF b < 32 \/ b = 127 THEN <<Item("c0", <<>>, <<>>, b)>> \o Parse(bs, i + 1)
  ELSE LET n == Utf8Len(b) IN
       IF n = 0 \/ i + n - 1 > Len(bs) THEN <<BadItem>>
       ELSE <<Item("txt", <<>>, <<>>, Utf8CP(bs, i, n))>> \o Parse(bs, i + n)

\* ---------- parameters ----------
\* split a byte sequence by a separator byte into a sequence of byte sequences
RECURSIVE Split(_, _, _, _)
Split(bs, sep, i, cur) ==
  IF i > Len(bs) THEN <<cur>>
  ELSE IF bs[i] = sep THEN <<cur>> \o Split(bs, sep, i + 1, <<>>)
  ELSE Split(bs, sep, i + 1, Append(cur, bs[i]))
Groups(p) == Split(p, 59, 1, <<>>)           \* ';'
Subs(g) == Split(g, 58, 1, <<>>)             \* ':'
AllDigits(ds) == \A i \in 1..Len(ds) : IsDigit(ds[i])
\* digit string (ascii) without leading zeros; empty = default
RECURSIVE StripZ(_)
StripZ(ds) == IF Len(ds) > 1 /\ ds[1] = 48 THEN StripZ(Tail(ds)) ELSE ds
\* small numbers as Int (up to 9 digits), else -1
RECURSIVE ToInt(_, _, _)
ToInt(ds, i, acc) == IF i > Len(ds) THEN acc ELSE ToInt(ds, i + 1, acc * 10 + (ds[i] - 48))
Num(ds) == IF ds = <<>> THEN -2 ELSE IF ~AllDigits(ds) THEN -3 ELSE LET z == StripZ(ds) IN IF Len(z) > 9 THEN -1 ELSE ToInt(z, 1, 0)

\* ---------- SGR ----------
Col(k,a,b,c) == [k |-> k, a |-> a, b |-> b, c |-> c]
CDef == Col(0,0,0,0)
CBad == Col(-1,0,0,0)
DefaultRend == [fg |-> CDef, bg |-> CDef, ul |-> 0, ulc |-> CDef, bold |-> FALSE, faint |-> FALSE, italic |-> FALSE,
                blink |-> FALSE, reverse |-> FALSE, strike |-> FALSE, bad |-> FALSE]
\* colour spec starting at group index gi (after 38/48/58); returns <<colour, groups consumed>>; colon form handled separately
ColSemi(gs, gi) ==
  IF gi > Len(gs) THEN <<CBad, 0>>
  ELSE LET m == Num(gs[gi]) IN
       IF m = 5 /\ gi + 1 <= Len(gs) /\ Num(gs[gi+1]) >= 0 /\ Num(gs[gi+1]) <= 255 THEN <<Col(1, Num(gs[gi+1]), 0, 0), 2>>
       ELSE IF m = 2 /\ gi + 3 <= Len(gs) /\ \A d \in 1..3 : Num(gs[gi+d]) >= 0 /\ Num(gs[gi+d]) <= 255
            THEN <<Col(2, Num(gs[gi+1]), Num(gs[gi+2]), Num(gs[gi+3])), 4>>
       ELSE <<CBad, 0>>
ColColon(ss) == \* ss = subparams after the 38/48/58
  IF Len(ss) >= 2 /\ Num(ss[1]) = 5 /\ Num(ss[2]) >= 0 /\ Num(ss[2]) <= 255 THEN Col(1, Num(ss[2]), 0, 0)
  ELSE IF Len(ss) = 4 /\ Num(ss[1]) = 2 THEN Col(2, Num(ss[2]), Num(ss[3]), Num(ss[4]))
  ELSE IF Len(ss) >= 5 /\ Num(ss[1]) = 2 THEN Col(2, Num(ss[3]), Num(ss[4]), Num(ss[5]))
  ELSE CBad

RECURSIVE SgrApply(_, _, _)
SgrApply(r, gs, gi) ==
  IF gi > Len(gs) THEN r
  ELSE LET ss == Subs(gs[gi])
           c == IF ss[1] = <<>> THEN 0 ELSE Num(ss[1])
           sub == Len(ss) > 1
       IN
       IF c \in {38, 48, 58} THEN
          LET res == IF sub THEN <<ColColon(Tail(ss)), 0>> ELSE ColSemi(gs, gi + 1)
              col == res[1]
              r1 == IF col.k = -1 THEN [r EXCEPT !.bad = TRUE]
                    ELSE IF c = 38 THEN [r EXCEPT !.fg = col] ELSE IF c = 48 THEN [r EXCEPT !.bg = col] ELSE [r EXCEPT !.ulc = col]
          IN SgrApply(r1, gs, gi + 1 + res[2])
       ELSE LET r1 ==
            CASE c = 0 -> [DefaultRend EXCEPT !.bad = r.bad]
              [] c = 1 -> [r EXCEPT !.bold = TRUE]
              [] c = 2 -> [r EXCEPT !.faint = TRUE]
              [] c = 3 -> [r EXCEPT !.italic = TRUE]
              [] c = 4 -> [r EXCEPT !.ul = IF sub THEN (IF Num(ss[2]) \in 0..5 THEN Num(ss[2]) ELSE 1) ELSE 1]
              [] c = 5 -> [r EXCEPT !.blink = TRUE]
              [] c = 7 -> [r EXCEPT !.reverse = TRUE]
              [] c = 9 -> [r EXCEPT !.strike = TRUE]
              [] c = 21 -> [r EXCEPT !.ul = 2]
              [] c = 22 -> [r EXCEPT !.bold = FALSE, !.faint = FALSE]
              [] c = 23 -> [r EXCEPT !.italic = FALSE]
              [] c = 24 -> [r EXCEPT !.ul = 0]
              [] c = 25 -> [r EXCEPT !.blink = FALSE]
              [] c = 27 -> [r EXCEPT !.reverse = FALSE]
              [] c = 29 -> [r EXCEPT !.strike = FALSE]
              [] c >= 30 /\ c <= 37 -> [r EXCEPT !.fg = Col(1, c - 30, 0, 0)]
              [] c = 39 -> [r EXCEPT !.fg = CDef]
              [] c >= 40 /\ c <= 47 -> [r EXCEPT !.bg = Col(1, c - 40, 0, 0)]
              [] c = 49 -> [r EXCEPT !.bg = CDef]
              [] c = 59 -> [r EXCEPT !.ulc = CDef]
              [] c >= 90 /\ c <= 97 -> [r EXCEPT !.fg = Col(1, c - 90 + 8, 0, 0)]
              [] c >= 100 /\ c <= 107 -> [r EXCEPT !.bg = Col(1, c - 100 + 8, 0, 0)]
              [] OTHER -> [r EXCEPT !.bad = TRUE]
            IN SgrApply(r1, gs, gi + 1)
Sgr(r, p) == SgrApply(r, Groups(p), 1)
=============================================================================
