------------------------------ MODULE SerdeJudge ------------------------------
(* Judge for C19 (harness c19-run).                                            *)
(*  face   : the real parser reads the text as the face FaceSyntax says it     *)
(*           denotes; printing and parsing again, and serialising and          *)
(*           deserialising, give the same abstract face; the JSON form is the  *)
(*           printed text                                                       *)
(*  chord  : same for key chords (name / modifier bits per key)                *)
(*  size   : extents survive as decimal strings                                *)
(*  imgin  : a document in the 1/3/4 channel layout (data from Base64!Encode)  *)
(*           yields exactly the pixels PixelsOf denotes; re-serialised it has  *)
(*           4 channels and Base64!Decode(data) is those pixels in row-major   *)
(*           order; deserialising that gives the same pixels                   *)
(*  imgview: same for every crop window: the pixels are the window's           *)
(*  doc    : value or error, never a panic; a value lays out and renders       *)
EXTENDS Base64, TLC, Json, IOUtils, SequencesExt, FiniteSets
Rec == ndJsonDeserialize(IOEnv.TRACE)
N(b) == [i \in 1..Len(b) |-> b[i]]
NN(b) == [i \in 1..Len(b) |-> N(b[i])]
SameFace(o, e) == o.ok /\ N(o.fg) = N(e.fg) /\ N(o.bg) = N(e.bg) /\ o.under = e.under /\ N(o.flags) = N(e.flags)
Flat(px) == FlattenSeq(NN(px))
SameKeys(a, b) == Len(a) = Len(b) /\ \A i \in 1..Len(a) : a[i].name = b[i].name /\ a[i].bits = b[i].bits
Verdict(r) ==
  IF r.panic # "" THEN "panic"
  ELSE LET o == r.obs IN
  CASE r.kind = "face" ->
         IF ~SameFace(o.parsed, r) THEN "text does not parse to the face it denotes"
         ELSE IF ~SameFace(o.reparsed, r) THEN "printed face does not parse back to the same face"
         ELSE IF ~SameFace(o.back, r) THEN "face changed by serialisation"
         ELSE IF o.json # o.printed THEN "serialised form differs from the printed text"
         ELSE IF ~o.same THEN "round-tripped face is not equal to the original"
         ELSE "ok"
    [] r.kind = "chord" ->
         IF ~o.ok \/ ~SameKeys(o.parsed, r.keys) THEN "chord text does not parse to the keys it denotes"
         ELSE IF ~SameKeys(o.back, r.keys) \/ ~o.same THEN "chord changed by serialisation"
         ELSE IF o.json # o.printed THEN "serialised form differs from the printed text"
         ELSE "ok"
    [] r.kind = "size" ->
         IF o.jh # r.h \/ o.jw # r.w \/ o.bh # r.h \/ o.bw # r.w \/ ~o.same THEN "size changed by serialisation" ELSE "ok"
    [] r.kind = "imgin" ->
         IF ~o.ok THEN "well-formed image document rejected"
         ELSE IF o.size[1] # r.h \/ o.size[2] # r.w THEN "image size differs from the document"
         ELSE IF NN(o.got) # NN(r.pixels) THEN "pixels differ from the document"
         ELSE IF o.out.h # r.h \/ o.out.w # r.w \/ o.out.channels # 4 THEN "serialised header wrong"
         ELSE IF ~Canonical(N(o.out.data)) \/ Decode(N(o.out.data)) # Flat(r.pixels) THEN "serialised data is not the pixels in row-major RGBA order"
         ELSE IF ~o.backok \/ NN(o.back) # NN(r.pixels) THEN "image changed by serialisation"
         ELSE "ok"
    [] r.kind = "imgview" ->
         \* an empty window may be reported with any empty size (crop normalises it to 0 x 0)
         IF (Len(r.pixels) # 0 /\ (o.size[1] # r.rows[2] - r.rows[1] \/ o.size[2] # r.cols[2] - r.cols[1])) \/ (Len(r.pixels) = 0 /\ o.size[1] * o.size[2] # 0) THEN "view size wrong"
         ELSE IF NN(o.got) # NN(r.pixels) THEN "view pixels are not the window's"
         ELSE IF o.out.h # o.size[1] \/ o.out.w # o.size[2] \/ o.out.channels # 4 THEN "serialised header wrong"
         ELSE IF ~Canonical(N(o.out.data)) \/ Decode(N(o.out.data)) # Flat(r.pixels) THEN "serialised data is not the view's pixels"
         ELSE IF ~o.same2 THEN "equal views serialise differently"
         ELSE IF ~o.backok \/ N(o.backsize) # N(o.size) \/ NN(o.back) # NN(r.pixels) THEN "view changed by serialisation"
         ELSE "ok"
    [] OTHER ->
         IF o.outcome = "ok" /\ \E i \in 1..Len(o.render) : o.render[i] # "ok" THEN "deserialised value cannot be laid out and rendered"
         ELSE IF o.outcome = "ok" /\ o.outside # 0 THEN "deserialised view paints outside its surface"
         ELSE IF o.outcome = "ok" /\ ~o.consistent THEN "deserialised image is inconsistent"
         ELSE "ok"
Bad == SelectSeq([i \in 1..Len(Rec) |-> [id |-> Rec[i].id, why |-> Verdict(Rec[i])]], LAMBDA v : v.why # "ok")
ASSUME ndJsonSerialize(IOEnv.OUT, Bad)
ASSUME PrintT(<<"JUDGED", Len(Rec), Len(Bad)>>)
VARIABLE x
Init == x = 0
Next == UNCHANGED x
=============================================================================
