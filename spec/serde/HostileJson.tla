------------------------------ MODULE HostileJson ------------------------------
(* Generator of JSON documents (as text) for the hand-written deserialisers of *)
(* C19: well-typed but extreme values, wrong types, missing / repeated keys,   *)
(* every key order, invalid base64, deep nesting.  Only totality is required   *)
(* of them (value or error, never a panic / overflow / hang), and every view   *)
(* that deserialises must lay out and render.                                  *)
EXTENDS Integers, Sequences, FiniteSets, TLC, Json, IOUtils, SequencesExt
RECURSIVE JoinS(_, _)
JoinS(items, sep) == IF items = <<>> THEN "" ELSE IF Len(items) = 1 THEN items[1] ELSE items[1] \o sep \o JoinS(Tail(items), sep)
Q(s) == "\"" \o s \o "\""
KV(k, v) == Q(k) \o ":" \o v
\* an object from <<key, value text>> pairs; value "" means the key is omitted
Obj(pairs) == "{" \o JoinS(SelectSeq([i \in 1..Len(pairs) |-> IF pairs[i][2] = "" THEN "" ELSE KV(pairs[i][1], pairs[i][2])], LAMBDA s : s # ""), ",") \o "}"
Perm3 == << <<1, 2, 3>>, <<1, 3, 2>>, <<2, 1, 3>>, <<2, 3, 1>>, <<3, 1, 2>>, <<3, 2, 1>> >>
Doc(target, text) == [kind |-> "doc", target |-> target, doc |-> text]

\* ------------------------------------------------------------------ numbers
Nums == <<"0", "1", "2", "3", "4294967296", "4611686018427387904", "18446744073709551615", "18446744073709551616", "-1", "1.5", "\"1\"", "1e30", "null", "true">>
SizeOf(h, w) == Obj(<<<<"height", h>>, <<"width", w>>>>)
SmallNums == <<"0", "1", "2">>
\* ------------------------------------------------------------------- images
Chans == <<"", "0", "1", "2", "3", "4", "5", "256", "-1", "1.5", "\"3\"", "null">>
Datas == <<"", "\"\"", "\"AAAA\"", "\"AAA=\"", "\"QUJD\"", "\"A\"", "\"!!!!\"", "\"AAAA AAAA\"", "\"AAAAAAAAAAAAAAAA\"", "123", "null", "[\"a\"]", "\"=AAA\"", "\"AA==AA==\"">>
ImageDoc(size, ch, data, perm) ==
  LET p == <<<<"size", size>>, <<"channels", ch>>, <<"data", data>>>> IN Obj(<<p[Perm3[perm][1]], p[Perm3[perm][2]], p[Perm3[perm][3]]>>)
Images1 == [i \in 1..(Len(Nums) * Len(Nums) * 4 * 3) |->
              LET h == Nums[((i - 1) % Len(Nums)) + 1]  w == Nums[(((i - 1) \div Len(Nums)) % Len(Nums)) + 1]
                  c == <<"", "1", "3", "4">>[(((i - 1) \div (Len(Nums) * Len(Nums))) % 4) + 1]
                  d == <<"\"\"", "\"AAAA\"", "\"AAA=\"">>[((i - 1) \div (Len(Nums) * Len(Nums) * 4)) + 1]
              IN Doc("image", ImageDoc(SizeOf(h, w), c, d, (i % 6) + 1))]
Images2 == [i \in 1..(9 * Len(Chans) * Len(Datas)) |->
              LET h == SmallNums[((i - 1) % 3) + 1]  w == SmallNums[(((i - 1) \div 3) % 3) + 1]
                  c == Chans[(((i - 1) \div 9) % Len(Chans)) + 1]  d == Datas[((i - 1) \div (9 * Len(Chans))) + 1]
              IN Doc("image", ImageDoc(SizeOf(h, w), c, d, (i % 6) + 1))]
OddSizes == <<"", "null", "\"3x4\"", "[1,2]", "{}", "{\"height\":1}", "{\"width\":1}", "{\"height\":1,\"width\":1,\"depth\":1}", "{\"height\":1,\"height\":2,\"width\":1}", "7">>
Images3 == [i \in 1..(Len(OddSizes) * 6) |-> Doc("image", ImageDoc(OddSizes[((i - 1) % Len(OddSizes)) + 1], "1", "\"AA==\"", ((i - 1) \div Len(OddSizes)) + 1))]
\* repeated keys and non-objects
Images4 == << Doc("image", "{\"size\":{\"height\":1,\"width\":1},\"data\":\"AA==\",\"data\":\"AA==\",\"channels\":1}"),
              Doc("image", "{\"size\":{\"height\":1,\"width\":1},\"size\":{\"height\":0,\"width\":0},\"data\":\"AA==\",\"channels\":1}"),
              Doc("image", "{\"channels\":1,\"channels\":4,\"size\":{\"height\":1,\"width\":1},\"data\":\"AAAAAA==\"}"),
              Doc("image", "{\"data\":\"AAAAAA==\",\"channels\":4,\"channels\":1,\"size\":{\"height\":1,\"width\":1}}"),
              Doc("image", "[]"), Doc("image", "null"), Doc("image", "\"x\""), Doc("image", "3"), Doc("image", "{}"),
              Doc("image", "{\"size\":{\"height\":1,\"width\":1},\"data\":\"AA==\",\"channels\":1,\"extra\":{\"a\":[1,2,{\"b\":null}]}}") >>
\* ------------------------------------------------------------------- glyphs
Paths == <<"", "\"M0,0 L1,0 L1,1 Z\"", "\"\"", "\"M\"", "\"garbage\"", "\"M0,0 L1e400,1\"", "\"M0,0 L1e30,1e30 Z\"", "\"M0,0 A1,1 0 0 0 1,1\"", "5", "null">>
GSizes == <<"", SizeOf("1", "3"), SizeOf("0", "0"), SizeOf("18446744073709551615", "18446744073709551615"), SizeOf("-1", "1"), "\"1x3\"", "null">>
VBoxes == <<"", "[0,0,1,1]", "[0,0,0,0]", "[1,1,-1,-1]", "\"0 0 1 1\"", "[0,0,1e308,1e308]", "[0,0]", "null", "{\"x\":0}">>
Frames == <<"", "{}", "{\"margin\":[1,1,1,1]}", "{\"margin\":[1,1]}", "{\"border_width\":[1e30,0,0,0],\"border_color\":\"#fff\"}", "{\"fill_color\":\"nocolor\"}",
            "{\"border_radius\":[-1,-1,-1,-1],\"padding\":[1e308,1e308,1e308,1e308]}", "7", "{\"margin\":null}">>
Fallbacks == <<"", "\"ab\"", "\"\"", "5">>
FillRules == <<"", "\"nonzero\"", "\"evenodd\"", "\"bad\"", "1">>
GlyphDoc(p, s, vb, fr, fb, rule, scene) == Obj(<<<<"path", p>>, <<"size", s>>, <<"view_box", vb>>, <<"frame", fr>>, <<"fallback", fb>>, <<"fill_rule", rule>>, <<"scene", scene>>>>)
Glyphs1 == [i \in 1..(Len(Paths) * Len(GSizes) * Len(VBoxes)) |->
              Doc("glyph", GlyphDoc(Paths[((i - 1) % Len(Paths)) + 1], GSizes[(((i - 1) \div Len(Paths)) % Len(GSizes)) + 1],
                                    VBoxes[((i - 1) \div (Len(Paths) * Len(GSizes))) + 1], "", "\"g\"", "", ""))]
Glyphs2 == [i \in 1..(Len(Frames) * Len(Fallbacks) * Len(FillRules)) |->
              Doc("glyph", GlyphDoc("\"M0,0 L1,0 L1,1 Z\"", SizeOf("1", "2"), "", Frames[((i - 1) % Len(Frames)) + 1],
                                    Fallbacks[(((i - 1) \div Len(Frames)) % Len(Fallbacks)) + 1], FillRules[((i - 1) \div (Len(Frames) * Len(Fallbacks))) + 1], ""))]
\* a zero-radius arc (SVG: to be treated as a line)
Glyphs3 == << Doc("glyph", GlyphDoc("\"M0,0 A0,0 0 0 0 1,1\"", "", "", "", "", "", "")), Doc("glyph", GlyphDoc("\"M0,0 L1,1\"", "", "", "", "", "", "null")), Doc("glyph", GlyphDoc("", "", "", "", "", "", "{}")), Doc("glyph", GlyphDoc("", "", "", "", "", "", "\"x\"")),
              Doc("glyph", GlyphDoc("\"M0,0 L1,1\"", "", "", "", "", "", "{}")), Doc("glyph", "[]"), Doc("glyph", "null"), Doc("glyph", "{}"),
              Doc("glyph", "{\"path\":\"M0,0 L1,1\",\"path\":\"M\"}"), Doc("glyph", "{\"size\":{\"height\":1,\"width\":1},\"path\":\"M0,0 L1,1 Z\",\"size\":{\"height\":2,\"width\":2}}") >>
\* --------------------------------------------------------------------- text
RECURSIVE Nest(_, _, _, _)
Nest(open, inner, close, n) == IF n = 0 THEN inner ELSE open \o Nest(open, inner, close, n - 1) \o close
Faces == <<"", "\"bold\"", "\"fg=#ff0000,bg=#00ff0080\"", "\"fg=nocolor\"", "\"fg=\"", "\"bogus\"", "5", "null", "\"fg=#12\"", "\"fg=#ggeeff\"", "\",,,\"", "\"fg=red/0.5\"", "\"fg=#ff0000/x\"">>
Texts == <<"\"hello\"", "\"\"", "[]", "[\"a\",[\"b\",[\"c\"]]]", "5", "null", "true", "{}", "{\"text\":5}", "{\"glyph\":{}}", "{\"glyph\":{\"path\":\"M0,0 L1,1 Z\"},\"text\":\"ignored\"}",
           "{\"wraps\":\"yes\",\"text\":\"a\"}", "{\"wraps\":false,\"text\":\"a long line of text\"}", "[{\"face\":\"bold\",\"text\":[\"x\",{\"face\":\"italic\",\"text\":\"y\"}]}]",
           "\"tab\\there\\nnewline \\u0000 nul \\ud83e\\udd29\"" >>
\* glyphs of extreme size inside a text (the text view measures every cell)
HugeGlyph(h, w) == "{\"glyph\":{\"path\":\"M0,0 h1 v1 Z\",\"size\":" \o SizeOf(h, w) \o "}}"
Text4 == [i \in 1..(Len(Nums) * 3) |->
            LET n == Nums[((i - 1) % Len(Nums)) + 1]  k == (i - 1) \div Len(Nums)
            IN Doc("text", IF k = 0 THEN "[\"a\"," \o HugeGlyph(n, n) \o ",\"b\"]"
                           ELSE IF k = 1 THEN "[\"a\"," \o HugeGlyph("1", n) \o ",\"b\"," \o HugeGlyph(n, "2") \o "]"
                           ELSE "{\"wraps\":false,\"text\":[\"ab\\n\"," \o HugeGlyph(n, "1") \o "," \o HugeGlyph("1", n) \o "]}")]
Text1 == [i \in 1..(Len(Faces) * Len(Texts)) |-> Doc("text", Obj(<<<<"face", Faces[((i - 1) % Len(Faces)) + 1]>>, <<"text", Texts[((i - 1) \div Len(Faces)) + 1]>>>>))]
Text2 == [i \in 1..Len(Texts) |-> Doc("text", Texts[i])]
Depths == <<1, 10, 60, 120, 126>>
Text3 == [i \in 1..Len(Depths) |-> Doc("text", Nest("[", "\"x\"", "]", Depths[i]))] \o [i \in 1..Len(Depths) |-> Doc("text", Nest("{\"text\":", "\"x\"", "}", Depths[i]))]
\* -------------------------------------------------------------------- views
Leaf == "{\"type\":\"text\",\"text\":\"ab\"}"
Aligns == <<"", "\"start\"", "\"center\"", "\"end\"", "\"expand\"", "\"shrink\"", "{\"offset\":2}", "{\"offset\":-2}", "{\"offset\":2147483648}", "{\"offset\":-2147483648}", "{\"offset\":1.5}", "\"offset\"", "\"bogus\"", "3", "null">>
Flexes == <<"", "1", "0", "-1", "0.5", "1e308", "-1e308", "1e-320", "\"1\"", "null">>
Kids == <<"", "[]", "{}", "5", "[5]", "[null]", "[{}]", "[{\"flex\":1}]", "[{\"view\":5}]", "[{\"view\":{}}]", "[{\"view\":{\"type\":\"nope\"}}]">>
Dirs == <<"", "\"horizontal\"", "\"vertical\"", "\"diagonal\"", "1">>
Justs == <<"", "\"start\"", "\"center\"", "\"end\"", "\"space-between\"", "\"space-around\"", "\"space-evenly\"", "\"bogus\"">>
FlexDoc(dir, just, kids) == Obj(<<<<"type", "\"flex\"">>, <<"direction", dir>>, <<"justify", just>>, <<"children", kids>>>>)
FlexChild(flex, align, face, view) == Obj(<<<<"flex", flex>>, <<"align", align>>, <<"face", face>>, <<"view", view>>>>)
Views1 == [i \in 1..(Len(Dirs) * Len(Justs) * Len(Kids)) |->
             Doc("view", FlexDoc(Dirs[((i - 1) % Len(Dirs)) + 1], Justs[(((i - 1) \div Len(Dirs)) % Len(Justs)) + 1], Kids[((i - 1) \div (Len(Dirs) * Len(Justs))) + 1]))]
Views2 == [i \in 1..(Len(Flexes) * Len(Aligns) * 2) |->
             LET f == Flexes[((i - 1) % Len(Flexes)) + 1]  a == Aligns[(((i - 1) \div Len(Flexes)) % Len(Aligns)) + 1]  d == Dirs[((i - 1) \div (Len(Flexes) * Len(Aligns))) + 2]
             IN Doc("view", FlexDoc(d, "\"space-around\"", "[" \o FlexChild(f, a, "", Leaf) \o "," \o FlexChild("2", "", "\"bg=#101010\"", Leaf) \o "," \o Leaf \o "]"))]
\* children that own a nested layout (container, tag) with flex factors that may leave them without space
Boxed == <<"{\"type\":\"container\",\"child\":" \o Leaf \o "}", "{\"type\":\"tag\",\"tag\":1,\"view\":" \o Leaf \o "}",
           "{\"type\":\"container\",\"size\":{\"height\":9,\"width\":40},\"child\":{\"type\":\"tag\",\"tag\":1,\"view\":" \o Leaf \o "}}">>
Views2b == [i \in 1..(Len(Flexes) * Len(Boxed) * 2 * 2) |->
              LET f == Flexes[((i - 1) % Len(Flexes)) + 1]  b == Boxed[(((i - 1) \div Len(Flexes)) % Len(Boxed)) + 1]
                  d == Dirs[(((i - 1) \div (Len(Flexes) * Len(Boxed))) % 2) + 2]  first == ((i - 1) \div (Len(Flexes) * Len(Boxed) * 2)) = 0
                  kid == FlexChild(f, "", "", b)  greedy == FlexChild("1000", "", "", Boxed[3])
              IN Doc("view", FlexDoc(d, "", "[" \o (IF first THEN kid \o "," \o greedy ELSE greedy \o "," \o kid) \o "]"))]
Margins == <<"", "{}", "{\"left\":1}", "{\"left\":1,\"right\":2,\"top\":3,\"bottom\":4}", "{\"left\":18446744073709551615,\"top\":18446744073709551615}", "{\"left\":-1}", "{\"left\":1.5}", "[1,2,3,4]", "null">>
CSizes == <<"", SizeOf("0", "0"), SizeOf("3", "7"), SizeOf("18446744073709551615", "18446744073709551615"), SizeOf("-1", "1"), "{\"height\":1}", "null", "\"3x7\"">>
ContDoc(size, v, h, m, face, child) == Obj(<<<<"type", "\"container\"">>, <<"size", size>>, <<"vertical", v>>, <<"horizontal", h>>, <<"margins", m>>, <<"face", face>>, <<"child", child>>>>)
Views3 == [i \in 1..(Len(CSizes) * Len(Margins) * Len(Aligns)) |->
             LET s == CSizes[((i - 1) % Len(CSizes)) + 1]  m == Margins[(((i - 1) \div Len(CSizes)) % Len(Margins)) + 1]  a == Aligns[((i - 1) \div (Len(CSizes) * Len(Margins))) + 1]
             IN Doc("view", ContDoc(s, a, Aligns[((i * 7) % Len(Aligns)) + 1], m, IF i % 5 = 0 THEN "\"bg=#202020\"" ELSE "", Leaf))]
\* every view type with every odd payload
Types == <<"\"text\"", "\"flex\"", "\"container\"", "\"glyph\"", "\"image\"", "\"image_ascii\"", "\"color\"", "\"tag\"", "\"ref\"", "\"trace-layout\"", "\"nope\"", "5", "null", "">>
Payloads == << <<>>, <<<<"view", Leaf>>>>, <<<<"child", Leaf>>>>, <<<<"view", Leaf>>, <<"tag", "null">>>>, <<<<"view", "5">>, <<"tag", "1">>>>, <<<<"ref", "1">>>>, <<<<"ref", "\"a\"">>>>, <<<<"ref", "-9223372036854775808">>>>,
               <<<<"color", "\"#ff0000\"">>>>, <<<<"text", "\"x\"">>>>, <<<<"path", "\"M0,0 L1,1 Z\"">>>>, <<<<"size", SizeOf("1", "1")>>, <<"data", "\"AA==\"">>, <<"channels", "1">>>>,
               <<<<"size", SizeOf("2", "2")>>, <<"data", "\"AAAAAAAAAAAAAAAA\"">>>>, <<<<"view", Leaf>>, <<"msg", "5">>>>, <<<<"child", "{\"type\":\"nope\"}">>>> >>
Views4 == [i \in 1..(Len(Types) * Len(Payloads)) |-> Doc("view", Obj(<<<<"type", Types[((i - 1) % Len(Types)) + 1]>>>> \o Payloads[((i - 1) \div Len(Types)) + 1]))]
\* deep nesting (serde_json refuses documents deeper than 128)
Views5 == [i \in 1..Len(Depths) |-> Doc("view", Nest("{\"type\":\"container\",\"child\":", Leaf, "}", Depths[i] \div 2))]
          \o [i \in 1..Len(Depths) |-> Doc("view", Nest("{\"type\":\"flex\",\"children\":[{\"flex\":1,\"view\":", Leaf, "}," \o Leaf \o "]}", Depths[i] \div 4))]
          \o [i \in 1..Len(Depths) |-> Doc("view", Nest("{\"type\":\"tag\",\"tag\":0,\"view\":", "{\"type\":\"container\",\"child\":" \o Leaf \o "}", "}", Depths[i] \div 2))]
          \o << Doc("view", "[]"), Doc("view", "null"), Doc("view", "\"text\""), Doc("view", "{\"type\":\"text\",\"type\":\"flex\",\"text\":\"x\"}") >>
\* image views of zero area whose other extent is huge (the image deserialiser accepts them: no pixel data is needed),
\* alone, inside a container and as a flex child
Extents == <<"0", "1", "2", "7", "4294967296", "4611686018427387904", "9223372036854775807", "9223372036854775808", "18446744073709551614", "18446744073709551615">>
ImgView(t, h, w) == Obj(<<<<"type", t>>, <<"size", SizeOf(h, w)>>, <<"data", "\"\"">>, <<"channels", "1">>>>)
Views6 == [i \in 1..(2 * Len(Extents) * 2 * 3) |->
             LET t == <<"\"image\"", "\"image_ascii\"">>[((i - 1) % 2) + 1]  e == Extents[(((i - 1) \div 2) % Len(Extents)) + 1]
                 tall == (((i - 1) \div (2 * Len(Extents))) % 2) = 0  wrap == (i - 1) \div (4 * Len(Extents))
                 v == IF tall THEN ImgView(t, e, "0") ELSE ImgView(t, "0", e)
             IN Doc("view", IF wrap = 0 THEN v
                            ELSE IF wrap = 1 THEN "{\"type\":\"container\",\"margins\":{\"left\":1,\"top\":1},\"child\":" \o v \o "}"
                            ELSE "{\"type\":\"flex\",\"direction\":\"vertical\",\"children\":[" \o Leaf \o ",{\"flex\":1,\"view\":" \o v \o "}," \o v \o "]}")]
Vec == Images1 \o Images2 \o Images3 \o Images4 \o Glyphs1 \o Glyphs2 \o Glyphs3 \o Text1 \o Text2 \o Text3 \o Text4 \o Views1 \o Views2 \o Views2b \o Views3 \o Views4 \o Views5 \o Views6
ASSUME ndJsonSerialize(IOEnv.OUT, Vec)
ASSUME PrintT(<<"GENERATED", Len(Vec)>>)
VARIABLE x
Init == x = 0
Next == UNCHANGED x
=============================================================================
