------------------------------- MODULE SerdeGen -------------------------------
(* Vectors for C19 (harness c19-run): values whose serialised form must round  *)
(* trip, together with what they denote.                                       *)
(*  face   : every attribute set (6 underline styles x 32 flag sets) x 4       *)
(*           colour settings, every colour pair x 6 attribute sets, each in 4  *)
(*           syntactic variants (FaceSyntax)                                    *)
(*  chord  : 1..3 keys written in the chord syntax (KeySyntax tables)          *)
(*  size   : extents as decimal strings incl. 0 and the 32/64-bit boundaries   *)
(*  imgin  : image documents in the 1/3/4 channel layouts, data = Base64 spec  *)
(*  imgview: every crop window of small parent images                          *)
EXTENDS FaceSyntax, Base64, TLC, Json, IOUtils, SequencesExt
Colours == << <<>>, <<0, 0, 0, 255>>, <<255, 255, 255, 255>>, <<18, 52, 86, 255>>, <<171, 205, 239, 128>>, <<1, 2, 3, 0>>, <<255, 0, 10, 254>> >>
FlagSets == SUBSET (1..5)
FlagSeq == SetToSeq(FlagSets)
Face(fg, bg, u, fl) == [fg |-> fg, bg |-> bg, under |-> u, flags |-> fl]
FlagList(S) == SetToSeq(S)
FaceVec(f, v) == [kind |-> "face", text |-> Variant(f, v), fg |-> f.fg, bg |-> f.bg, under |-> f.under, flags |-> FlagItems(f.flags, 1), variant |-> v]
ColourSettings == << <<1, 1>>, <<4, 1>>, <<1, 5>>, <<6, 7>> >>
AttrSamples == << <<0, {}>>, <<1, {1}>>, <<3, {2, 5}>>, <<5, {1, 2, 3, 4, 5}>>, <<0, {4}>>, <<2, {}>> >>
Faces1 == [i \in 1..(6 * 32 * 4) |->
             LET u == (i - 1) % 6  fl == FlagSeq[(((i - 1) \div 6) % 32) + 1]  cs == ColourSettings[((i - 1) \div 192) + 1]
             IN Face(Colours[cs[1]], Colours[cs[2]], u, fl)]
Faces2 == [i \in 1..(7 * 7 * 6) |->
             LET a == AttrSamples[((i - 1) % 6) + 1]  fg == Colours[(((i - 1) \div 6) % 7) + 1]  bg == Colours[((i - 1) \div 42) + 1]
             IN Face(fg, bg, a[1], a[2])]
AllFaces == Faces1 \o Faces2
FaceVecs == [i \in 1..(4 * Len(AllFaces)) |-> FaceVec(AllFaces[((i - 1) \div 4) + 1], ((i - 1) % 4) + 1)]

\* ---- chords (same tables as keys/KeySyntax.tla)
Mods == << <<"shift", 1>>, <<"alt", 2>>, <<"ctrl", 4>>, <<"super", 8>>, <<"hyper", 16>>, <<"meta", 32>>, <<"press", 256>>, <<"capslock", 64>> >>
Names == << <<"left", "left">>, <<"pageup", "pageup">>, <<"tab", "tab">>, <<"enter", "enter">>, <<"escape", "esc">>, <<"space", "space">>, <<"backspace", "backspace">>,
            <<"delete", "delete">>, <<"f1", "f1">>, <<"f35", "f35">>, <<"a", "a">>, <<"z", "z">>, <<"0", "0">>, <<"`", "`">>, <<"-", "-">>, <<"=", "=">>, <<";", ";">>, <<",", ",">>, <<"/", "/">> >>
ModSets == << {}, {1}, {2}, {3}, {2, 3}, {1, 3}, {4}, {5, 6}, {1, 2, 3}, {7}, {3, 8}, 1..8 >>
RECURSIVE ModText(_, _)
ModText(S, i) == IF i > Len(Mods) THEN "" ELSE (IF i \in S THEN Mods[i][1] \o "+" ELSE "") \o ModText(S, i + 1)
RECURSIVE ModBits(_, _)
ModBits(S, i) == IF i > Len(Mods) THEN 0 ELSE (IF i \in S THEN Mods[i][2] ELSE 0) + ModBits(S, i + 1)
NK == Len(ModSets) * Len(Names)
KeyText(k) == ModText(ModSets[((k - 1) % Len(ModSets)) + 1], 1) \o Names[((k - 1) \div Len(ModSets)) + 1][1]
KeyExp(k) == [name |-> Names[((k - 1) \div Len(ModSets)) + 1][2], bits |-> ModBits(ModSets[((k - 1) % Len(ModSets)) + 1], 1)]
ChordVec(ks, sep) == [kind |-> "chord", text |-> JoinS([i \in 1..Len(ks) |-> KeyText(ks[i])], sep), keys |-> [i \in 1..Len(ks) |-> KeyExp(ks[i])]]
Chords1 == [k \in 1..NK |-> ChordVec(<<k>>, " ")]
\* pairs: every key with 19 partners; triples along a stride
Chords2 == [i \in 1..(NK * 19) |-> ChordVec(<<((i - 1) % NK) + 1, (((i - 1) * 7 + (i - 1) \div NK) % NK) + 1>>, IF i % 5 = 0 THEN "  " ELSE " ")]
Chords3 == [i \in 1..NK |-> ChordVec(<<i, ((i * 5) % NK) + 1, ((i * 11) % NK) + 1>>, " ")]
ChordVecs == Chords1 \o Chords2 \o Chords3

\* ---- sizes: decimal strings (TLC integers are 32 bit)
Extents == <<"0", "1", "2", "255", "65535", "65536", "2147483647", "2147483648", "4294967295", "4294967296", "9223372036854775807", "18446744073709551615">>
SizeVecs == [i \in 1..(Len(Extents) * Len(Extents)) |-> [kind |-> "size", h |-> Extents[((i - 1) % Len(Extents)) + 1], w |-> Extents[((i - 1) \div Len(Extents)) + 1]]]

\* ---- image documents: pixel (r, c) of an h x w image in a layout with n channels
Chan(r, c, k, seed) == (r * 37 + c * 11 + k * 101 + seed * 53) % 256
Raw(h, w, n, seed) == [i \in 1..(h * w * n) |-> LET p == (i - 1) \div n IN Chan(p \div w, p % w, (i - 1) % n, seed)]
PixelsOf(raw, n) ==
  [p \in 1..(Len(raw) \div n) |->
     IF n = 1 THEN <<raw[p], raw[p], raw[p], 255>>
     ELSE IF n = 3 THEN <<raw[3 * p - 2], raw[3 * p - 1], raw[3 * p], 255>>
     ELSE <<raw[4 * p - 3], raw[4 * p - 2], raw[4 * p - 1], raw[4 * p]>>]
Dims == << <<0, 0>>, <<0, 3>>, <<2, 0>>, <<1, 1>>, <<1, 2>>, <<2, 1>>, <<2, 3>>, <<3, 2>>, <<3, 5>>, <<4, 4>>, <<1, 7>>, <<6, 1>> >>
ImgIn(i) ==
  LET d == Dims[((i - 1) % Len(Dims)) + 1]  n == <<1, 3, 4>>[(((i - 1) \div Len(Dims)) % 3) + 1]  seed == (i - 1) \div (3 * Len(Dims))
      raw == Raw(d[1], d[2], n, seed)
  IN [kind |-> "imgin", h |-> d[1], w |-> d[2], channels |-> n, data |-> Encode(raw), pixels |-> PixelsOf(raw, n),
      order |-> seed % 6, defaultch |-> (n = 3 /\ seed % 2 = 1)]
ImgInVecs == [i \in 1..(Len(Dims) * 3 * 6) |-> ImgIn(i)]

\* ---- crops: parent h x w (RGBA from Raw with 4 channels), window rows r0..r1, cols c0..c1 (half open, may be empty)
Parents == << <<1, 1>>, <<2, 3>>, <<3, 2>>, <<3, 4>> >>
Windows(h, w) == { <<r0, r1, c0, c1>> \in (0..h) \X (0..h) \X (0..w) \X (0..w) : r0 <= r1 /\ c0 <= c1 }
ViewVec(pi, win) ==
  LET h == Parents[pi][1]  w == Parents[pi][2]  raw == Raw(h, w, 4, pi)  px == PixelsOf(raw, 4)
      vh == win[2] - win[1]  vw == win[4] - win[3]
  IN [kind |-> "imgview", h |-> h, w |-> w, parent |-> px, rows |-> <<win[1], win[2]>>, cols |-> <<win[3], win[4]>>,
      pixels |-> [p \in 1..(vh * vw) |-> px[(win[1] + (p - 1) \div vw) * w + win[3] + ((p - 1) % vw) + 1]]]
ViewVecs == FlattenSeq([pi \in 1..Len(Parents) |-> LET ws == SetToSeq(Windows(Parents[pi][1], Parents[pi][2])) IN [j \in 1..Len(ws) |-> ViewVec(pi, ws[j])]])

Part == IOEnv.PART
Vec == CASE Part = "face" -> FaceVecs [] Part = "chord" -> ChordVecs [] Part = "size" -> SizeVecs [] Part = "imgin" -> ImgInVecs [] OTHER -> ViewVecs
ASSUME ndJsonSerialize(IOEnv.OUT, Vec)
ASSUME PrintT(<<"GENERATED", Len(Vec)>>)
VARIABLE x
Init == x = 0
Next == UNCHANGED x
=============================================================================
