------------------------------ MODULE FaceSyntax ------------------------------
(* The textual syntax of faces: comma separated items `fg=<colour>`,          *)
(* `bg=<colour>`, one underline style name and flag names; colours are        *)
(* #rrggbb or #rrggbbaa (alpha ff may be omitted).  An abstract face is       *)
(* [fg, bg : <<>> or <<r,g,b,a>>, under : 0..5, flags : SUBSET 1..5].         *)
EXTENDS Integers, Sequences, FiniteSets
HexLo == <<"0","1","2","3","4","5","6","7","8","9","a","b","c","d","e","f">>
HexUp == <<"0","1","2","3","4","5","6","7","8","9","A","B","C","D","E","F">>
Hex2(n, up) == IF up THEN HexUp[(n \div 16) + 1] \o HexUp[(n % 16) + 1] ELSE HexLo[(n \div 16) + 1] \o HexLo[(n % 16) + 1]
\* colour text; `full` writes the alpha even when it is ff
ColourText(c, up, full) == "#" \o Hex2(c[1], up) \o Hex2(c[2], up) \o Hex2(c[3], up) \o (IF c[4] # 255 \/ full THEN Hex2(c[4], up) ELSE "")
UnderName == <<"underline", "underline_double", "underline_curly", "underline_dotted", "underline_dashed">>
FlagName == <<"bold", "italic", "blink", "reverse", "strike">>
\* the items of a face in canonical order
RECURSIVE FlagItems(_, _)
FlagItems(S, i) == IF i > 5 THEN <<>> ELSE (IF i \in S THEN <<FlagName[i]>> ELSE <<>>) \o FlagItems(S, i + 1)
Items(f, up, full, eq) ==
  (IF f.fg # <<>> THEN <<"fg" \o eq \o ColourText(f.fg, up, full)>> ELSE <<>>)
  \o (IF f.bg # <<>> THEN <<"bg" \o eq \o ColourText(f.bg, up, full)>> ELSE <<>>)
  \o (IF f.under # 0 THEN <<UnderName[f.under]>> ELSE <<>>)
  \o FlagItems(f.flags, 1)
RECURSIVE JoinS(_, _)
JoinS(items, sep) == IF items = <<>> THEN "" ELSE IF Len(items) = 1 THEN items[1] ELSE items[1] \o sep \o JoinS(Tail(items), sep)
Reverse(s) == [i \in 1..Len(s) |-> s[Len(s) + 1 - i]]
\* syntactic variants that all denote the same face
Canonical(f) == JoinS(Items(f, FALSE, FALSE, "="), ",")
Variant(f, v) ==
  CASE v = 1 -> Canonical(f)
    [] v = 2 -> JoinS(Reverse(Items(f, TRUE, TRUE, "=")), ",")
    [] v = 3 -> JoinS(Items(f, FALSE, TRUE, " = "), " , ")
    [] OTHER -> JoinS(Items(f, TRUE, FALSE, "=") \o <<"">>, ",")       \* trailing comma: empty items are ignored
=============================================================================
