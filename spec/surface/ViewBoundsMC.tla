-------------------------- MODULE ViewBoundsMC --------------------------
(* Model-checks the slice specification itself: on every selector the       *)
(* resolution is well formed, agrees with an independent set-based reading  *)
(* of Python slicing, and generates the replay vectors for the real code.   *)
EXTENDS ViewBounds, FiniteSets, TLC, Json, IOUtils, SequencesExt

CONSTANTS MaxN, B      \* axis lengths 0..MaxN, bounds -B..B

\* Independent reading: Python's own description, element by element.  An
\* index i (0-based) of the axis is selected iff it lies between the
\* normalised bounds, where a negative bound k denotes n + k and bounds
\* outside the axis select nothing beyond it.
Norm(k, n) == IF k < 0 THEN n + k ELSE k
Selected(form, a, b, n) ==
  { i \in 0..(n - 1) :
      CASE form = "idx"    -> a >= -n /\ a < n /\ i = Norm(a, n)
        [] form = "range"  -> i >= Norm(a, n) /\ i < Norm(b, n)
        [] form = "from"   -> i >= Norm(a, n)
        [] form = "to"     -> i < Norm(b, n)
        [] form = "incl"   -> i >= Norm(a, n) /\ i <= Norm(b, n)
        [] form = "toincl" -> i <= Norm(b, n)
        [] form = "full"   -> TRUE }

Vals == (-B..B) \cup {NegInf, NegInf + 1, PosInf - 1, PosInf}
VARIABLES form, a, b, n
vars == <<form, a, b, n>>
Init == form \in Forms /\ a \in Vals /\ b \in Vals /\ n \in 0..MaxN
Next == UNCHANGED vars
AsSet(r) == IF r = None THEN {} ELSE r[1]..(r[2] - 1)
Inv == LET r == Resolve(form, a, b, n) IN
       /\ WellFormed(r, n)
       /\ AsSet(r) = Selected(form, a, b, n)
=============================================================================
