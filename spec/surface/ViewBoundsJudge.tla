-------------------------- MODULE ViewBoundsJudge --------------------------
(* Judges recordings of the real ViewBounds::view_bounds: record =          *)
(* [id, form, a, b, n, ty, got] with got = <<start, end>>, <<-1,-1>> for    *)
(* None and <<-2,-2>> for a panic.                                          *)
EXTENDS ViewBounds, TLC, Json, IOUtils, SequencesExt

Rec == ndJsonDeserialize(IOEnv.TRACE)
Verdict(r) ==
  LET exp == Resolve(r.form, r.a, r.b, r.n)
      got == <<r.got[1], r.got[2]>>
  IN IF got = <<-2, -2>> THEN "panic"
     ELSE IF ~WellFormed(got, r.n) THEN "malformed"
     ELSE IF got # exp THEN "wrong"
     ELSE "ok"
Bad == SelectSeq([i \in 1..Len(Rec) |-> [id |-> Rec[i].id, why |-> Verdict(Rec[i]),
                                          exp |-> Resolve(Rec[i].form, Rec[i].a, Rec[i].b, Rec[i].n)]],
                 LAMBDA v : v.why # "ok")
ASSUME ndJsonSerialize(IOEnv.OUT, Bad)
ASSUME PrintT(<<"JUDGED", Len(Rec), Len(Bad)>>)
VARIABLE x
Init == x = 0
Next == UNCHANGED x
=============================================================================
