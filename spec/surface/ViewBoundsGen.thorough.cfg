CONSTANTS B = 14
  Ns = {0, 1, 2, 3, 4, 5, 6, 7, 8, 9, 10, 11, 13, 126, 127, 128, 129, 200, 255, 256, 257, 32767, 32768, 40000, 65535, 65536, 70000}
INIT Init
NEXT Next
CHECK_DEADLOCK FALSE
