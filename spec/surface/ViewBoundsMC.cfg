CONSTANTS MaxN = 6 B = 9
INIT Init
NEXT Next
INVARIANT Inv
CHECK_DEADLOCK FALSE
