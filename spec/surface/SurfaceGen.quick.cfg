CONSTANTS B = 4 Sample = 14
INIT Init
NEXT Next
CHECK_DEADLOCK FALSE
