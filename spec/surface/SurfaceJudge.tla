---------------------------- MODULE SurfaceJudge ----------------------------
(* Judges recordings of the real Surface / SurfaceMut methods (harness      *)
(* c07-replay) against Surface.tla: for every program (parent, chain) and   *)
(* every route (owned, borrowed, mutable, nested owned) the view size, the  *)
(* row-major iteration (also resumed after k steps and consumed by          *)
(* for_each / count / last, and nth), get at every position, the addresses *)
(* handed out by iter_mut (as parent offsets: exactly the window cells,     *)
(* each once), and the parent after fill / fill_with / clear / insert /     *)
(* set, and map.                                                            *)
EXTENDS Surface, TLC, Json, IOUtils, SequencesExt
Rec == ndJsonDeserialize(IOEnv.TRACE)
N(b) == [i \in 1..Len(b) |-> b[i]]
Step(j) == [t |-> j.t, rs |-> [form |-> j.rs.form, a |-> j.rs.a, b |-> j.rs.b], cs |-> [form |-> j.cs.form, a |-> j.cs.a, b |-> j.cs.b]]
Chain(c) == [i \in 1..Len(c) |-> Step(c[i])]
Verdict(r) ==
  IF r.panic # "" THEN "panic"
  ELSE LET v == ApplyAll(Root(r.hp, r.wp), Chain(r.chain), 1)
           sizeOK == (r.h = v.h /\ r.w = v.w) \/ (r.h * r.w = 0 /\ Cells(v) = 0)
       IN IF ~sizeOK THEN "size"
          ELSE IF N(r.iter) # Iter(v, r.wp) THEN "iter"
          \* an iterator advanced by k steps yields the remaining items, whatever method consumes it
          ELSE IF \E j \in 1..Len(r.rest) : N(r.rest[j]) # SubSeq(Iter(v, r.wp), j, Cells(v)) THEN "iter-resumed"
          ELSE IF \E j \in 1..Len(r.counts) : r.counts[j] # Cells(v) - (j - 1) THEN "iter-count"
          ELSE IF \E j \in 1..Len(r.lasts) : r.lasts[j] # (IF j - 1 >= Cells(v) THEN -1 ELSE Iter(v, r.wp)[Cells(v)]) THEN "iter-last"
          ELSE IF \E j \in 1..Len(r.nths) : r.nths[j] # (IF j - 1 >= Cells(v) THEN -1 ELSE Iter(v, r.wp)[j]) THEN "iter-nth"
          ELSE IF N(r.gets) # [n \in 1..((v.h + 1) * (v.w + 1)) |-> Get(v, r.wp, (n - 1) \div (v.w + 1), (n - 1) % (v.w + 1))] THEN "get"
          ELSE IF r.mutable /\ N(r.addrs) # Iter(v, r.wp) THEN "iter_mut-addresses"
          ELSE IF r.mutable /\ N(r.fill) # AfterFill(v, r.hp, r.wp, 99) THEN "fill"
          ELSE IF r.mutable /\ N(r.clear) # AfterFill(v, r.hp, r.wp, 0) THEN "clear"
          ELSE IF r.mutable /\ N(r.fillwith) # AfterFillWith(v, r.hp, r.wp) THEN "fill_with"
          ELSE IF r.mutable /\ \E i \in 1..Len(r.inserts) :
                    LET x == r.inserts[i] IN N(x.after) # AfterInsert(v, r.hp, r.wp, x.r, x.c, x.k) THEN "insert"
          ELSE IF r.mutable /\ N(r.sets) # [n \in 1..((v.h + 1) * (v.w + 1)) |-> Get(v, r.wp, (n - 1) \div (v.w + 1), (n - 1) % (v.w + 1))] THEN "set"
          ELSE IF N(r.map) # [n \in 1..Cells(v) |-> 2 * Iter(v, r.wp)[n] + 1] THEN "map"
          ELSE "ok"
Bad == SelectSeq([i \in 1..Len(Rec) |-> [id |-> Rec[i].id, why |-> Verdict(Rec[i])]], LAMBDA v : v.why # "ok")
ASSUME ndJsonSerialize(IOEnv.OUT, Bad)
ASSUME PrintT(<<"JUDGED", Len(Rec), Len(Bad)>>)
VARIABLE x
Init == x = 0
Next == UNCHANGED x
=============================================================================
