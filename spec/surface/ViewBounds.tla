---------------------------- MODULE ViewBounds ----------------------------
(* Python / NumPy slice resolution of one row or column selector against an  *)
(* axis of length n (property C08).                                          *)
(*                                                                           *)
(* Bounds are extended integers: an ordinary integer, or NegInf / PosInf,    *)
(* which stand for ANY value of magnitude >= 2^31.  That abstraction is      *)
(* exact because axis lengths are < 2^31 in every vector we generate: every  *)
(* such bound is clamped.  NegInf+1 / PosInf-1 stand for "one inside the     *)
(* extreme" and are clamped in the same way.                                 *)
EXTENDS Integers, Sequences

NegInf == -2000000000
PosInf == 2000000000

\* inclusive start bound -> index in 0..n
StartIdx(a, n) == IF a >= n THEN n ELSE IF a >= 0 THEN a ELSE IF a >= -n THEN n + a ELSE 0
\* exclusive end bound -> index in 0..n
EndEx(b, n) == IF b >= n THEN n ELSE IF b >= 0 THEN b ELSE IF b >= -n THEN n + b ELSE 0
\* inclusive end bound: one past the element it denotes; nothing if that
\* element lies before the axis
EndIn(b, n) == IF b >= n THEN n ELSE IF b >= 0 THEN b + 1 ELSE IF b >= -n THEN n + b + 1 ELSE 0

None == <<-1, -1>>
Mk(s, e) == IF e <= s THEN None ELSE <<s, e>>

Forms == {"idx", "range", "from", "to", "incl", "toincl", "full"}

Resolve(form, a, b, n) ==
  IF n = 0 THEN None ELSE
  CASE form = "idx"    -> IF a >= n \/ a < -n THEN None ELSE LET s == StartIdx(a, n) IN <<s, s + 1>>
    [] form = "range"  -> Mk(StartIdx(a, n), EndEx(b, n))
    [] form = "from"   -> Mk(StartIdx(a, n), n)
    [] form = "to"     -> Mk(0, EndEx(b, n))
    [] form = "incl"   -> Mk(StartIdx(a, n), EndIn(b, n))
    [] form = "toincl" -> Mk(0, EndIn(b, n))
    [] form = "full"   -> <<0, n>>

\* The postcondition C08 states for every resolved selector.
WellFormed(res, n) == res = None \/ (0 <= res[1] /\ res[1] < res[2] /\ res[2] <= n)

\* Resolution as a window of a sequence (used by Surface.tla): the selected
\* indices, 1-based.
Window(form, a, b, n) ==
  LET r == Resolve(form, a, b, n) IN IF r = None THEN {} ELSE (r[1] + 1)..r[2]
=============================================================================
