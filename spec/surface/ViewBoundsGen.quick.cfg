CONSTANTS B = 12
  Ns = {0, 1, 2, 3, 10, 127, 128, 200, 256, 70000}
INIT Init
NEXT Next
CHECK_DEADLOCK FALSE
