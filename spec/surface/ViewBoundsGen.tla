-------------------------- MODULE ViewBoundsGen --------------------------
(* Replay vectors for ViewBounds::view_bounds: every selector form over    *)
(* every integer type, bounds -B..B plus the extremes of the type.  For    *)
(* the types wider than 31 bits the extremes travel as the sentinels       *)
(* NegInf, NegInf+1, PosInf-1, PosInf (harness: MIN, MIN+1, MAX-1, MAX).   *)
EXTENDS ViewBounds, FiniteSets, TLC, Json, IOUtils, SequencesExt

CONSTANTS B, Ns

Signed == {"i8", "i16", "i32", "i64", "isize"}
Unsigned == {"u8", "u16", "u32", "u64", "usize"}
Types == Signed \cup Unsigned
Extremes(ty) ==
  CASE ty = "i8"  -> {-128, -127, 126, 127}
    [] ty = "u8"  -> {254, 255}
    [] ty = "i16" -> {-32768, -32767, 32766, 32767}
    [] ty = "u16" -> {65534, 65535}
    [] ty \in {"i32", "i64", "isize"} -> {NegInf, NegInf + 1, PosInf - 1, PosInf}
    [] OTHER -> {PosInf - 1, PosInf}
Vals(ty) == (IF ty \in Signed THEN -B..B ELSE 0..B) \cup Extremes(ty)

One(ty) == { [form |-> f, a |-> (IF f \in {"idx", "from"} THEN x ELSE 0), b |-> (IF f \in {"to", "toincl"} THEN x ELSE 0), n |-> n, ty |-> ty]
              : f \in {"idx", "from", "to", "toincl"}, x \in Vals(ty), n \in Ns }
Two(ty) == { [form |-> f, a |-> x, b |-> y, n |-> n, ty |-> ty] : f \in {"range", "incl"}, x \in Vals(ty), y \in Vals(ty), n \in Ns }
Full(ty) == { [form |-> "full", a |-> 0, b |-> 0, n |-> n, ty |-> ty] : n \in Ns }
PerType(ty) == SetToSeq(One(ty)) \o SetToSeq(Two(ty)) \o SetToSeq(Full(ty))
TySeq == SetToSeq(Types)
Vec == FlattenSeq([i \in 1..Len(TySeq) |-> PerType(TySeq[i])])

ASSUME ndJsonSerialize(IOEnv.OUT, Vec)
ASSUME PrintT(<<"GENERATED", Len(Vec)>>)
VARIABLE x
Init == x = 0
Next == UNCHANGED x
=============================================================================
