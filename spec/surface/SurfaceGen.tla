----------------------------- MODULE SurfaceGen -----------------------------
(* View programs for replay: parents incl. zero extents, chains of up to    *)
(* three view / transpose steps with selectors of every form and bounds     *)
(* beyond the axis.  Every selector of the family is applied on one axis    *)
(* (plain, on the other axis, after a transpose, nested in a window);       *)
(* two-axis combinations and longer chains are sampled (RandomSubset,       *)
(* -seed).                                                                  *)
EXTENDS Surface, TLC, Json, IOUtils, SequencesExt, Randomization
CONSTANTS B, Sample
Vals == -B..B
Sels == { Sel("idx", a, 0) : a \in Vals } \cup { Sel("range", a, b) : a \in Vals, b \in Vals } \cup { Sel("from", a, 0) : a \in Vals }
        \cup { Sel("to", 0, b) : b \in Vals } \cup { Sel("incl", a, b) : a \in Vals, b \in Vals } \cup { Sel("toincl", 0, b) : b \in Vals } \cup { Sel("full", 0, 0) }
Parents == { <<0, 0>>, <<0, 2>>, <<2, 0>>, <<1, 1>>, <<1, 3>>, <<2, 3>>, <<3, 3>>, <<4, 5>> }
\* bounds of extreme magnitude (ViewBounds!PosInf / NegInf stand for any |value| >= 2^31; the harness
\* instantiates them with u64::MAX, usize::MAX, i64::MAX and i64::MIN)
Ext == {NegInf, -1, 0, 1, PosInf}
ExtSels == { Sel("idx", a, 0) : a \in {NegInf, PosInf} } \cup { Sel("range", a, b) : a \in Ext, b \in {NegInf, PosInf} } \cup { Sel("range", a, b) : a \in {NegInf, PosInf}, b \in Ext }
           \cup { Sel("from", a, 0) : a \in {NegInf, PosInf} } \cup { Sel("to", 0, b) : b \in {NegInf, PosInf} }
           \cup { Sel("incl", a, b) : a \in Ext, b \in {NegInf, PosInf} } \cup { Sel("incl", a, b) : a \in {NegInf, PosInf}, b \in Ext } \cup { Sel("toincl", 0, b) : b \in {NegInf, PosInf} }
Tr == [t |-> "tr", rs |-> Sel("full", 0, 0), cs |-> Sel("full", 0, 0)]
Vw(rs, cs) == [t |-> "view", rs |-> rs, cs |-> cs]
S1 == RandomSubset(Sample, Sels)
Steps1 == { Vw(rs, cs) : rs \in S1, cs \in S1 }
Few == RandomSubset(Sample, Steps1)
Chains == { <<s>> : s \in Steps1 } \cup { <<Tr>> } \cup { <<Tr, s>> : s \in Few } \cup { <<s, Tr>> : s \in Few }
          \cup { <<s1, s2>> : s1 \in Few, s2 \in Few }
          \cup { <<s1, Tr, s2>> : s1 \in RandomSubset(Sample \div 2, Steps1), s2 \in RandomSubset(Sample \div 2, Steps1) }
          \cup { <<Tr, s1, Tr>> : s1 \in Few }
          \* every selector of the family on one axis (exhaustive, not sampled): plain, on the other axis, after a transpose, nested in a window
          \cup { <<Vw(e, Sel("full", 0, 0))>> : e \in Sels } \cup { <<Vw(Sel("full", 0, 0), e)>> : e \in Sels } \cup { <<Tr, Vw(e, Sel("full", 0, 0))>> : e \in Sels }
          \cup { <<Vw(Sel("range", 1, -1), Sel("from", 1, 0)), Vw(e, Sel("full", 0, 0))>> : e \in Sels }
          \cup { <<Vw(e, Sel("full", 0, 0))>> : e \in ExtSels } \cup { <<Vw(Sel("from", 1, 0), e)>> : e \in ExtSels } \cup { <<Tr, Vw(e, Sel("to", 0, -1))>> : e \in ExtSels }
Out == SetToSeq({ [hp |-> p[1], wp |-> p[2], chain |-> ch] : p \in Parents, ch \in Chains })
ASSUME ndJsonSerialize(IOEnv.OUT, Out)
ASSUME PrintT(<<"GENERATED", Len(Out)>>)
VARIABLE x
Init == x = 0
Next == UNCHANGED x
=============================================================================
