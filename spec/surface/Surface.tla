------------------------------- MODULE Surface -------------------------------
(* Property-level specification of C07: a surface is a matrix; a view is a  *)
(* matrix of PARENT positions; view(rows, cols) selects with ViewBounds,    *)
(* transpose swaps.  Every access operation is defined on that matrix, so   *)
(* "touches exactly the window, each cell once" holds by construction.      *)
EXTENDS ViewBounds, FiniteSets

\* view = [h, w, m] with m[i][j] = parent position <<r, c>> (0-based)
Root(hp, wp) == [h |-> hp, w |-> wp, m |-> [i \in 1..hp |-> [j \in 1..wp |-> <<i - 1, j - 1>>]]]
EmptyView == [h |-> 0, w |-> 0, m |-> << >>]
Sel(form, a, b) == [form |-> form, a |-> a, b |-> b]
View(v, rs, cs) ==
  LET rb == Resolve(rs.form, rs.a, rs.b, v.h)
      cb == Resolve(cs.form, cs.a, cs.b, v.w)
  IN IF rb = None \/ cb = None THEN EmptyView
     ELSE [h |-> rb[2] - rb[1], w |-> cb[2] - cb[1],
           m |-> [i \in 1..(rb[2] - rb[1]) |-> [j \in 1..(cb[2] - cb[1]) |-> v.m[rb[1] + i][cb[1] + j]]]]
Transpose(v) == [h |-> v.w, w |-> v.h, m |-> [i \in 1..v.w |-> [j \in 1..v.h |-> v.m[j][i]]]]
Apply(v, st) == IF st.t = "tr" THEN Transpose(v) ELSE View(v, st.rs, st.cs)
RECURSIVE ApplyAll(_, _, _)
ApplyAll(v, chain, i) == IF i > Len(chain) THEN v ELSE ApplyAll(Apply(v, chain[i]), chain, i + 1)

\* the pristine parent holds its own row-major index in every cell
Id(wp, p) == p[1] * wp + p[2]
Cells(v) == v.h * v.w
\* n-th window cell in row-major order (1-based n)
Nth(v, n) == v.m[((n - 1) \div v.w) + 1][((n - 1) % v.w) + 1]
Iter(v, wp) == [n \in 1..Cells(v) |-> Id(wp, Nth(v, n))]
WindowIds(v, wp) == { Id(wp, Nth(v, n)) : n \in 1..Cells(v) }
\* get at view position (0-based); -1 = absent
Get(v, wp, r, c) == IF r < v.h /\ c < v.w THEN Id(wp, v.m[r + 1][c + 1]) ELSE -1
\* parent contents (row-major, as a sequence over all hp*wp cells) after an operation that
\* writes F(n) into the n-th window cell and leaves everything else alone
After(v, hp, wp, F(_)) ==
  [k \in 1..(hp * wp) |->
     IF (k - 1) \in WindowIds(v, wp)
     THEN F(CHOOSE n \in 1..Cells(v) : Id(wp, Nth(v, n)) = k - 1)
     ELSE k - 1]
AfterFill(v, hp, wp, x) == After(v, hp, wp, LAMBDA n : x)
\* fill_with(f) where f(pos, old) = 1000 + 10*row + col (positions are VIEW positions)
AfterFillWith(v, hp, wp) == After(v, hp, wp, LAMBDA n : 1000 + 10 * ((n - 1) \div v.w) + ((n - 1) % v.w))
\* insert(pos, items): items go to consecutive window cells in row-major order starting at pos
AfterInsert(v, hp, wp, r, c, k) ==
  LET start == r * v.w + c + 1 IN
  After(v, hp, wp, LAMBDA n : IF n >= start /\ n < start + k THEN 500 + (n - start) ELSE Id(wp, Nth(v, n)))
=============================================================================
