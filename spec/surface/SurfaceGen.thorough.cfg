CONSTANTS B = 5 Sample = 40
INIT Init
NEXT Next
CHECK_DEADLOCK FALSE
