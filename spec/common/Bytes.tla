------------------------------- MODULE Bytes -------------------------------
(* Bytes, ASCII digit strings of arbitrary length (numbers >= 2^31 do not   *)
(* fit a TLC integer, so they travel as digit sequences), UTF-8.            *)
EXTENDS Integers, Sequences

ESC == 27
CSI == <<27, 91>>          \* ESC [
OSC == <<27, 93>>          \* ESC ]
DCS == <<27, 80>>          \* ESC P
APC == <<27, 95>>          \* ESC _
ST  == <<27, 92>>          \* ESC \
SEMI == 59
COLON == 58

\* digit sequence (values 0..9) -> ASCII bytes
Ascii(ds) == [i \in 1..Len(ds) |-> 48 + ds[i]]
\* ASCII bytes of a decimal string -> digit values
Digits(bs) == [i \in 1..Len(bs) |-> bs[i] - 48]
IsDigits(bs) == \A i \in 1..Len(bs) : bs[i] \in 48..57

\* canonical form of a natural number given as digits: no leading zeros, "0" for zero / empty
RECURSIVE Canon(_)
Canon(ds) == IF Len(ds) = 0 THEN <<0>> ELSE IF Len(ds) > 1 /\ ds[1] = 0 THEN Canon(Tail(ds)) ELSE ds
\* comparison of canonical digit strings
RECURSIVE LexLE(_, _)
LexLE(a, b) == IF Len(a) = 0 THEN TRUE ELSE IF a[1] < b[1] THEN TRUE ELSE IF a[1] > b[1] THEN FALSE ELSE LexLE(Tail(a), Tail(b))
LE(a, b) == LET x == Canon(a) y == Canon(b) IN IF Len(x) # Len(y) THEN Len(x) < Len(y) ELSE LexLE(x, y)
\* predecessor of a canonical digit string > 0
RECURSIVE DecRev(_)
DecRev(r) == IF r[1] > 0 THEN <<r[1] - 1>> \o Tail(r) ELSE <<9>> \o DecRev(Tail(r))   \* r = reversed digits
Rev(s) == [i \in 1..Len(s) |-> s[Len(s) + 1 - i]]
Pred(ds) == Canon(Rev(DecRev(Rev(Canon(ds)))))
IsZero(ds) == Canon(ds) = <<0>>
\* small integer -> digits
RECURSIVE NatDigits(_)
NatDigits(n) == IF n < 10 THEN <<n>> ELSE NatDigits(n \div 10) \o <<n % 10>>
U64MAX == <<1,8,4,4,6,7,4,4,0,7,3,7,0,9,5,5,1,6,1,5>>
U32MAX == <<4,2,9,4,9,6,7,2,9,5>>

\* UTF-8 encoding of a scalar value (RFC 3629)
Utf8(c) ==
  IF c < 128 THEN <<c>>
  ELSE IF c < 2048 THEN <<192 + (c \div 64), 128 + (c % 64)>>
  ELSE IF c < 65536 THEN <<224 + (c \div 4096), 128 + ((c \div 64) % 64), 128 + (c % 64)>>
  ELSE <<240 + (c \div 262144), 128 + ((c \div 4096) % 64), 128 + ((c \div 64) % 64), 128 + (c % 64)>>
IsScalar(c) == (c >= 0 /\ c <= 55295) \/ (c >= 57344 /\ c <= 1114111)

RECURSIVE Join(_, _)
Join(seqs, sep) == IF Len(seqs) = 0 THEN <<>> ELSE IF Len(seqs) = 1 THEN seqs[1] ELSE seqs[1] \o <<sep>> \o Join(Tail(seqs), sep)
=============================================================================
