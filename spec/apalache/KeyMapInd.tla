------------------------------ MODULE KeyMapInd ------------------------------
(* Unbounded complement (Apalache) to the bounded TLC runs of keys/KeyTrie:   *)
(* registering any chord over ANY key alphabet keeps the dictionary           *)
(* prefix-free and functional (KeyMapSpec!Register), and the chord just       *)
(* registered is bound to its value.  Keys are arbitrary integers; the        *)
(* pre-state holds up to Gen(4) chords of up to Gen(4) keys.                  *)
EXTENDS Integers, Sequences, FiniteSets, Apalache

VARIABLES
  \* @type: Set(<<Seq(Int), Int>>);
  bound,
  \* @type: <<Seq(Int), Int>>;
  last

\* @type: (Seq(Int), Seq(Int)) => Bool;
IsPrefix(a, b) == Len(a) <= Len(b) /\ \A i \in DOMAIN a : a[i] = b[i]
\* @type: (Set(<<Seq(Int), Int>>), Seq(Int), Int) => Set(<<Seq(Int), Int>>);
Register(bnd, c, v) == { p \in bnd : ~IsPrefix(p[1], c) /\ ~IsPrefix(c, p[1]) } \cup {<<c, v>>}

Init == bound = {} /\ last = <<<<0>>, 0>>
Next ==
  \E v \in Int :
    \E n \in 1..4 :
      LET \* @type: Seq(Int);
          c == Gen(4)
      IN /\ Len(c) = n
         /\ bound' = Register(bound, c, v)
         /\ last' = <<c, v>>

\* control: a registration that forgets to drop the extensions of the new chord must break the invariant
\* @type: (Set(<<Seq(Int), Int>>), Seq(Int), Int) => Set(<<Seq(Int), Int>>);
RegisterBad(bnd, c, v) == { p \in bnd : ~IsPrefix(p[1], c) } \cup {<<c, v>>}
NextBad ==
  \E v \in Int :
    \E n \in 1..4 :
      LET \* @type: Seq(Int);
          c == Gen(4)
      IN /\ Len(c) = n
         /\ bound' = RegisterBad(bound, c, v)
         /\ last' = <<c, v>>
PrefixFree == \A p \in bound : \A q \in bound : p # q => ~IsPrefix(p[1], q[1])
NonEmpty == \A p \in bound : Len(p[1]) >= 1
IndInv == PrefixFree /\ NonEmpty
\* after a registration the chord is bound to exactly the value given
Registered == (bound # {}) => (last \in bound /\ \A p \in bound : p[1] = last[1] => p[2] = last[2])
IndInit == bound = Gen(4) /\ last = Gen(1) /\ IndInv
=============================================================================
