----------------------------- MODULE IOQueueInd -----------------------------
(* Unbounded complement (Apalache) to the bounded TLC runs of io/IOQueueImpl: *)
(* the running `length` of the code-shaped queue equals the readable bytes    *)
(* for chunk lengths, write sizes and consume amounts of ANY magnitude.       *)
(* Bytes are abstracted to chunk lengths (the claim is about counts).         *)
(* IndInv is inductive: Init => IndInv and IndInv /\ Next => IndInv'.         *)
(* The number of chunks in the pre-state is bounded by Gen(MaxChunks).        *)
EXTENDS Integers, Sequences, Apalache

VARIABLES
  \* @type: Seq(Int);
  lens,
  \* @type: Int;
  off,
  \* @type: Int;
  length

\* @type: (Int, Int) => Int;
Add(a, b) == a + b
Sum(s) == ApaFoldSeqLeft(Add, 0, s)
Slice == IF lens = <<>> THEN 0 ELSE lens[1] - off

Init == lens = <<>> /\ off = 0 /\ length = 0

DoWrite ==
  \E n \in Nat :
    /\ lens' = IF lens = <<>> THEN <<n>> ELSE [lens EXCEPT ![Len(lens)] = @ + n]
    /\ length' = length + n
    /\ off' = off
DoFlush ==
  /\ lens' = IF Slice # 0 THEN Append(lens, 0) ELSE lens
  /\ UNCHANGED <<off, length>>
\* consume(amt) with its two branches (src/common.rs)
DoConsume ==
  \E amt \in Nat :
    IF lens # <<>> /\ lens[1] > off + amt
    THEN off' = off + amt /\ length' = length - amt /\ lens' = lens
    ELSE IF lens # <<>>
         THEN length' = length - (lens[1] - off) /\ lens' = Tail(lens) /\ off' = 0
         ELSE off' = 0 /\ UNCHANGED <<length, lens>>
\* clear_but_last after fix 3d3f259
DoDrop ==
  /\ lens' = IF Len(lens) > 1 THEN <<lens[1]>> ELSE lens
  /\ length' = IF Len(lens) > 1 THEN lens[1] - off ELSE length
  /\ off' = off
Next == DoWrite \/ DoFlush \/ DoConsume \/ DoDrop
\* the queue before fix 3d3f259 (clear_but_last forgot the length): IndInv must NOT be inductive for it
DoDropOld == lens' = (IF Len(lens) > 1 THEN <<lens[1]>> ELSE lens) /\ UNCHANGED <<off, length>>
NextOld == DoWrite \/ DoFlush \/ DoConsume \/ DoDropOld

IndInv ==
  /\ \A i \in DOMAIN lens : lens[i] >= 0
  /\ off >= 0
  /\ (lens = <<>> => off = 0)
  /\ (lens # <<>> => (off = 0 \/ off < lens[1]))
  /\ length = Sum(lens) - off
LenOK == length = Sum(lens) - off /\ length >= 0

\* arbitrary pre-state for the inductive step
IndInit ==
  /\ lens = Gen(8)
  /\ off = Gen(1)
  /\ length = Gen(1)
  /\ IndInv
=============================================================================
