------------------------------ MODULE LayoutTree ------------------------------
(* Layout trees (property C10): node = [pos, size, probe, kids].  The       *)
(* absolute rectangle of a node is the sum of the positions along its path, *)
(* clipped by every ancestor (Layout::apply_to takes a clipped sub-view).   *)
(* FindPath descends into the FIRST child containing the position.          *)
EXTENDS Integers, Sequences, FiniteSets
MinI(a, b) == IF a < b THEN a ELSE b
MaxI(a, b) == IF a > b THEN a ELSE b
\* rectangle = <<r0, c0, r1, c1>> half open
Clip(a, b) == <<MaxI(a[1], b[1]), MaxI(a[2], b[2]), MinI(a[3], b[3]), MinI(a[4], b[4])>>
In(rect, r, c) == r >= rect[1] /\ r < rect[3] /\ c >= rect[2] /\ c < rect[4]
\* probes of the tree in depth-first (render) order with their clipped absolute rectangles:
\* sequence of <<probe id, rect>>
RECURSIVE Probes(_, _, _, _)
RECURSIVE ProbesOfKids(_, _, _, _, _)
Probes(n, orow, ocol, clip) ==
  LET r0 == orow + n.pos[1]  c0 == ocol + n.pos[2]
      rect == Clip(<<r0, c0, r0 + n.size[1], c0 + n.size[2]>>, clip)
  IN (IF n.probe >= 0 THEN <<<<n.probe, rect>>>> ELSE <<>>) \o ProbesOfKids(n.kids, 1, r0, c0, rect)
ProbesOfKids(kids, i, r0, c0, clip) == IF i > Len(kids) THEN <<>> ELSE Probes(kids[i], r0, c0, clip) \o ProbesOfKids(kids, i + 1, r0, c0, clip)
\* hit test: descend into the FIRST child containing the position; the result is the last leaf id met on the path
\* (-1 if none): a leaf is identified by the id in its own node or in the Tag node wrapped around it
RECURSIVE FindPathFrom(_, _, _, _)
FindPathFrom(n, r, c, seen) ==
  LET now == IF n.probe >= 0 THEN n.probe ELSE seen
      hit == { i \in 1..Len(n.kids) : LET k == n.kids[i] IN r >= k.pos[1] /\ r < k.pos[1] + k.size[1] /\ c >= k.pos[2] /\ c < k.pos[2] + k.size[2] }
  IN IF hit = {} THEN now
     ELSE LET i == CHOOSE i \in hit : \A j \in hit : i <= j IN FindPathFrom(n.kids[i], r - n.kids[i].pos[1], c - n.kids[i].pos[2], now)
FindPath(n, r, c) == FindPathFrom(n, r, c, -1)
=============================================================================
