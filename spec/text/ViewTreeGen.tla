------------------------------ MODULE ViewTreeGen ------------------------------
(* Generator of small view trees for C10 (replayed by harness c10-drive).      *)
(* Exhaustive over:                                                            *)
(*  F1 flex: 2 directions x 6 justifications x 0..2 children, each child a     *)
(*     probe of 2 preferred sizes x {no flex, flex 1} x 5 alignments, plus     *)
(*     three-children rows with mixed flex factors;                            *)
(*  F2 container: 3x3 sizes (0 = take everything) x 6x6 alignments x 3 margin  *)
(*     settings x 3 probe sizes;                                               *)
(*  F3 decorators (frame, option, either, tag, dynamic) around a probe / flex, *)
(*     both glyph-capability settings;                                         *)
(* each under 36 constraints: per dimension (min,max) in                       *)
(* {(0,0),(0,1),(0,5),(1,1),(2,5),(5,5)}.  SAMPLE > 0 draws a seeded random    *)
(* subset (quick tier).  Vectors are built from integer index tuples so that   *)
(* no set ever holds values of different shapes.                               *)
EXTENDS Integers, Sequences, FiniteSets, TLC, Json, IOUtils, SequencesExt, Randomization
Sample == atoi(IOEnv.SAMPLE)
Range1 == <<<<0, 0>>, <<0, 1>>, <<0, 5>>, <<1, 1>>, <<2, 5>>, <<5, 5>>>>
Ct(i) == LET h == Range1[((i - 1) \div 6) + 1]  w == Range1[((i - 1) % 6) + 1] IN <<h[1], w[1], h[2], w[2]>>
Dir(i) == IF i = 1 THEN "horizontal" ELSE "vertical"
Just(i) == <<"start", "center", "end", "space-between", "space-around", "space-evenly">>[i]
PSize(i) == <<<<1, 1>>, <<2, 3>>, <<1000, 1000>>>>[i]
Probe(id, s) == [type |-> "probe", id |-> id, h |-> PSize(s)[1], w |-> PSize(s)[2]]
\* alignments 1..5 are strings, 6 is an offset from the end
AlignStr(i) == <<"start", "center", "end", "expand", "shrink">>[i]
\* child spec k in 1..20: size (2) x flex (2) x align (5)
Kid(id, k) ==
  LET s == ((k - 1) % 2) + 1  f == (((k - 1) \div 2) % 2)  a == ((k - 1) \div 4) + 1
  IN IF f = 0 THEN [view |-> Probe(id, s), align |-> AlignStr(a)]
     ELSE [view |-> Probe(id, s), align |-> AlignStr(a), flex |-> 1]
Margin(i) == <<[left |-> 0, right |-> 0, top |-> 0, bottom |-> 0], [left |-> 1, right |-> 1, top |-> 1, bottom |-> 1], [left |-> 5, right |-> 0, top |-> 0, bottom |-> 3]>>[i]
CSize(i) == <<0, 1, 3>>[i]
Vector(tree, ct, glyphs) == [tree |-> tree, ct |-> Ct(ct), glyphs |-> glyphs, surf |-> "max"]

\* vectors are numbered; a number is decoded into an 8-tuple of indices by mixed-radix division
\* (building the index tuples as sets costs TLC minutes, arithmetic costs seconds)
N1 == 2 * 6 * 21 * 21 * 36
N4 == 2 * 6 * 6 * 3 * 36
N2 == 3 * 3 * 6 * 6 * 3 * 3 * 36
N3 == 6 * 2 * 3 * 36
NAll == N1 + N4 + N2 + N3
RECURSIVE Digits(_, _)
Digits(n, radices) == IF radices = <<>> THEN <<>> ELSE <<n % Head(radices)>> \o Digits(n \div Head(radices), Tail(radices))
Decode(n) ==
  IF n < N1 THEN LET g == Digits(n, <<2, 6, 21, 21, 36>>) IN <<1, g[1] + 1, g[2] + 1, g[3], g[4], 0, 0, g[5] + 1>>
  ELSE IF n < N1 + N4 THEN LET g == Digits(n - N1, <<2, 6, 6, 3, 36>>) IN <<4, g[1] + 1, g[2] + 1, g[3] + 1, g[4] + 1, 0, 0, g[5] + 1>>
  ELSE IF n < N1 + N4 + N2 THEN LET g == Digits(n - N1 - N4, <<3, 3, 6, 6, 3, 3, 36>>) IN <<2, g[1] + 1, g[2] + 1, g[3] + 1, g[4] + 1, g[5] + 1, g[6] + 1, g[7] + 1>>
  ELSE LET g == Digits(n - N1 - N4 - N2, <<6, 2, 3, 36>>) IN <<3, g[1] + 1, g[2], g[3] + 1, 0, 0, 0, g[4] + 1>>

Perm3(p) == <<<<0, 1, 2>>, <<0, 2, 1>>, <<1, 0, 2>>, <<1, 2, 0>>, <<2, 0, 1>>, <<2, 1, 0>>>>[p]
FlexKid(id, s, f, a) == IF f = 0 THEN [view |-> Probe(id, s), align |-> AlignStr(a)] ELSE [view |-> Probe(id, s), align |-> AlignStr(a), flex |-> f]
AlignVal(i) == IF i <= 5 THEN AlignStr(i) ELSE [offset |-> -1]
Make(t) ==
  CASE t[1] = 1 ->
         LET kids == IF t[4] = 0 /\ t[5] = 0 THEN <<>> ELSE IF t[5] = 0 THEN <<Kid(0, t[4])>> ELSE IF t[4] = 0 THEN <<Kid(0, t[5])>> ELSE <<Kid(0, t[4]), Kid(1, t[5])>>
         IN Vector([type |-> "flex", direction |-> Dir(t[2]), justify |-> Just(t[3]), children |-> kids], t[8], FALSE)
    [] t[1] = 4 ->
         LET f == Perm3(t[4])
         IN Vector([type |-> "flex", direction |-> Dir(t[2]), justify |-> Just(t[3]),
                    children |-> <<FlexKid(0, 1, f[1], t[5]), FlexKid(1, 2, f[2], t[5]), FlexKid(2, 1, f[3], t[5])>>], t[8], FALSE)
    [] t[1] = 2 ->
         Vector([type |-> "container", child |-> Probe(0, t[7]), size |-> [height |-> CSize(t[2]), width |-> CSize(t[3])],
                 vertical |-> AlignVal(t[4]), horizontal |-> AlignVal(t[5]), margins |-> Margin(t[6])], t[8], FALSE)
    [] OTHER ->
         LET p == Probe(0, t[4])
             row == [type |-> "flex", direction |-> "horizontal", justify |-> "center", children |-> <<[view |-> p, align |-> "center"], [view |-> Probe(1, 1), align |-> "end", flex |-> 1]>>]
             tree == CASE t[2] = 1 -> [type |-> "frame", view |-> p]
                       [] t[2] = 2 -> [type |-> "option", view |-> p]
                       [] t[2] = 3 -> [type |-> "either", left |-> (t[3] = 1), view |-> row]
                       [] t[2] = 4 -> [type |-> "tag", tag |-> [name |-> "t"], view |-> row]
                       [] t[2] = 5 -> [type |-> "dynamic", view |-> row]
                       [] OTHER -> [type |-> "frame", view |-> [type |-> "frame", view |-> row]]
         IN Vector(tree, t[8], t[3] = 1)
\* N5: glyph-decorated frames under constraints without a practical bound.  TLC's integers end at 2^31, so the bounds are
\* markers the harness expands: -1 = 2^64-1, -2 = 2^40, -3 = 2^64-2, -4 = 2^20.  Rendered into a fixed 9x11 window.
UnbCt(i) == << <<0, 0, -1, -1>>, <<0, 0, 5, -1>>, <<0, 0, -1, 5>>, <<0, 0, -2, -2>>, <<1, 1, -3, -4>>, <<0, -4, 5, -4>> >>[i]
Unb(k, g, c) ==
  LET row == [type |-> "flex", direction |-> "horizontal", justify |-> "center", children |-> <<[view |-> Probe(0, 1), align |-> "center"], [view |-> Probe(1, 1), align |-> "end", flex |-> 1]>>]
      tree == CASE k = 1 -> [type |-> "frame", view |-> Probe(0, 3)]
                [] k = 2 -> [type |-> "frame", view |-> row]
                [] k = 3 -> [type |-> "frame", view |-> [type |-> "frame", view |-> row]]
                [] OTHER -> [type |-> "tag", tag |-> [name |-> "t"], view |-> [type |-> "frame", view |-> row]]
  IN [tree |-> tree, ct |-> UnbCt(c), glyphs |-> (g = 1), surf |-> "fixed"]
VecUnb == [i \in 1..48 |-> Unb(((i - 1) % 4) + 1, ((i - 1) \div 4) % 2, ((i - 1) \div 8) + 1)]
Idx == SetToSeq(IF Sample = 0 THEN 0..(NAll - 1) ELSE RandomSubset(Sample, 0..(NAll - 1)))
Vec == [i \in 1..Len(Idx) |-> Make(Decode(Idx[i]))] \o VecUnb
ASSUME ndJsonSerialize(IOEnv.OUT, Vec)
ASSUME PrintT(<<"GENERATED", Len(Vec), NAll>>)
VARIABLE x
Init == x = 0
Next == UNCHANGED x
=============================================================================
