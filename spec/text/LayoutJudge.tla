------------------------------ MODULE LayoutJudge ------------------------------
(* Judge for C10 (harness c10-drive): a view tree with probe leaves laid out *)
(* under a constraint and rendered into a sentinel-bordered sub-view.        *)
(*  - no panic;  - nothing outside the given surface changed;                *)
(*  - the root size lies within the constraint (root kinds the property      *)
(*    lists);  - a probe never paints outside the (clipped) rectangle the    *)
(*    layout tree records for it, and in trees whose other views do not      *)
(*    paint, every cell shows the last probe (render order) whose rectangle  *)
(*    covers it;  - hit-testing a cell covered by exactly one probe leads to *)
(*    that probe, and the real find_path agrees with LayoutTree!FindPath.    *)
EXTENDS LayoutTree, TLC, Json, IOUtils, SequencesExt
Rec == ndJsonDeserialize(IOEnv.TRACE)
RECURSIVE Node(_)
Node(j) == [pos |-> <<j.pos[1], j.pos[2]>>, size |-> <<j.size[1], j.size[2]>>, probe |-> j.probe, kids |-> [i \in 1..Len(j.kids) |-> Node(j.kids[i])]]
Verdict(r) ==
  IF r.panic # "" THEN "panic"
  ELSE IF r.err # "" THEN "error result"
  ELSE LET root == Node(r.layout)
           H == r.surf[1]  W == r.surf[2]
           ps == Probes(root, 0, 0, <<0, 0, H, W>>)
           covering(rr, cc) == { i \in 1..Len(ps) : In(ps[i][2], rr, cc) }
           shown(rr, cc) == r.canvas[rr * W + cc + 1]
           cells == { <<rr, cc>> : rr \in 0..(H - 1), cc \in 0..(W - 1) }
           full == { r.full[i] : i \in 1..Len(r.full) }
           lastOf(cv) == ps[CHOOSE i \in cv : \A j \in cv : j <= i][1]
       IN IF r.outside # 0 THEN "cells outside the given surface were modified"
          ELSE IF r.beyond # 0 THEN "cells outside the root layout's rectangle were modified"
          ELSE IF r.bounded /\ (root.size[1] < r.ct[1] \/ root.size[1] > r.ct[3] \/ root.size[2] < r.ct[2] \/ root.size[2] > r.ct[4]) THEN "reported size outside the constraint"
          ELSE IF \E p \in cells : shown(p[1], p[2]) >= 0 /\ ~ \E i \in covering(p[1], p[2]) : ps[i][1] = shown(p[1], p[2]) THEN "a leaf painted outside the rectangle its layout records"
          ELSE IF r.pure /\ \E p \in cells : LET cv == covering(p[1], p[2]) IN cv # {} /\ lastOf(cv) \in full /\ shown(p[1], p[2]) # lastOf(cv) THEN "a cell inside a leaf's rectangle does not show that leaf"
          ELSE IF \E p \in cells : LET ids == { ps[i][1] : i \in covering(p[1], p[2]) } IN Cardinality(ids) = 1 /\ p[1] < root.size[1] /\ p[2] < root.size[2]
                                    /\ FindPath(root, p[1], p[2]) # CHOOSE i \in ids : TRUE THEN "hit-testing does not lead to the leaf drawn there"
          ELSE IF \E i \in 1..Len(r.hits) : FindPath(root, r.hits[i][1], r.hits[i][2]) # r.hits[i][3] THEN "find_path differs from the specification"
          ELSE "ok"
Bad == SelectSeq([i \in 1..Len(Rec) |-> [id |-> Rec[i].id, why |-> Verdict(Rec[i])]], LAMBDA v : v.why # "ok")
ASSUME ndJsonSerialize(IOEnv.OUT, Bad)
ASSUME PrintT(<<"JUDGED", Len(Rec), Len(Bad)>>)
VARIABLE x
Init == x = 0
Next == UNCHANGED x
=============================================================================
