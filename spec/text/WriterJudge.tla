----------------------------- MODULE WriterJudge -----------------------------
(* Judge for C09 (harness c09-drive).                                        *)
(*  text:   a Text laid out for width W and rendered into a surface of the   *)
(*          size its own layout reported, inside a sentinel canvas:          *)
(*          read back row-major = Flow!Printable (wrapping) / Flow!NoWrap;   *)
(*          nothing outside the surface changed.                             *)
(*  writer: bytes written through a surface writer adapter under several     *)
(*          chunkings into a sub-view of a sentinel canvas: the canvases are *)
(*          identical and nothing outside the sub-view changed.              *)
EXTENDS Flow, TLC, Json, IOUtils, SequencesExt
Rec == ndJsonDeserialize(IOEnv.TRACE)
N(b) == [i \in 1..Len(b) |-> b[i]]
CellsOf(r) == [i \in 1..Len(r.cells) |-> [k |-> r.cells[i].k, w |-> r.cells[i].w, h |-> r.cells[i].h, fb |-> N(r.cells[i].fb)]]
Verdict(r) ==
  IF r.panic # "" THEN "panic"
  ELSE IF r.t = "text" THEN
       LET cells == CellsOf(r)
           exp == IF r.wraps THEN Printable(cells, 1, r.glyphs) ELSE NoWrap(cells, 1, 0, r.width, r.glyphs)
       IN IF r.outside # 0 THEN "cells outside the given surface were modified"
          ELSE IF N(r.read) # exp THEN (IF r.wraps THEN "printable cells lost, duplicated or reordered" ELSE "cells other than those beyond the right edge were dropped")
          ELSE "ok"
  ELSE IF \E i \in 1..Len(r.runs) : r.runs[i].outside # 0 THEN "cells outside the given surface were modified"
       ELSE IF \E i \in 1..Len(r.runs) : N(r.runs[i].canvas) # N(r.runs[1].canvas) THEN "cells depend on how the bytes were split across writes"
       ELSE "ok"
Bad == SelectSeq([i \in 1..Len(Rec) |-> [id |-> Rec[i].id, why |-> Verdict(Rec[i])]], LAMBDA v : v.why # "ok")
ASSUME ndJsonSerialize(IOEnv.OUT, Bad)
ASSUME PrintT(<<"JUDGED", Len(Rec), Len(Bad)>>)
VARIABLE x
Init == x = 0
Next == UNCHANGED x
=============================================================================
