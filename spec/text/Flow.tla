--------------------------------- MODULE Flow ---------------------------------
(* Reference reading of a cell sequence (property C09, third clause).       *)
(* Abstract cell = [k, w, h, fb]: k = "ch" (character of display width w),  *)
(* "nl", "tab", "gl" (glyph of w x h cells with fallback characters of      *)
(* widths fb), "im" (image of w x h cells).  Every cell carries its index   *)
(* in its face, so a surface can be read back as a sequence of indices.     *)
EXTENDS Integers, Sequences

\* the items actually written for cell i: <<index, width>> per printable unit
Units(c, i, glyphs) ==
  CASE c.k = "ch" -> IF c.w >= 1 THEN <<<<i, c.w>>>> ELSE <<>>
    [] c.k = "gl" -> IF glyphs THEN (IF c.w >= 1 /\ c.h >= 1 THEN <<<<i, c.w>>>> ELSE <<>>)
                     ELSE SelectSeq([j \in 1..Len(c.fb) |-> <<i, c.fb[j]>>], LAMBDA u : u[2] >= 1)
    [] c.k = "im" -> IF c.w >= 1 /\ c.h >= 1 THEN <<<<i, c.w>>>> ELSE <<>>
    [] OTHER -> <<>>
\* with wrapping: every printable unit, once, in reading order
RECURSIVE Printable(_, _, _)
Printable(cells, i, glyphs) ==
  IF i > Len(cells) THEN <<>>
  ELSE LET u == Units(cells[i], i, glyphs) IN [j \in 1..Len(u) |-> u[j][1]] \o Printable(cells, i + 1, glyphs)
\* without wrapping: a left-to-right cursor; only units that lie beyond the right edge are dropped
MinI(a, b) == IF a < b THEN a ELSE b
RECURSIVE KeepUnits(_, _, _)
KeepUnits(us, col, W) ==
  IF us = <<>> THEN <<(<<>>), col>>
  ELSE IF col + us[1][2] <= W THEN LET r == KeepUnits(Tail(us), col + us[1][2], W) IN << <<us[1][1]>> \o r[1], r[2] >>
  ELSE KeepUnits(Tail(us), col, W)
RECURSIVE NoWrap(_, _, _, _, _)
NoWrap(cells, i, col, W, glyphs) ==
  IF i > Len(cells) THEN <<>>
  ELSE LET c == cells[i] IN
       IF c.k = "nl" THEN NoWrap(cells, i + 1, 0, W, glyphs)
       ELSE IF c.k = "tab" THEN NoWrap(cells, i + 1, col + MinI(8 - (col % 8), IF W > col THEN W - col ELSE 0), W, glyphs)
       ELSE LET r == KeepUnits(Units(c, i, glyphs), col, W) IN r[1] \o NoWrap(cells, i + 1, r[2], W, glyphs)
=============================================================================
