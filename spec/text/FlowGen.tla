------------------------------- MODULE FlowGen -------------------------------
(* Small-scope generator for C09: EVERY sequence of at most MaxLen cells over *)
(* the eight cell kinds below, for every width 1..5, both wrap modes and both *)
(* glyph-capability settings (harness c09-drive --vectors).  Vectors are      *)
(* numbered and decoded arithmetically; SAMPLE > 0 draws a seeded subset.     *)
(*  1 narrow char   2 wide char   3 zero-width char   4 newline   5 tab       *)
(*  6 glyph 2 cells wide, fallback of two narrow chars                        *)
(*  7 glyph 1 cell wide, fallback of one wide char                            *)
(*  8 image 2 cells wide                                                      *)
EXTENDS Integers, Sequences, TLC, Json, IOUtils, SequencesExt, Randomization
MaxLen == atoi(IOEnv.MAXLEN)
Sample == atoi(IOEnv.SAMPLE)
K == 8
RECURSIVE Pow(_, _)
Pow(b, e) == IF e = 0 THEN 1 ELSE b * Pow(b, e - 1)
\* number of sequences of length < n : (K^n - 1) / (K - 1)
Below(n) == (Pow(K, n) - 1) \div (K - 1)
NSeq == Below(MaxLen + 1) - 1                 \* non-empty sequences of length 1..MaxLen
Configs == 5 * 2 * 2
NAll == NSeq * Configs
RECURSIVE LenOf(_, _)
LenOf(m, n) == IF m < Below(n + 1) - 1 THEN n ELSE LenOf(m, n + 1)     \* m is 0-based among non-empty sequences
RECURSIVE Digits(_, _)
Digits(x, n) == IF n = 0 THEN <<>> ELSE <<(x % K) + 1>> \o Digits(x \div K, n - 1)
KindSeq(m) == LET n == LenOf(m, 1) IN Digits(m - (Below(n) - 1), n)
Vector(v) ==
  LET c == v % Configs  m == v \div Configs
  IN [cells |-> KindSeq(m), width |-> (c % 5) + 1, wraps |-> ((c \div 5) % 2 = 1), glyphs |-> (c \div 10 = 1)]
Idx == SetToSeq(IF Sample = 0 THEN 0..(NAll - 1) ELSE RandomSubset(Sample, 0..(NAll - 1)))
Vec == [i \in 1..Len(Idx) |-> Vector(Idx[i])]
ASSUME ndJsonSerialize(IOEnv.OUT, Vec)
ASSUME PrintT(<<"GENERATED", Len(Vec), NAll>>)
VARIABLE x
Init == x = 0
Next == UNCHANGED x
=============================================================================
