-------------------------- MODULE ViewBoundsProof --------------------------
(* TLAPS proof (unbounded complement to the bounded TLC runs of C08): the   *)
(* selector resolution of surface/ViewBounds.tla yields, for EVERY axis     *)
(* length and EVERY pair of integer bounds, either nothing or a non-empty   *)
(* window inside the axis.  Checked with `tlapm` (SMT back end).            *)
EXTENDS ViewBounds, TLAPS

LEMMA StartIdxRange == \A a \in Int, n \in Nat : StartIdx(a, n) \in 0..n
  BY DEF StartIdx
LEMMA EndExRange == \A b \in Int, n \in Nat : EndEx(b, n) \in 0..n
  BY DEF EndEx
LEMMA EndInRange == \A b \in Int, n \in Nat : EndIn(b, n) \in 0..n
  BY DEF EndIn
LEMMA MkWF == \A s, e, n \in Nat : s \in 0..n /\ e \in 0..n => WellFormed(Mk(s, e), n)
  BY DEF Mk, WellFormed, None

THEOREM ResolveWellFormed ==
  \A n \in Nat, a \in Int, b \in Int, f \in Forms : WellFormed(Resolve(f, a, b, n), n)
<1> SUFFICES ASSUME NEW n \in Nat, NEW a \in Int, NEW b \in Int, NEW f \in Forms
             PROVE WellFormed(Resolve(f, a, b, n), n)
    OBVIOUS
<1>1 CASE n = 0
    BY <1>1 DEF Resolve, WellFormed, None
<1>2 CASE n # 0
  <2> StartIdx(a, n) \in 0..n /\ EndEx(b, n) \in 0..n /\ EndIn(b, n) \in 0..n
      BY StartIdxRange, EndExRange, EndInRange
  <2>1 CASE f = "idx"
      BY <1>2, <2>1 DEF Resolve, WellFormed, None, StartIdx
  <2>2 CASE f = "range"
      BY <1>2, <2>2, MkWF DEF Resolve
  <2>3 CASE f = "from"
      BY <1>2, <2>3, MkWF DEF Resolve
  <2>4 CASE f = "to"
      BY <1>2, <2>4, MkWF DEF Resolve
  <2>5 CASE f = "incl"
      BY <1>2, <2>5, MkWF DEF Resolve
  <2>6 CASE f = "toincl"
      BY <1>2, <2>6, MkWF DEF Resolve
  <2>7 CASE f = "full"
      BY <1>2, <2>7 DEF Resolve, WellFormed, None
  <2> QED BY <2>1, <2>2, <2>3, <2>4, <2>5, <2>6, <2>7 DEF Forms
<1> QED BY <1>1, <1>2
=============================================================================
