------------------------------- MODULE TokGen -------------------------------
(* Replay vectors for the tokeniser core: every pattern set of the          *)
(* configuration x every input up to MaxLen over the alphabet.              *)
EXTENDS MCTok, Json, IOUtils
PS == SetToSeq(PatternSets)
IS == SetToSeq(Inputs)
Vec == FlattenSeq([i \in 1..Len(PS) |-> [j \in 1..Len(IS) |-> [pats |-> SetToSeq(PS[i]), input |-> IS[j]]]])
ASSUME ndJsonSerialize(IOEnv.OUT, Vec)
ASSUME PrintT(<<"GENERATED", Len(Vec)>>)
=============================================================================
