---------------------------- MODULE DecoderJudge ----------------------------
(* Judge for C02: recordings of TTYEventDecoder, TTYCommandDecoder and      *)
(* Utf8Decoder on hostile input (harness c02-run, crash isolated).          *)
(*   - the worker survived (no panic, abort, non-termination);              *)
(*   - once the input is exhausted the decoder reports nothing more;        *)
(*   - raw events are non-empty and their bytes occur in the input in order;*)
(*   - characters are scalar values;                                        *)
(*   - numeric fields equal the mathematical value of the parameter's digit *)
(*     string (coordinates: minus one), or are clamped, or the sequence did *)
(*     not decode to that event at all.  Digit strings are compared as      *)
(*     arbitrary-precision naturals (Bytes!Canon/LE/Pred), never as 32-bit  *)
(*     integers.                                                            *)
EXTENDS Bytes, TLC, Json, IOUtils, SequencesExt, FiniteSets

Rec == ndJsonDeserialize(IOEnv.TRACE)
N(b) == [i \in 1..Len(b) |-> b[i]]

\* y is a subsequence of x (greedy scan)
RECURSIVE SubseqFrom(_, _, _, _)
SubseqFrom(x, i, y, j) ==
  IF j > Len(y) THEN TRUE ELSE IF i > Len(x) THEN FALSE
  ELSE IF x[i] = y[j] THEN SubseqFrom(x, i + 1, y, j + 1) ELSE SubseqFrom(x, i + 1, y, j)
RECURSIVE RawBytes(_, _)
RawBytes(ev, i) == IF i > Len(ev) THEN <<>> ELSE (IF ev[i].k = "raw" THEN N(ev[i].b) ELSE <<>>) \o RawBytes(ev, i + 1)

Exact(p, v) == v = Canon(N(p)) \/ (LE(U64MAX, N(p)) /\ v = U64MAX)
CoordOK(p, v) ==
  \/ ~IsZero(N(p)) /\ v = Pred(N(p))
  \/ IsZero(N(p)) /\ v = <<0>>                               \* clamped
  \/ LE(U64MAX, N(p)) /\ v \in {U64MAX, Pred(U64MAX)}        \* clamped
Byte255(v) == LE(v, <<2, 5, 5>>)

\* kitty keyboard modifiers parameter m = 1 + bit set (nine defined bits).  Absent, 0 and 1 mean no modifiers; a value whose
\* bit set does not fit 32 bits may only be clamped (every modifier) - or the report is not decoded as a key at all
RECURSIVE DVal(_)
DVal(ds) == IF ds = <<>> THEN 0 ELSE DVal(SubSeq(ds, 1, Len(ds) - 1)) * 10 + ds[Len(ds)]
ModBits(m) ==
  LET c == Canon(N(m)) IN
  IF Len(m) = 0 \/ c = <<0>> \/ c = <<1>> THEN {<<0>>}
  ELSE IF Len(c) <= 6 THEN {NatDigits((DVal(c) - 1) % 512)}
  ELSE IF c = <<2,1,4,7,4,8,3,6,4,8>> \/ c = <<4,2,9,4,9,6,7,2,9,6>> THEN {<<5,1,1>>}
  ELSE IF c = U32MAX THEN {<<5,1,0>>}
  ELSE {<<5,1,1>>}
\* family rule on the single event e of a fully recognised vector
FamOK(fam, ps, e) ==
  LET n == [i \in 1..Len(e.n) |-> N(e.n[i])] IN
  CASE fam = "cpr" /\ e.f = "cpr"       -> CoordOK(ps[1], n[1]) /\ CoordOK(ps[2], n[2])
    [] fam = "mouse" /\ e.f = "mouse"   -> CoordOK(ps[1], n[1]) /\ CoordOK(ps[2], n[2])
    [] fam = "kittyimg" /\ e.f = "kittyimg" -> Exact(ps[1], n[1]) /\ (n[2] = <<>> \/ Exact(ps[2], n[2]))
    [] fam = "kbdlevel" /\ e.f = "kbdlevel" -> Exact(ps[1], n[1])
    [] fam = "osc4" /\ e.f = "osc4"     -> Exact(ps[1], n[1])
    [] fam = "size" /\ e.f = "size"     -> \A i \in 1..4 : Exact(ps[i], n[i])
    [] fam = "da1" /\ e.f = "da1"       -> \A i \in 1..Len(n) : \E j \in 1..Len(ps) : Exact(ps[j], n[i])
    [] fam = "kittykey" /\ e.f = "key"  -> (Len(ps[1]) = 0 \/ n[1] = Canon(N(ps[1]))) /\ (Len(n) < 2 \/ n[2] \in ModBits(ps[2]))
    [] fam = "sgr5" /\ e.f = "sgr"      -> n = <<>> \/ Byte255(N(ps[1]))
    [] fam = "sgr2" /\ e.f = "sgr"      -> n = <<>> \/ (\A i \in 1..3 : n[i] = Canon(N(ps[i])) /\ Byte255(n[i]))
    [] OTHER -> TRUE

RunVerdict(r, run) ==
  LET ev == run.ev
      one == Len(ev) = 1 /\ ev[1].k = "ev"
  IN IF run.tail # 0 THEN "not-exhausted"
     ELSE IF \E i \in 1..Len(ev) : ev[i].k = "raw" /\ Len(ev[i].b) = 0 THEN "empty-raw"
     ELSE IF ~SubseqFrom(N(r.input), 1, RawBytes(ev, 1), 1) THEN "raw-not-in-input"
     ELSE IF \E i \in 1..Len(ev) : ev[i].f \in {"key", "char"} /\ ~(\A j \in 1..Len(ev[i].n) : LE(N(ev[i].n[j]), <<1,1,1,4,1,1,1>>)) THEN "char-not-scalar"
     ELSE IF run.dec = "event" /\ one /\ ~FamOK(r.fam, r.params, ev[1]) THEN "numeric-field"
     ELSE IF run.dec = "command" /\ one /\ r.fam \in {"sgr5", "sgr2"} /\ ~FamOK(r.fam, r.params, ev[1]) THEN "numeric-field"
     ELSE "ok"

Utf8Verdict(r, u) ==
  IF u.tail # 0 THEN "utf8-not-exhausted"
  ELSE IF \E i \in 1..Len(u.chars) : ~IsScalar(u.chars[i]) THEN "utf8-not-scalar"
  ELSE IF r.fam = "utf8" /\ (NatDigits(u.chars[1]) # N(r.params[1]) \/ Len(u.chars) # 1 \/ u.errs # 0) THEN "utf8-wrong-char"
  ELSE IF r.fam = "illutf8" /\ u.errs = 0 THEN "utf8-accepted-ill-formed"
  ELSE IF r.fam = "truncutf8" /\ u.errs # 0 THEN "utf8-error-on-incomplete"
  ELSE IF N(u.chars) # N(r.utf8[1].chars) \/ u.errs # r.utf8[1].errs THEN "utf8-chunk-dependent"
  ELSE "ok"

Verdict(r) ==
  IF r.outcome # "ok" THEN [why |-> r.outcome, run |-> 0]
  ELSE LET a == SelectSeq([i \in 1..Len(r.runs) |-> [why |-> RunVerdict(r, r.runs[i]), run |-> i]], LAMBDA v : v.why # "ok")
           b == SelectSeq([i \in 1..Len(r.utf8) |-> [why |-> Utf8Verdict(r, r.utf8[i]), run |-> 100 + i]], LAMBDA v : v.why # "ok")
       IN IF a # <<>> THEN a[1] ELSE IF b # <<>> THEN b[1] ELSE [why |-> "ok", run |-> 0]
Bad == SelectSeq([i \in 1..Len(Rec) |-> [id |-> Rec[i].id] @@ Verdict(Rec[i])], LAMBDA v : v.why # "ok")
ASSUME ndJsonSerialize(IOEnv.OUT, Bad)
ASSUME PrintT(<<"JUDGED", Len(Rec), Len(Bad)>>)
VARIABLE x
Init == x = 0
Next == UNCHANGED x
=============================================================================
