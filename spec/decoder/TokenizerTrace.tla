--------------------------- MODULE TokenizerTrace ---------------------------
(* Judges recordings of the production decoders (TTYEventDecoder /          *)
(* TTYCommandDecoder).  The harness logs, per input: the acceptance table   *)
(* of the production automaton from every offset (hook: per-prefix alive /  *)
(* accepting / terminal), the events decoded under several chunkings, and   *)
(* for every accepting (offset, end) pair the events a fresh decoder yields *)
(* for that slice alone.  The judge computes the leftmost-longest           *)
(* tokenisation from the table (LLSpec!Tok) and requires                    *)
(*   events(any chunking) = concatenation over spec tokens of slice events, *)
(* raw tokens surfacing as raw events with exactly their bytes; every       *)
(* recognised token denoting exactly one event (interpreted, or raw with    *)
(* its bytes when the payload decoder refuses it); nothing                   *)
(* lost, duplicated or reordered; nothing more once input is exhausted.     *)
EXTENDS LLSpec, TLC, Json, IOUtils, SequencesExt
Rec == ndJsonDeserialize(IOEnv.TRACE)
Norm(b) == [i \in 1..Len(b) |-> b[i]]

Tables(r) ==
  LET n == Len(r.table) IN
  [V |-> UNION { { <<s, s + j - 1>> : j \in 1..r.table[s].v } : s \in 1..n },
   M |-> UNION { { <<s, s + j - 1>> : j \in ToSet(r.table[s].acc) } : s \in 1..n },
   F |-> UNION { { <<s, s + j - 1>> : j \in ToSet(r.table[s].term) } : s \in 1..n }]

Ev(e) == [k |-> e.k, d |-> e.d, b |-> Norm(e.b)]
Evs(es) == [i \in 1..Len(es) |-> Ev(es[i])]
Empty == <<>>
MissingEv == [k |-> "missing", d |-> "", b |-> Empty]
RawEv(bs) == [k |-> "raw", d |-> "", b |-> bs]
SliceEvents(r, s, e) ==
  LET c == { i \in 1..Len(r.slices) : r.slices[i].s = s /\ r.slices[i].e = e }
  IN IF c = {} THEN <<MissingEv>> ELSE Evs(r.slices[CHOOSE i \in c : TRUE].ev)
RECURSIVE Expected(_, _, _)
Expected(r, toks, i) ==
  IF i > Len(toks) THEN <<>>
  ELSE (IF toks[i].ok THEN SliceEvents(r, toks[i].s, toks[i].e)
        ELSE <<RawEv(SubSeq(Norm(r.input), toks[i].s, toks[i].e))>>)
       \o Expected(r, toks, i + 1)

RunVerdict(exp, run) ==
  IF Evs(run.got) # exp THEN "events" ELSE IF run.tail # 0 THEN "not-exhausted" ELSE "ok"
Verdict(r) ==
  IF r.outcome # "ok" THEN [why |-> r.outcome, run |-> 0]
  ELSE LET t == Tables(r)
           toks == Tok(1, Len(r.table), t.V, t.M, t.F).out
           exp == Expected(r, toks, 1)
           \* a recognised sequence is ONE event: interpreted, or raw with exactly its bytes when the payload decoder refuses it
           oneEvent(i) == LET evs == SliceEvents(r, toks[i].s, toks[i].e) IN
                          Len(evs) = 1 /\ (evs[1].k = "raw" => evs[1].b = SubSeq(Norm(r.input), toks[i].s, toks[i].e))
           bad == SelectSeq([i \in 1..Len(r.runs) |-> [why |-> RunVerdict(exp, r.runs[i]), run |-> i]], LAMBDA v : v.why # "ok")
       IN IF \E i \in 1..Len(toks) : toks[i].ok /\ ~oneEvent(i) THEN [why |-> "recognised-sequence-not-one-event", run |-> 1]
          ELSE IF bad = <<>> THEN [why |-> "ok", run |-> 0] ELSE bad[1]
Bad == SelectSeq([i \in 1..Len(Rec) |-> [id |-> Rec[i].id] @@ Verdict(Rec[i])], LAMBDA v : v.why # "ok")
ASSUME ndJsonSerialize(IOEnv.OUT, Bad)
ASSUME PrintT(<<"JUDGED", Len(Rec), Len(Bad)>>)
VARIABLE x
Init == x = 0
Next == UNCHANGED x
=============================================================================
