------------------------------- MODULE LLSpec -------------------------------
(* Property-level specification of C03: the leftmost-longest tokenisation   *)
(* of a byte string with respect to a language given by three predicates on *)
(* strings, together with the decoder's rule for unrecognised input.        *)
(*   Viable(w)   w is a prefix of some recognised sequence (automaton alive)*)
(*   Member(w)   w is a recognised sequence (accepting)                     *)
(*   Final(w)    w is recognised and no byte can extend it (terminal)       *)
EXTENDS Integers, Sequences, FiniteSets

\* first j in 1..n with P(j), or 0
FirstIdx(n, P(_)) == IF \E j \in 1..n : P(j) THEN CHOOSE j \in 1..n : P(j) /\ \A i \in 1..(j - 1) : ~P(i) ELSE 0

(* Tokens of an input of length n given three TABLES over index pairs of    *)
(* the whole input: <<s, e>> \in V says input[s..e] is viable, \in M that it *)
(* is a member, \in F that it is final.  (Tables rather than predicates:     *)
(* the same operator serves pattern sets and acceptance tables logged from   *)
(* the production automata.)  Result: [out |-> sequence of [ok, s, e],       *)
(* pend |-> start of the pending tail, n + 1 if none].                       *)
RECURSIVE Tok(_, _, _, _, _)
Tok(s, n, V, M, F) ==
  IF s > n THEN [out |-> <<>>, pend |-> n + 1]
  ELSE LET dead == FirstIdx(n - s + 1, LAMBDA j : <<s, s + j - 1>> \notin V)   \* length at which the walk dies
           lim  == IF dead = 0 THEN n - s + 1 ELSE dead - 1                    \* viable length
           fin  == FirstIdx(lim, LAMBDA j : <<s, s + j - 1>> \in M /\ <<s, s + j - 1>> \in F)
       IN IF fin # 0
          THEN \* a recognised sequence with no possible extension is emitted at once
               LET r == Tok(s + fin, n, V, M, F) IN [r EXCEPT !.out = <<[ok |-> TRUE, s |-> s, e |-> s + fin - 1]>> \o @]
          ELSE IF dead = 0 THEN [out |-> <<>>, pend |-> s]                     \* still viable: pending
          ELSE LET C == { j \in 1..lim : <<s, s + j - 1>> \in M } IN
               IF C # {}
               THEN \* the longest complete sequence seen; bytes after it are interpreted afresh
                    LET c == CHOOSE j \in C : \A i \in C : i <= j
                        r == Tok(s + c, n, V, M, F) IN [r EXCEPT !.out = <<[ok |-> TRUE, s |-> s, e |-> s + c - 1]>> \o @]
               ELSE \* unrecognised: the bytes before the fatal byte (or that byte alone) are raw
                    LET k == IF dead > 1 THEN dead - 1 ELSE 1
                        r == Tok(s + k, n, V, M, F) IN [r EXCEPT !.out = <<[ok |-> FALSE, s |-> s, e |-> s + k - 1]>> \o @]

\* ---- instantiation for a finite set of patterns (strings)
Prefix(w, p) == Len(w) <= Len(p) /\ SubSeq(p, 1, Len(w)) = w
PViable(P, w) == \E p \in P : Prefix(w, p)
PMember(P, w) == w \in P
PFinal(P, w) == ~ \E p \in P : Prefix(w, p) /\ Len(p) > Len(w)
PTokens(P, w) ==
  LET n == Len(w)
      Pairs == { <<s, e>> \in (1..n) \X (1..n) : s <= e }
      r == Tok(1, n, { p \in Pairs : PViable(P, SubSeq(w, p[1], p[2])) },
                     { p \in Pairs : PMember(P, SubSeq(w, p[1], p[2])) },
                     { p \in Pairs : PFinal(P, SubSeq(w, p[1], p[2])) })
  IN [out |-> [i \in 1..Len(r.out) |-> <<IF r.out[i].ok THEN "ok" ELSE "raw", SubSeq(w, r.out[i].s, r.out[i].e)>>],
      pend |-> SubSeq(w, r.pend, Len(w))]
=============================================================================
