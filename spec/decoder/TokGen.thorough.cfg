CONSTANTS Alphabet = {1,2,3} MaxLen = 6
PatternSets <- PSets
INIT Init
NEXT Next

CHECK_DEADLOCK FALSE
