---- MODULE MCTok ----
EXTENDS Tokenizer
\* pattern-set shapes: nested prefixes, a prefix whose extension fails late,
\* overlapping restarts, single bytes, a long pattern only
PSets == { { <<1>>, <<1,2>>, <<1,2,2,3>>, <<2,3>>, <<3>> },
           { <<1,2>>, <<1,2,3,1>>, <<2>>, <<3,1,2>> },
           { <<1>>, <<1,1>>, <<1,1,1>> },
           { <<1,2,3>> },
           { <<1>>, <<2>>, <<3>>, <<1,2,3,3>> },
           { <<1,2>>, <<2,1>>, <<1,2,1,2,3>> },
           { <<1,1,2>>, <<1>>, <<2,2>>, <<2>> },
           { <<3>>, <<3,3,3>>, <<1,3>>, <<1,3,3,1>> } }
PSetsAll == { P \in SUBSET (UNION { [1..n -> 1..2] : n \in 1..3 }) : Cardinality(P) \in 1..3 }
====
