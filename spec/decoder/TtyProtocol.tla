---------------------------- MODULE TtyProtocol ----------------------------
(* An independent PRINTER of everything a terminal can legitimately send    *)
(* (C04): for every family Encode gives the bytes and the abstract event    *)
(* they denote.  The naming tables (key names, mouse buttons, DEC modes,    *)
(* function-key codes, the preference of keys over cursor reports for       *)
(* CSI 1;nR) are written out here from the library's documentation and the  *)
(* protocol references, not computed from the decoder.                      *)
(*                                                                          *)
(* Abstract event: [k, s, m, n, t] - kind, name, modifier bits, numbers,    *)
(* text bytes.  Modifier bits: shift 1, alt 2, ctrl 4, super 8, hyper 16,   *)
(* meta 32, capslock 64, numlock 128, press 256.                            *)
EXTENDS Bytes, FiniteSets, TLC, Json, IOUtils, SequencesExt

Ev(k, s, m, n, t) == [k |-> k, s |-> s, m |-> m, n |-> n, t |-> t]
Key(s, m) == Ev("key", s, m, <<>>, <<>>)
Chr(c, m) == Ev("key", "char", m, <<c>>, <<>>)
Num(x) == Ascii(NatDigits(x))
V(bytes, evs) == [input |-> bytes, exp |-> evs]

\* ---- legacy keys (xterm / fixterms)
TildeCodes == { <<"home", 1>>, <<"insert", 2>>, <<"delete", 3>>, <<"end", 4>>, <<"pageup", 5>>, <<"pagedown", 6>>, <<"insert", 7>>, <<"end", 8>>,
                <<"f1", 11>>, <<"f2", 12>>, <<"f3", 13>>, <<"f4", 14>>, <<"f5", 15>>, <<"f6", 17>>, <<"f7", 18>>, <<"f8", 19>>,
                <<"f9", 20>>, <<"f10", 21>>, <<"f11", 23>>, <<"f12", 24>> }
Letters == { <<"up", 65>>, <<"down", 66>>, <<"right", 67>>, <<"left", 68>>, <<"end", 70>>, <<"home", 72>>,
             <<"f1", 80>>, <<"f2", 81>>, <<"f3", 82>>, <<"f4", 83>> }
Tilde == { V(CSI \o Num(c[2]) \o <<126>>, <<Key(c[1], 0)>>) : c \in TildeCodes }
         \cup { V(CSI \o Num(c[2]) \o <<SEMI>> \o Num(m + 1) \o <<126>>, <<Key(c[1], m)>>) : c \in TildeCodes, m \in 1..7 }
Letter == { V(CSI \o <<l[2]>>, <<Key(l[1], 0)>>) : l \in Letters }
          \cup { V(<<27, 79, l[2]>>, <<Key(l[1], 0)>>) : l \in { x \in Letters : x[2] >= 80 } }        \* SS3 P..S
          \cup { V(CSI \o <<49, SEMI>> \o Num(m + 1) \o <<l[2]>>, <<Key(l[1], m)>>) : l \in Letters, m \in 1..7 }  \* incl. CSI 1;nR = F3 (key wins over CPR)
C0 == { V(<<127>>, <<Key("backspace", 0)>>), V(<<0>>, <<Chr(32, 4)>>) }
      \cup { V(<<c - 96>>, <<Chr(c, 4)>>) : c \in 97..122 }                                  \* ctrl+letter
AltKeys == { V(<<27, c>>, <<Chr(c, 2)>>) : c \in (97..122) \cup (48..57) \cup {33, 35, 47, 58, 64, 96, 123, 126} }
           \cup { V(<<27, c>>, <<Chr(c + 32, 3)>>) : c \in 65..90 \ {79, 80} }                \* ESC O / ESC P introduce SS3 / DCS when more input follows
\* ---- kitty keyboard
KittyCode(c) == IF c = 27 THEN Key("esc", 0) ELSE IF c = 13 THEN Key("enter", 0) ELSE IF c = 9 THEN Key("tab", 0) ELSE IF c = 127 THEN Key("backspace", 0)
                ELSE IF c >= 57376 /\ c <= 57398 THEN Key("f" \o ToString(c - 57376 + 13), 0) ELSE Chr(c, 0)
KCodes == {97, 65, 32, 27, 13, 9, 127, 233, 8364, 128512, 57376, 57380, 57398, 1114111}
WithMods(e, m) == [e EXCEPT !.m = m]
Kitty == { V(CSI \o Num(c) \o <<117>>, <<KittyCode(c)>>) : c \in KCodes }
         \cup { V(CSI \o Num(c) \o <<SEMI>> \o Num(m + 1) \o <<117>>, <<WithMods(KittyCode(c), m)>>) : c \in KCodes, m \in {0, 1, 2, 4, 5, 8, 16, 32, 64, 128, 255} }
         \cup { V(CSI \o Num(97) \o <<COLON>> \o Num(65) \o <<SEMI>> \o Num(2) \o <<117>>, <<Chr(97, 1)>>) }   \* alternate key is reported, base key is the event
         \cup { V(CSI \o <<63>> \o Num(n) \o <<117>>, <<Ev("kbdlevel", "", 0, <<n>>, <<>>)>>) : n \in {0, 1, 5, 31} }
\* ---- SGR mouse
MouseName(b) == IF (b \div 64) % 2 = 1 THEN (IF b % 4 = 0 THEN "mousewheeldown" ELSE IF b % 4 = 1 THEN "mousewheelup" ELSE "mousemove")
                ELSE (IF b % 4 = 0 THEN "mouseleft" ELSE IF b % 4 = 1 THEN "mousemiddle" ELSE IF b % 4 = 2 THEN "mouseright" ELSE "mousemove")
Coords == {1, 2, 9, 10, 99, 100, 255, 256, 65535}
Mouse == { V(CSI \o <<60>> \o Num(b) \o <<SEMI>> \o Num(x) \o <<SEMI>> \o Num(y) \o <<f>>,
             <<Ev("mouse", MouseName(b), ((b \div 4) % 8) + (IF f = 77 THEN 256 ELSE 0), <<y - 1, x - 1>>, <<>>)>>)
           : b \in 0..255, x \in {1, 80}, y \in {1, 24}, f \in {77, 109} }
         \cup { V(CSI \o <<60, 48, SEMI>> \o Num(x) \o <<SEMI>> \o Num(y) \o <<77>>, <<Ev("mouse", "mouseleft", 256, <<y - 1, x - 1>>, <<>>)>>) : x \in Coords, y \in Coords }
\* ---- reports
Cpr == { V(CSI \o Num(r) \o <<SEMI>> \o Num(c) \o <<82>>, <<Ev("cpr", "", 0, <<r - 1, c - 1>>, <<>>)>>) : r \in Coords, c \in Coords } \ { v \in {V(CSI \o Num(1) \o <<SEMI>> \o Num(c) \o <<82>>, <<Ev("cpr", "", 0, <<0, c - 1>>, <<>>)>>) : c \in 2..8} : TRUE }
Size == { V(CSI \o <<56, SEMI>> \o Num(h) \o <<SEMI>> \o Num(w) \o <<116>> \o CSI \o <<52, SEMI>> \o Num(ph) \o <<SEMI>> \o Num(pw) \o <<116>>,
            <<Ev("size", "", 0, <<h, w, ph, pw>>, <<>>)>>) : h \in {1, 24, 65535}, w \in {1, 80, 256}, ph \in {0, 480, 65535}, pw \in {0, 1482} }
Modes == {25, 7, 80, 1000, 1003, 1006, 1049, 2004, 2026}
DecRpm == { V(CSI \o <<63>> \o Num(m) \o <<SEMI>> \o Num(s) \o <<36, 121>>, <<Ev("decmode", "", 0, <<m, s>>, <<>>)>>) : m \in Modes, s \in 0..4 }
Da1 == { V(CSI \o <<63>> \o Join([i \in 1..Len(a) |-> Num(a[i])], SEMI) \o <<99>>, <<Ev("da1", "", 0, SetToSortSeq({a[i] : i \in 1..Len(a)}, <), <<>>)>>)
         : a \in { <<62>>, <<62, 4>>, <<64, 1, 2, 4, 6, 9, 15, 22>>, <<1, 2>>, <<65535, 1>> } }
Hex(d) == IF d < 10 THEN 48 + d ELSE 87 + d
Hex2(v) == <<Hex(v \div 16), Hex(v % 16)>>
\* colours: #rrggbb and rgb:h/h/h with 1..4 hex digits per component (XParseColor scaling)
ColTargets == { <<<<49, 48>>, "fg", <<>>>>, <<<<49, 49>>, "bg", <<>>>>, <<<<52, SEMI, 49, 53>>, "pal", <<15>>>>, <<<<52, SEMI, 50, 53, 53>>, "pal", <<255>>>> }
Comp == {0, 1, 127, 128, 255}
Terms == { ST, <<7>> }
OscHash == { V(OSC \o tg[1] \o <<SEMI, 35>> \o Hex2(r) \o Hex2(g) \o Hex2(b) \o term, <<Ev("color", tg[2], 0, tg[3] \o <<r, g, b>>, <<>>)>>)
             : tg \in ColTargets, r \in Comp, g \in {0, 200}, b \in {7, 255}, term \in Terms }
\* component v (8 bit) printed with k hex digits
HexK(v, k) == CASE k = 1 -> <<Hex(v \div 17)>> [] k = 2 -> Hex2(v) [] k = 3 -> Hex2(v) \o <<Hex(v % 16)>> [] k = 4 -> Hex2(v) \o Hex2(v)
OscRgb == { V(OSC \o tg[1] \o <<SEMI, 114, 103, 98, 58>> \o HexK(r, k) \o <<47>> \o HexK(g, k) \o <<47>> \o HexK(b, k) \o ST,
              <<Ev("color", tg[2], 0, tg[3] \o <<r, g, b>>, <<>>)>>)
            : tg \in ColTargets, k \in 1..4, r \in {0, 17, 255}, g \in {0, 34, 255}, b \in {0, 255} }    \* multiples of 17 so that the 1-digit form is exact
HexStr(bs) == FlattenSeq([i \in 1..Len(bs) |-> Hex2(bs[i])])
\* xterm answers XTGETTCAP in upper-case hex
HexU(d) == IF d < 10 THEN 48 + d ELSE 55 + d
HexStrU(bs) == FlattenSeq([i \in 1..Len(bs) |-> <<HexU(bs[i] \div 16), HexU(bs[i] % 16)>>])
Names == { <<84, 78>>, <<67, 111>>, <<82, 71, 66>> }                 \* TN Co RGB
\* xterm 256 8 and a value whose bytes carry every hex letter in either nibble ("o_/?JKLMNjklmnz")
Vals == { <<120, 116, 101, 114, 109>>, <<50, 53, 54>>, <<56>>, <<111, 95, 47, 63, 74, 75, 76, 77, 78, 106, 107, 108, 109, 110, 122>> }
Termcap == { V(DCS \o <<49, 43, 114>> \o HexStr(n) \o <<61>> \o HexStr(v) \o ST, <<Ev("termcap", "ok", 0, <<>>, n \o <<61>> \o v)>>) : n \in Names, v \in Vals }
           \cup { V(DCS \o <<49, 43, 114>> \o HexStrU(n) \o <<61>> \o HexStrU(v) \o ST, <<Ev("termcap", "ok", 0, <<>>, n \o <<61>> \o v)>>) : n \in Names, v \in Vals }
           \cup { V(DCS \o <<48, 43, 114>> \o HexStr(n) \o ST, <<Ev("termcap", "fail", 0, <<>>, n)>>) : n \in Names }
           \cup { V(DCS \o <<48, 43, 114>> \o HexStrU(n) \o ST, <<Ev("termcap", "fail", 0, <<>>, n)>>) : n \in Names }
KittyImg == { V(APC \o <<71, 105, 61>> \o Num(i) \o <<SEMI, 79, 75>> \o ST, <<Ev("kittyimg", "ok", 0, <<i, -1>>, <<>>)>>) : i \in {1, 31, 65535} }
            \cup { V(APC \o <<71, 105, 61>> \o Num(i) \o <<44, 112, 61>> \o Num(p) \o <<SEMI, 79, 75>> \o ST, <<Ev("kittyimg", "ok", 0, <<i, p>>, <<>>)>>) : i \in {1, 31}, p \in {1, 65536, 65537} }
            \cup { V(APC \o <<71, 105, 61>> \o Num(7) \o <<44, 112, 61>> \o Num(3) \o <<SEMI>> \o msg \o ST, <<Ev("kittyimg", "error", 0, <<7, 3>>, msg)>>)
                   : msg \in { <<69, 78, 79, 69, 78, 84, 58, 120>>, <<69, 73, 78, 86, 65, 76>>,
                             \* free text may contain the field separator: "EINVAL:bad key; expected a=T", "OK;x", ";"
                             <<69, 73, 78, 86, 65, 76, 58, 98, 97, 100, 32, 107, 101, 121, 59, 32, 101, 120, 112, 101, 99, 116, 101, 100, 32, 97, 61, 84>>,
                             <<79, 75, 59, 120>>, <<59>>, <<69, 59, 59, 66, 59>> } }
PasteTexts == { <<>>, <<97>>, <<104, 105, 32, 49, 10, 9>>, <<195, 169, 226, 130, 172>>, <<91, 50, 48, 49, 126>> }
Paste == { V(CSI \o <<50, 48, 48, 126>> \o t \o CSI \o <<50, 48, 49, 126>>, <<Ev("paste", "", 0, <<>>, t)>>) : t \in PasteTexts }
\* ---- UTF-8 text: every scalar class boundary (printable ones decode as character keys)
Scalars == {32, 65, 126, 160, 255, 2047, 2048, 4095, 55295, 57344, 65533, 65535, 65536, 131071, 1114110, 1114111}
Text == { V(Utf8(c), <<Chr(c, 0)>>) : c \in Scalars }
\* ---- SGR as an event (attribute report / colourised input), ';' and ':' forms, several colours in one sequence
Sgr(params, fields) == V(CSI \o params \o <<109>>, <<Ev("sgr", "", 0, fields, <<>>)>>)
\* fields: <<reset, fg r g b (or -1 x3), bg r g b (or -1 x3), bold (0 none 1 on 2 off), italic, underline (-1 none, 0..5)>>
SgrVecs == { Sgr(<<49>>, <<0, -1, -1, -1, -1, -1, -1, 1, 0, -1>>),
             Sgr(<<48>>, <<1, -1, -1, -1, -1, -1, -1, 0, 0, -1>>),
             Sgr(<<>>, <<1, -1, -1, -1, -1, -1, -1, 0, 0, -1>>),
             Sgr(<<51, 56, SEMI, 50, SEMI, 49, SEMI, 50, SEMI, 51>>, <<0, 1, 2, 3, -1, -1, -1, 0, 0, -1>>),
             Sgr(<<51, 56, SEMI, 50, SEMI, 49, SEMI, 50, SEMI, 51, SEMI, 52, 56, SEMI, 50, SEMI, 52, SEMI, 53, SEMI, 54>>, <<0, 1, 2, 3, 4, 5, 6, 0, 0, -1>>),
             Sgr(<<51, 56, COLON, 50, COLON, COLON, 49, COLON, 50, COLON, 51, SEMI, 52, 56, COLON, 50, COLON, 52, COLON, 53, COLON, 54, SEMI, 49>>, <<0, 1, 2, 3, 4, 5, 6, 1, 0, -1>>),
             Sgr(<<51, 56, SEMI, 53, SEMI, 49, 57, 54>>, <<0, 255, 0, 0, -1, -1, -1, 0, 0, -1>>),
             Sgr(<<52, 56, SEMI, 53, SEMI, 50, 52, 52, SEMI, 51, 56, SEMI, 53, SEMI, 49, 54>>, <<0, 0, 0, 0, 128, 128, 128, 0, 0, -1>>),
             Sgr(<<52, COLON, 51, SEMI, 51>>, <<0, -1, -1, -1, -1, -1, -1, 0, 1, 3>>),
             Sgr(<<50, 50, SEMI, 50, 51, SEMI, 50, 52>>, <<0, -1, -1, -1, -1, -1, -1, 2, 2, 0>>),
             \* a reset in the middle of a sequence discards what precedes it and keeps what follows
             \* every underline style in the colon form (4:0 = none .. 4:5 = dashed) and the plain 4
             Sgr(<<52, COLON, 48>>, <<0, -1, -1, -1, -1, -1, -1, 0, 0, 0>>), Sgr(<<52, COLON, 49>>, <<0, -1, -1, -1, -1, -1, -1, 0, 0, 1>>),
             Sgr(<<52, COLON, 50>>, <<0, -1, -1, -1, -1, -1, -1, 0, 0, 2>>), Sgr(<<52, COLON, 52>>, <<0, -1, -1, -1, -1, -1, -1, 0, 0, 4>>),
             Sgr(<<52, COLON, 53>>, <<0, -1, -1, -1, -1, -1, -1, 0, 0, 5>>), Sgr(<<52>>, <<0, -1, -1, -1, -1, -1, -1, 0, 0, 1>>),
             Sgr(<<49, SEMI, 48>>, <<1, -1, -1, -1, -1, -1, -1, 0, 0, -1>>),
             Sgr(<<49, SEMI, SEMI, 51>>, <<1, -1, -1, -1, -1, -1, -1, 0, 1, -1>>),
             Sgr(<<51, 56, SEMI, 50, SEMI, 49, SEMI, 50, SEMI, 51, SEMI, 48, SEMI, 52>>, <<1, -1, -1, -1, -1, -1, -1, 0, 0, 1>>) }
\* ---- DECRPSS with an SGR body reports the current face
FaceRpt == { V(DCS \o <<49, 36, 114>> \o <<48, SEMI, 49, SEMI, 51, 56, SEMI, 50, SEMI, 49, SEMI, 50, SEMI, 51>> \o <<109>> \o ST,
               <<Ev("faceget", "", 0, <<1, 2, 3, -1, -1, -1, 1, 0, 0>>, <<>>)>>),
             V(DCS \o <<49, 36, 114, 48, 109>> \o ST, <<Ev("faceget", "", 0, <<-1, -1, -1, -1, -1, -1, 0, 0, 0>>, <<>>)>>) }

\* ---- ambiguous legacy prefixes followed by more input are resolved in favour of the key: an ESC-prefixed key
\* that also introduces CSI / OSC / DCS / APC / SS3, then text that keeps the longer candidate alive and then diverges
\* <<byte after ESC, key char, modifier bits, tails>>
AmbKeys == { <<91, 91, 2, { <<49, 50, 97, 98>>, <<49, 59, 53, 120, 121>>, <<120>>, <<63, 49, 120>>, <<60, 48, 59, 120>> }>>,
             <<93, 93, 2, { <<120>>, <<52, 120>> }>>,
             <<95, 95, 2, { <<120>>, <<71, 33>> }>>,
             <<79, 111, 3, { <<120>>, <<49, 120>> }>>,
             <<80, 112, 3, { <<120>>, <<49, 36, 120>>, <<49, 43, 120>> }>> }
Ambiguous == UNION { { V(<<27, k[1]>> \o t, <<Chr(k[2], k[3])>> \o [i \in 1..Len(t) |-> Chr(t[i], 0)]) : t \in k[4] } : k \in AmbKeys }
\* self-delimiting families (a complete sequence whatever follows) and the others (only at the end of a vector)
SelfDelim == Tilde \cup Letter \cup Kitty \cup Mouse \cup Cpr \cup Size \cup DecRpm \cup Da1 \cup OscHash \cup OscRgb \cup Termcap \cup KittyImg \cup Paste \cup Text \cup SgrVecs \cup FaceRpt \cup C0
EndOnly == AltKeys \cup { V(<<27>>, <<Key("esc", 0)>>) }
Single == SelfDelim \cup EndOnly \cup Ambiguous
\* concatenations: every ordered pair of one representative per family, with and without plain text in between,
\* and sampled triples whose last element may be an ambiguous legacy key
Reps == { CHOOSE v \in F : TRUE : F \in {Tilde, Letter, Kitty, Mouse, Cpr, Size, DecRpm, Da1, OscHash, OscRgb, Termcap, KittyImg, Paste, Text, SgrVecs, FaceRpt, C0} }
         \cup { V(CSI \o <<49, SEMI, 53, 82>>, <<Key("f3", 4)>>), V(Utf8(8364), <<Chr(8364, 0)>>) }
Cat(a, b) == V(a.input \o b.input, a.exp \o b.exp)
Plain == V(<<104, 105>>, <<Chr(104, 0), Chr(105, 0)>>)
Pairs == { Cat(a, b) : a \in Reps, b \in Reps } \cup { Cat(Cat(a, Plain), b) : a \in Reps, b \in Reps }
Triples == { Cat(Cat(a, b), c) : a \in Reps, b \in Reps, c \in { CHOOSE v \in EndOnly : TRUE, V(<<27>>, <<Key("esc", 0)>>) } }
ASSUME ndJsonSerialize(IOEnv.OUT, SetToSeq(Single) \o SetToSeq(Pairs) \o SetToSeq(Triples))
ASSUME PrintT(<<"GENERATED", Cardinality(Single), Cardinality(Pairs), Cardinality(Triples)>>)
VARIABLE x
Init == x = 0
Next == UNCHANGED x
=============================================================================
