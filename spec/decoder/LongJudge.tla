------------------------------- MODULE LongJudge -------------------------------
(* C03 for recognised sequences far longer than any buffer of the decoder    *)
(* (harness c03-long): bracketed paste, kitty response and termcap reply of  *)
(* 4 097 .. 70 000 bytes between ordinary keys.  Each is ONE event whatever  *)
(* the read size (whole, 4096, 4095, 1024, 100, 1 byte, buffered reader),    *)
(* and nothing is left once the input is exhausted.                          *)
EXTENDS Integers, Sequences, TLC, Json, IOUtils, SequencesExt
Rec == ndJsonDeserialize(IOEnv.TRACE)
N(b) == [i \in 1..Len(b) |-> b[i]]
Verdict(r) ==
  IF r.panic # "" THEN "panic"
  ELSE IF \E i \in 1..Len(r.runs) : N(r.runs[i].digest) # N(r.runs[1].digest) THEN "events depend on how a long sequence was cut into reads"
  ELSE IF Len(r.runs[1].digest) # r.expected THEN "a long recognised sequence was not decoded as one event"
  ELSE IF \E i \in 1..Len(r.runs) : r.runs[i].tail # 0 THEN "not-exhausted"
  ELSE "ok"
Bad == SelectSeq([i \in 1..Len(Rec) |-> [id |-> Rec[i].id, why |-> Verdict(Rec[i])]], LAMBDA v : v.why # "ok")
ASSUME ndJsonSerialize(IOEnv.OUT, Bad)
ASSUME PrintT(<<"JUDGED", Len(Rec), Len(Bad)>>)
VARIABLE x
Init == x = 0
Next == UNCHANGED x
=============================================================================
