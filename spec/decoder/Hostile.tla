------------------------------ MODULE Hostile ------------------------------
(* Generator of structured hostile vectors for C02: every report family     *)
(* with numeric fields x parameter strings from a set that contains zero,   *)
(* empty, leading zeros, the 16/32/64-bit boundaries and 20/40-digit        *)
(* numbers.  Each vector records which parameter string feeds which field,  *)
(* so the judge (DecoderJudge) never re-parses the bytes.                   *)
EXTENDS Bytes, FiniteSets, TLC, Json, IOUtils, SequencesExt

Nines(n) == [i \in 1..n |-> 9]
ParamStrs == { <<>>, <<0>>, <<1>>, <<2>>, <<9>>, <<1,0>>, <<0,0>>, <<0,0,7>>, <<2,5,5>>, <<2,5,6>>, <<6,5,5,3,5>>, <<6,5,5,3,6>>,
               <<2,1,4,7,4,8,3,6,4,8>>, U32MAX, <<4,2,9,4,9,6,7,2,9,6>>, U64MAX, <<1,8,4,4,6,7,4,4,0,7,3,7,0,9,5,5,1,6,1,6>>,
               Nines(20), Nines(40) }
Small == { <<1>>, <<2>>, <<1,0>> }

P(ds) == Ascii(ds)
\* families: name, number of numeric params, template
Bytes2(fam, a, b) ==
  CASE fam = "cpr"    -> CSI \o P(a) \o <<SEMI>> \o P(b) \o <<82>>                            \* CSI r ; c R
    [] fam = "mouse"  -> CSI \o <<60, 48, SEMI>> \o P(a) \o <<SEMI>> \o P(b) \o <<77>>          \* CSI < 0 ; col ; row M
    [] fam = "decrpm" -> CSI \o <<63>> \o P(a) \o <<SEMI>> \o P(b) \o <<36, 121>>               \* CSI ? m ; s $ y
    [] fam = "kittyimg" -> APC \o <<71, 105, 61>> \o P(a) \o <<44, 112, 61>> \o P(b) \o <<59, 79, 75>> \o ST   \* APC G i=a,p=b;OK ST
    [] fam = "kittykey" -> CSI \o P(a) \o <<SEMI>> \o P(b) \o <<117>>                           \* CSI code ; mods u
    [] fam = "sgr5"   -> CSI \o <<51, 56, SEMI, 53, SEMI>> \o P(a) \o <<109>>                   \* CSI 38;5;a m   (b unused)
    [] fam = "da1"    -> CSI \o <<63>> \o P(a) \o <<SEMI>> \o P(b) \o <<99>>                    \* CSI ? a ; b c
Bytes1(fam, a) ==
  CASE fam = "kbdlevel" -> CSI \o <<63>> \o P(a) \o <<117>>                                      \* CSI ? n u
    [] fam = "osc4"     -> OSC \o <<52, SEMI>> \o P(a) \o <<SEMI, 35, 97, 97, 98, 98, 99, 99>> \o ST   \* OSC 4;n;#aabbcc ST
    [] fam = "mousebtn" -> CSI \o <<60>> \o P(a) \o <<SEMI, 49, SEMI, 49, 77>>                   \* CSI < btn ; 1 ; 1 M
    [] fam = "fkey"     -> CSI \o P(a) \o <<126>>                                                \* CSI n ~
Bytes4(fam, a, b, c, d) ==
  CASE fam = "size" -> CSI \o <<56, SEMI>> \o P(a) \o <<SEMI>> \o P(b) \o <<116>> \o CSI \o <<52, SEMI>> \o P(c) \o <<SEMI>> \o P(d) \o <<116>>
    [] fam = "sgr2" -> CSI \o <<51, 56, SEMI, 50, SEMI>> \o P(a) \o <<SEMI>> \o P(b) \o <<SEMI>> \o P(c) \o <<109>>   \* CSI 38;2;r;g;b m (d unused)

Fam2 == {"cpr", "mouse", "decrpm", "kittyimg", "kittykey", "da1"}
Fam1 == {"kbdlevel", "osc4", "mousebtn", "fkey", "sgr5"}
V2 == { [fam |-> f, params |-> <<a, b>>, input |-> Bytes2(f, a, b)] : f \in Fam2, a \in ParamStrs, b \in ParamStrs }
V1 == { [fam |-> f, params |-> <<a>>, input |-> IF f = "sgr5" THEN Bytes2(f, a, <<>>) ELSE Bytes1(f, a)] : f \in Fam1, a \in ParamStrs }
\* four-parameter families: one hostile parameter at a time, and all hostile
V4 == { [fam |-> "size", params |-> <<a, b, c, d>>, input |-> Bytes4("size", a, b, c, d)] :
          a \in ParamStrs, b \in Small, c \in Small, d \in ParamStrs }
      \cup { [fam |-> "size", params |-> <<a, b, c, d>>, input |-> Bytes4("size", a, b, c, d)] :
          a \in Small, b \in ParamStrs, c \in ParamStrs, d \in Small }
V3 == { [fam |-> "sgr2", params |-> <<a, b, c>>, input |-> Bytes4("sgr2", a, b, c, <<>>)] :
          a \in ParamStrs, b \in {<<0>>, <<2,5,5>>, <<2,5,6>>}, c \in {<<7>>, Nines(20)} }
      \* the colon forms (ITU T.416): 38:2:r:g:b, 38:2::r:g:b (empty colour-space slot) and 38:5:n
      \cup { [fam |-> "sgr2", params |-> <<a, b, c>>, input |-> CSI \o <<51, 56, COLON, 50, COLON>> \o P(a) \o <<COLON>> \o P(b) \o <<COLON>> \o P(c) \o <<109>>] :
          a \in ParamStrs, b \in {<<0>>, <<2,5,6>>}, c \in {<<7>>, <<3,0,0>>} }
      \cup { [fam |-> "sgr2", params |-> <<b, a, c>>, input |-> CSI \o <<51, 56, COLON, 50, COLON, COLON>> \o P(b) \o <<COLON>> \o P(a) \o <<COLON>> \o P(c) \o <<109>>] :
          a \in {<<0>>, <<2,5,6>>}, b \in ParamStrs, c \in {<<7>>, <<2,5,6>>} }
      \cup { [fam |-> "sgr5", params |-> <<a>>, input |-> CSI \o <<51, 56, COLON, 53, COLON>> \o P(a) \o <<109>>] : a \in ParamStrs }
\* OSC colour replies with components of any length (the digit strings read as hexadecimal): OSC 11;rgb:a/b/00 ST and OSC 4;1;rgb:00/a/b BEL
Zeros(n) == [i \in 1..n |-> 0]
\* zero-padded components: the value fits any integer type, only the LENGTH is extreme
Padded == { Zeros(n) \o <<9, 9>> : n \in {2, 3, 6, 14, 15, 16, 17, 18, 30, 62} }
VO == { [fam |-> "oscrgb", params |-> <<a, b>>, input |-> OSC \o <<49, 49, SEMI, 114, 103, 98, 58>> \o P(a) \o <<47>> \o P(b) \o <<47, 48, 48>> \o ST] :
          a \in Padded, b \in {<<0>>} \cup Padded }
      \cup { [fam |-> "oscrgb", params |-> <<a, b>>, input |-> OSC \o <<49, 49, SEMI, 114, 103, 98, 58>> \o P(a) \o <<47>> \o P(b) \o <<47, 48, 48>> \o ST] :
          a \in ParamStrs, b \in {<<0>>, <<2,5,5>>, Nines(20)} }
      \cup { [fam |-> "oscrgb", params |-> <<a, b>>, input |-> OSC \o <<52, SEMI, 49, SEMI, 114, 103, 98, 58, 48, 48, 47>> \o P(a) \o <<47>> \o P(b) \o <<7>>] :
          a \in ParamStrs, b \in {<<0>>, Nines(40)} }
\* UTF-8: scalar values at every length boundary and around the surrogate gap
Scalars == {0, 1, 27, 65, 127, 128, 255, 2047, 2048, 4095, 55295, 57344, 65533, 65535, 65536, 131071, 1114110, 1114111}
VU == { [fam |-> "utf8", params |-> <<NatDigits(c)>>, input |-> Utf8(c)] : c \in Scalars }
\* ill-formed UTF-8: what an encoder must never produce
Ill == { <<192, 128>>, <<193, 191>>, <<224, 128, 128>>, <<224, 159, 191>>, <<240, 128, 128, 128>>, <<240, 143, 191, 191>>,
         <<237, 160, 128>>, <<237, 191, 191>>, <<244, 144, 128, 128>>, <<245, 128, 128, 128>>, <<247, 191, 191, 191>>, <<248, 136, 128, 128, 128>>,
         <<255>>, <<254>>, <<128>>, <<191>>, <<195, 40>>, <<226, 40, 161>> }
\* truncated sequences: ill-formed only when something else follows
Trunc == { <<195>>, <<226, 130>>, <<240, 159, 152>> }
VI == { [fam |-> "illutf8", params |-> <<>>, input |-> pre \o x \o post] : x \in Ill, pre \in {<<>>, <<97>>, <<195, 169>>}, post \in {<<>>, <<98>>, <<27, 91, 65>>} }
      \cup { [fam |-> "illutf8", params |-> <<>>, input |-> pre \o x \o post] : x \in Trunc, pre \in {<<>>, <<97>>}, post \in {<<98>>, <<27, 91, 65>>} }
      \cup { [fam |-> "truncutf8", params |-> <<>>, input |-> pre \o x] : x \in Trunc, pre \in {<<>>, <<97>>} }

\* empty parameter lists: every introducer directly followed by a final / terminator
Bare == { CSI \o <<117>>, CSI \o <<82>>, CSI \o <<77>>, CSI \o <<60, 77>>, CSI \o <<60, 109>>, CSI \o <<63, 99>>, CSI \o <<63, 117>>, CSI \o <<36, 121>>,
          CSI \o <<63, 36, 121>>, CSI \o <<116>>, CSI \o <<126>>, CSI \o <<109>>, CSI \o <<59, 109>>, CSI \o <<59, 59, 117>>, CSI \o <<58, 117>>, CSI \o <<59, 58, 117>>,
          OSC \o ST, OSC \o <<7>>, OSC \o <<59>> \o ST, OSC \o <<52, 59, 59>> \o ST, DCS \o ST, DCS \o <<49, 43, 114>> \o ST, DCS \o <<49, 36, 114>> \o ST, DCS \o <<49, 36, 114, 109>> \o ST,
          APC \o ST, APC \o <<71>> \o ST, APC \o <<71, 59>> \o ST, APC \o <<71, 105, 61, 59>> \o ST, CSI \o <<50, 48, 48, 126>> \o CSI \o <<50, 48, 49, 126>>,
          CSI \o <<56, 59, 59, 116>> \o CSI \o <<52, 59, 59, 116>> }
VB == { [fam |-> "bare", params |-> <<>>, input |-> pre \o x \o post] : x \in Bare, pre \in {<<>>, <<97>>}, post \in {<<>>, <<98>>} }
Vec == SetToSeq(VB) \o SetToSeq(V2) \o SetToSeq(V1) \o SetToSeq(V4) \o SetToSeq(V3) \o SetToSeq(VO) \o SetToSeq(VU) \o SetToSeq(VI)
ASSUME ndJsonSerialize(IOEnv.OUT, Vec)
ASSUME PrintT(<<"GENERATED", Len(Vec)>>)
VARIABLE x
Init == x = 0
Next == UNCHANGED x
=============================================================================
