---------------------------- MODULE ProtocolJudge ----------------------------
(* Judges recordings of TTYEventDecoder on the vectors of TtyProtocol.tla:  *)
(* the projected events must equal the events the printer encoded, for the  *)
(* whole buffer, byte-wise and in 3-byte reads.  A pending tail is allowed  *)
(* only for the inherently ambiguous legacy prefixes at the end of a vector *)
(* (bare ESC-prefixed keys): those must be a prefix-complete match.         *)
EXTENDS TLC, Json, IOUtils, SequencesExt, Sequences, Integers
Rec == ndJsonDeserialize(IOEnv.TRACE)
Norm(e) == [k |-> e.k, s |-> e.s, m |-> e.m, n |-> [i \in 1..Len(e.n) |-> e.n[i]], t |-> [i \in 1..Len(e.t) |-> e.t[i]]]
Evs(es) == [i \in 1..Len(es) |-> Norm(es[i])]
\* events of an ambiguous legacy key at the very end stay pending until more input arrives: the decoded
\* list may then lack exactly that last expected event
Ok(exp, got) == got = exp \/ (Len(exp) >= 1 /\ exp[Len(exp)].k = "key" /\ got = SubSeq(exp, 1, Len(exp) - 1))
Verdict(r) ==
  IF r.panic # "" THEN "panic"
  ELSE LET exp == Evs(r.exp) IN
       IF ~Ok(exp, Evs(r.whole)) THEN "whole-buffer"
       ELSE IF Evs(r.bytewise) # Evs(r.whole) THEN "byte-wise differs"
       ELSE IF Evs(r.three) # Evs(r.whole) THEN "3-byte reads differ"
       ELSE IF Evs(r.whole) # exp THEN "pending"       \* informational: counted, not a failure
       ELSE "ok"
All == [i \in 1..Len(Rec) |-> [id |-> Rec[i].id, why |-> Verdict(Rec[i])]]
Bad == SelectSeq(All, LAMBDA v : v.why \notin {"ok"})
ASSUME ndJsonSerialize(IOEnv.OUT, Bad)
ASSUME PrintT(<<"JUDGED", Len(Rec), Len(Bad)>>)
VARIABLE x
Init == x = 0
Next == UNCHANGED x
=============================================================================
