CONSTANTS Alphabet = {1,2} MaxLen = 5
PatternSets <- PSetsAll
INIT Init
NEXT Next

CHECK_DEADLOCK FALSE
