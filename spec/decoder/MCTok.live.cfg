CONSTANTS Alphabet = {1,2,3} MaxLen = 4
PatternSets <- PSets
SPECIFICATION Spec
PROPERTY Terminates
CHECK_DEADLOCK FALSE
