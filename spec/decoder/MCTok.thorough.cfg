CONSTANTS Alphabet = {1,2,3} MaxLen = 6
PatternSets <- PSets
INIT Init
NEXT Next
INVARIANTS Correct Conserve
CHECK_DEADLOCK FALSE
