------------------------------ MODULE Tokenizer ------------------------------
(* Code-shaped model of MatcherDecoder (src/decoder.rs:191-301): state      *)
(* carried across decode calls = buffer, rescheduled (a stack stored in     *)
(* reverse), candidate; one action per byte decoded.  The DFA is abstracted *)
(* by the pattern set (Viable = prefix of a pattern), which is what C15     *)
(* establishes for compiled automata.  Checked against LLSpec for every     *)
(* input and EVERY partition of the input into reads.                       *)
EXTENDS LLSpec, TLC, SequencesExt

CONSTANTS Alphabet, PatternSets, MaxLen

VARIABLES pats,      \* the pattern set (chosen in Init)
          stream, pos, chunk,   \* input, bytes handed over so far, current read
          buffer, resched, cand, out
vars == <<pats, stream, pos, chunk, buffer, resched, cand, out>>

Inputs == UNION { [1..n -> Alphabet] : n \in 0..MaxLen }

Init == /\ pats \in PatternSets /\ stream \in Inputs /\ pos = 0 /\ chunk = <<>>
        /\ buffer = <<>> /\ resched = <<>> /\ cand = 0 /\ out = <<>>

\* a read hands over the next k bytes (k may be 0) once the previous one is used up
Read(k) == /\ chunk = <<>> /\ resched = <<>> /\ pos + k <= Len(stream)
           /\ chunk' = SubSeq(stream, pos + 1, pos + k) /\ pos' = pos + k
           /\ UNCHANGED <<pats, stream, buffer, resched, cand, out>>

Rev(s) == [i \in 1..Len(s) |-> s[Len(s) + 1 - i]]

\* decode_byte, starting from reschedule stack r0 (top = last element)
DecodeByteOn(r0, b) ==
  LET buf == Append(buffer, b) IN
  IF PViable(pats, buf)
  THEN LET c1 == IF PMember(pats, buf) THEN Len(buf) ELSE cand IN
       IF PMember(pats, buf) /\ PFinal(pats, buf)
       THEN \* take_candidate at a terminal accepting state
            /\ out' = Append(out, <<"ok", SubSeq(buf, 1, c1)>>)
            /\ resched' = r0 \o Rev(SubSeq(buf, c1 + 1, Len(buf)))
            /\ buffer' = <<>> /\ cand' = 0
       ELSE /\ buffer' = buf /\ cand' = c1 /\ out' = out /\ resched' = r0
  ELSE IF cand # 0
       THEN \* dead transition with a candidate: emit it, push back the rest reversed
            /\ out' = Append(out, <<"ok", SubSeq(buf, 1, cand)>>)
            /\ resched' = r0 \o Rev(SubSeq(buf, cand + 1, Len(buf)))
            /\ buffer' = <<>> /\ cand' = 0
       ELSE IF Len(buf) > 1
            THEN \* re-schedule the fatal byte only when the buffer had more than one byte
                 /\ out' = Append(out, <<"raw", buffer>>) /\ resched' = Append(r0, b) /\ buffer' = <<>> /\ cand' = 0
            ELSE /\ out' = Append(out, <<"raw", buf>>) /\ resched' = r0 /\ buffer' = <<>> /\ cand' = 0

\* rescheduled bytes are drained before new input
StepResched == /\ resched # <<>>
               /\ DecodeByteOn(SubSeq(resched, 1, Len(resched) - 1), resched[Len(resched)])
               /\ UNCHANGED <<pats, stream, pos, chunk>>
StepChunk == /\ resched = <<>> /\ chunk # <<>>
             /\ DecodeByteOn(resched, Head(chunk))
             /\ chunk' = Tail(chunk)
             /\ UNCHANGED <<pats, stream, pos>>

Next == (\E k \in 0..MaxLen : Read(k)) \/ StepResched \/ StepChunk
Spec == Init /\ [][Next]_vars /\ WF_vars(StepResched) /\ WF_vars(StepChunk) /\ WF_vars(\E k \in 1..MaxLen : Read(k))

Quiescent == pos = Len(stream) /\ chunk = <<>> /\ resched = <<>>
\* C03: at quiescence the output is the leftmost-longest tokenisation, whatever the reads were
Correct == Quiescent => LET r == PTokens(pats, stream) IN out = r.out /\ buffer = r.pend
\* nothing lost, duplicated or reordered, at every moment
Flat(ts) == LET RECURSIVE f(_) f(i) == IF i > Len(ts) THEN <<>> ELSE ts[i][2] \o f(i + 1) IN f(1)
Conserve == Flat(out) \o buffer \o Rev(resched) \o chunk = SubSeq(stream, 1, pos)
\* C02 (termination): no reschedule loop - the tokeniser always reaches quiescence
Terminates == <>Quiescent
=============================================================================
