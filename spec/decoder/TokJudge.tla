------------------------------ MODULE TokJudge ------------------------------
(* Judges recordings of the real incremental tokeniser (hook: decoder::     *)
(* verif::Tokenizer) against LLSpec: for every chunking of the input the    *)
(* tokens must be the leftmost-longest tokenisation, and a further decode   *)
(* call on exhausted input yields nothing.                                  *)
EXTENDS LLSpec, TLC, Json, IOUtils, SequencesExt
Rec == ndJsonDeserialize(IOEnv.TRACE)
Norm(b) == [i \in 1..Len(b) |-> b[i]]    \* JSON array -> sequence (also for the empty array)
GotTokens(g) == [i \in 1..Len(g) |-> <<IF g[i][1] = 1 THEN "ok" ELSE "raw", Norm(g[i][2])>>]
RunVerdict(exp, run) ==
  IF run.panic THEN "panic"
  ELSE IF GotTokens(run.got) # exp THEN "tokens"
  ELSE IF run.tail # 0 THEN "not-exhausted"
  ELSE "ok"
Verdict(r) ==
  LET exp == PTokens({ Norm(p) : p \in ToSet(r.pats) }, Norm(r.input)).out
      bad == SelectSeq([i \in 1..Len(r.runs) |-> [why |-> RunVerdict(exp, r.runs[i]), run |-> i]], LAMBDA v : v.why # "ok")
  IN IF bad = <<>> THEN [why |-> "ok", run |-> 0] ELSE bad[1]
Bad == SelectSeq([i \in 1..Len(Rec) |-> [id |-> Rec[i].id] @@ Verdict(Rec[i])], LAMBDA v : v.why # "ok")
ASSUME ndJsonSerialize(IOEnv.OUT, Bad)
ASSUME PrintT(<<"JUDGED", Len(Rec), Len(Bad)>>)
VARIABLE x
Init == x = 0
Next == UNCHANGED x
=============================================================================
