---- MODULE MCRender ----
EXTENDS RenderImpl
\* cell alphabets (ch: c = char id, w = width; img: i = image id)
Ch(c, w, f) == [k |-> "ch", c |-> c, w |-> w, f |-> f, i |-> 0]
Img(i, f) == [k |-> "img", c |-> 0, w |-> 0, f |-> f, i |-> i]
ATextWide == { Def, Ch(1, 1, 1), Ch(Sp, 1, 2), Ch(9, 2, 0) }
AText3 == { Def, Ch(1, 1, 1), Ch(Sp, 1, 2) }
AImg == { Def, Ch(1, 1, 1), Ch(9, 2, 0), Img(1, 1), Img(2, 2) }
AFull == { Def, Ch(1, 1, 1), Ch(Sp, 1, 2), Ch(9, 2, 0), Img(1, 1), Img(2, 2) }
AImgSmall == { Def, Ch(1, 1, 1), Img(1, 1), Img(2, 2) }
AGlyph == { Def, Ch(1, 1, 1), Img(1, 1), Img(11, 1), Img(12, 2) }
====
