CONSTANTS H = 2 W = 2 FixMarks = TRUE FixWide = TRUE FixDamage = FALSE AllowAmbiguous = FALSE
Alphabet <- AFull
INIT Init
NEXT Next
INVARIANT Shown
INVARIANT SameAsScratch
CHECK_DEADLOCK FALSE
