---------------------------- MODULE RenderTrace ----------------------------
(* Judge for recordings of the real TerminalRenderer (harness c01-drive /   *)
(* c01-replay).  Every recorded command list is EXECUTED on Screen and the  *)
(* result is compared with the denotation of the surface (RenderSpec) and   *)
(* with the screen a from-scratch repaint produces.  Command lists are      *)
(* never compared with each other, so a different but correct diff          *)
(* strategy stays quiet.  The code-shaped model (RenderImpl) is replayed    *)
(* alongside; a difference between its predicted screen and the real one is *)
(* reported as model drift, not as a violation.                             *)
EXTENDS RenderImpl, Json, IOUtils, SequencesExt

Rec == ndJsonDeserialize(IOEnv.TRACE)

\* compact encodings of the harness
CellOf(a) == [k |-> IF a[1] = 0 THEN "ch" ELSE "img", c |-> a[2], w |-> a[3], f |-> a[4], i |-> a[5]]
CmdOf(x) ==
  CASE x[1] = 0 -> [t |-> "face", f |-> x[2]]
    [] x[1] = 1 -> [t |-> "to", r |-> x[2], c |-> x[3]]
    [] x[1] = 2 -> [t |-> "ch", c |-> x[2], w |-> x[3]]
    [] x[1] = 3 -> [t |-> "ech", n |-> x[2]]
    [] x[1] = 4 -> [t |-> "img", i |-> x[2], r |-> x[3], c |-> x[4]]
    [] x[1] = 5 -> [t |-> "imgerase", i |-> x[2], r |-> x[3], c |-> x[4]]
    [] OTHER    -> [t |-> "other"]
Cmds(xs) == [j \in 1..Len(xs) |-> CmdOf(xs[j])]
Known(xs) == \A j \in 1..Len(xs) : xs[j][1] \in 0..5 /\ xs[j][2] # -7
Surf(alpha, rows) == [r \in Rows |-> [c \in Cols |-> CellOf(alpha[rows[r][c] + 1])]]

\* st = [s |-> real screen, back, marks |-> model state]
Fail(step, why) == <<[step |-> step, why |-> why, amb |-> FALSE]>>
FailA(step, why, amb) == <<[step |-> step, why |-> why, amb |-> amb]>>

RECURSIVE Walk(_, _, _, _)
Walk(alpha, ops, i, st) ==
  IF i > Len(ops) THEN <<>>
  ELSE
   LET o == ops[i] IN
   IF ~Known(o.cmds) \/ ~Known(o.fresh) THEN Fail(i, "unknown-command")
   ELSE IF o.op \in {"clear", "recreate"} THEN
        Walk(alpha, ops, i + 1, [s |-> GarbageText(Run(st.s, Cmds(o.cmds))), back |-> DefGrid, marks |-> MarkGrid("D"), amb |-> FALSE])
   ELSE IF o.op = "new" THEN
        Walk(alpha, ops, i + 1, [s |-> GarbageText(st.s), back |-> DefGrid, marks |-> MarkGrid("D"), amb |-> FALSE])
   ELSE IF o.op = "skip" THEN
        (IF Len(o.cmds) # 0 THEN Fail(i, "commands-without-frame") ELSE <<>>) \o Walk(alpha, ops, i + 1, st)
   ELSE
     LET surf == Surf(alpha, o.surf)
         s1 == Run(st.s, Cmds(o.cmds))
         fr == Run(BlankScreen, Cmds(o.fresh))
         amb == Ambiguous(surf)
         model == FrameRun(surf, st.back, st.marks)
         ms == Run(st.s, model.cmds)
         hamb == st.amb \/ amb     \* an ambiguous surface was rendered since the last clear
         v1 == IF ~amb /\ ~Matches(s1, surf) THEN FailA(i, "absolute", hamb) ELSE <<>>
         v2 == IF ~amb /\ ~Matches(fr, surf) THEN FailA(i, "fresh-absolute", hamb) ELSE <<>>
         v3 == IF ~SameShown(s1, fr) THEN FailA(i, "differential", hamb) ELSE <<>>
         v4 == IF ms.grid # s1.grid \/ ms.imgs # s1.imgs THEN FailA(i, "drift", hamb) ELSE <<>>
     IN IF ~InDomain(surf) THEN Walk(alpha, ops, i + 1, [s |-> s1, back |-> model.back, marks |-> MarkGrid("E"), amb |-> hamb])
        ELSE v1 \o v2 \o v3 \o v4 \o Walk(alpha, ops, i + 1, [s |-> s1, back |-> model.back, marks |-> MarkGrid("E"), amb |-> hamb])

Judge(r) ==
  IF r.panic # "" THEN Fail(0, "panic")
  ELSE Walk(r.alpha, r.ops, 1, [s |-> BlankScreen, back |-> DefGrid, marks |-> MarkGrid("E"), amb |-> FALSE])

Verdicts == FlattenSeq([l \in 1..Len(Rec) |->
                LET v == Judge(Rec[l]) IN [j \in 1..Len(v) |-> [id |-> Rec[l].id, step |-> v[j].step, why |-> v[j].why, amb |-> v[j].amb]]])
WriteVerdicts(v) == ndJsonSerialize(IOEnv.OUT, v) /\ PrintT(<<"JUDGED", Len(Rec), Len(v)>>)
JInit == Init
JNext == UNCHANGED vars
=============================================================================
