CONSTANTS H = 1 W = 3 FixMarks = TRUE FixWide = TRUE FixDamage = TRUE AllowAmbiguous = FALSE
FixClearKeepsFront = TRUE Threshold = 5 MaxQ = 3
Alphabet <- AImgOnly
INIT LInit
NEXT LNext
INVARIANT ShownWhenDrained
CHECK_DEADLOCK FALSE
