---------------------------- MODULE RenderSpec ----------------------------
(* Property-level specification of C01: the DENOTATION of a surface - what  *)
(* a terminal must show after a frame - and the relation "the screen shows  *)
(* the surface".  Independent of how the renderer diffs.                    *)
(*                                                                          *)
(* Surface cell: [k, c, w, f, i] with k = "ch" (character c of width w in   *)
(* face f) or k = "img" (image i, face f; glyph cells are the image of      *)
(* (glyph, face)).                                                          *)
EXTENDS Screen

IsImg(cell) == cell.k = "img"
IsWide(cell) == cell.k = "ch" /\ cell.w = 2
Def == [k |-> "ch", c |-> Sp, w |-> 1, f |-> 0, i |-> 0]

ImgCells(surf) == { p \in Pos : IsImg(surf[p[1]][p[2]]) }
\* image cells whose footprint covers p
Cover(surf, p) == { q \in ImgCells(surf) : p \in Foot(surf[q[1]][q[2]].i, q[1], q[2]) }

\* columns of row r at which a character is actually written by a
\* left-to-right scan: cells under an image are not written, a wide
\* character covers its right neighbour
RECURSIVE Leads(_, _, _)
Leads(surf, r, k) ==
  IF k > W THEN {}
  ELSE IF Cover(surf, <<r, k>>) # {} THEN Leads(surf, r, k + 1)
  ELSE IF IsWide(surf[r][k]) THEN {k} \cup Leads(surf, r, k + 2)
  ELSE {k} \cup Leads(surf, r, k + 1)

ANYC == -4   \* expected cell: unconstrained
ANYF == -2   \* expected blank of unconstrained face
ANY == [c |-> ANYC, f |-> -1, w |-> 1]

\* Paint(surf): expected screen grid.  Cells whose meaning is ambiguous
\* (overlapping footprints; a visible wide character whose right half is under an image)
\* are left unconstrained: for them only the from-scratch comparison applies.
Paint(surf) ==
  [r \in Rows |->
    LET L == Leads(surf, r, 1) IN
    [k \in Cols |->
       LET cv == Cover(surf, <<r, k>>)
           shadowOf == k >= 2 /\ (k - 1) \in L /\ IsWide(surf[r][k-1])
       IN IF cv # {} THEN
             IF shadowOf THEN ANY
             ELSE IF Cardinality(cv) = 1
                  THEN LET q == CHOOSE q \in cv : TRUE IN [c |-> Sp, f |-> surf[q[1]][q[2]].f, w |-> 1]
                  ELSE [c |-> Sp, f |-> ANYF, w |-> 1]
          \* (a wide character hidden under an image casts no shadow: the cell right of the image shows its own content)
          ELSE IF shadowOf THEN SCont
          ELSE IF k \in L THEN
                 IF IsWide(surf[r][k]) /\ k + 1 <= W /\ Cover(surf, <<r, k + 1>>) # {} THEN ANY
                 ELSE [c |-> surf[r][k].c, f |-> surf[r][k].f, w |-> surf[r][k].w]
          ELSE ANY]]

\* weakest reading of an orphaned half: a blank of some face
CellOk(sc, ex) ==
  \/ ex.c = ANYC
  \/ ex.f = ANYF /\ sc.c \in {Sp, ORPH}
  \/ sc = ex
  \/ sc.c = ORPH /\ ex.c = Sp

Placements(surf) == { <<surf[p[1]][p[2]].i, p[1], p[2]>> : p \in ImgCells(surf) }

Matches(s, surf) ==
  /\ LET P == Paint(surf) IN \A p \in Pos : CellOk(s.grid[p[1]][p[2]], P[p[1]][p[2]])
  /\ s.imgs = Placements(surf)

\* a surface is ambiguous when some cell has no single meaning
Ambiguous(surf) ==
  \/ \E p \in Pos : Cardinality(Cover(surf, p)) > 1
  \* a VISIBLE wide character whose right half lies under an image (a wide character that is itself under an
  \* image is simply hidden, like every cell under an image)
  \/ \E r \in Rows, k \in 1..(W - 1) :
        IsWide(surf[r][k]) /\ Cover(surf, <<r, k>>) = {} /\ Cover(surf, <<r, k + 1>>) # {}
InDomain(surf) == \A r \in Rows : ~IsWide(surf[r][W])

\* differential oracle: two screens show the same thing (an orphan is a
\* blank of unknown face)
SameCell(x, y) ==
  \/ x = y
  \/ x.c = ORPH /\ y.c \in {Sp, ORPH}
  \/ y.c = ORPH /\ x.c \in {Sp, ORPH}
SameShown(a, b) ==
  /\ \A p \in Pos : SameCell(a.grid[p[1]][p[2]], b.grid[p[1]][p[2]])
  /\ a.imgs = b.imgs
=============================================================================
