CONSTANTS H = 1 W = 6 FixMarks = TRUE FixWide = TRUE FixDamage = TRUE AllowAmbiguous = FALSE
Alphabet <- AText3
INIT Init
NEXT Next
INVARIANT Shown
INVARIANT SameAsScratch
CHECK_DEADLOCK FALSE
