------------------------------ MODULE RenderGen ------------------------------
(* Generates, for the screen size of the configuration, every surface over  *)
(* a sub-alphabet of the harness's cell alphabet that lies in C01's domain  *)
(* and is unambiguous.  The harness replays every ordered pair (and every   *)
(* surface after a forced clear), i.e. every transition of the closure of   *)
(* the renderer model, through the real TerminalRenderer.                   *)
EXTENDS RenderTrace

CONSTANT Sub     \* set of alphabet indices (0-based, as logged by the harness)

\* must equal c01::env().alphabet of the harness (checked by the judge)
HarnessAlpha == << <<0,0,1,0,0>>, <<0,1,1,1,0>>, <<0,0,1,2,0>>, <<0,2,1,0,0>>, <<0,9,2,0,0>>, <<0,8,2,1,0>>,
                   <<1,0,0,1,1>>, <<1,0,0,2,2>>, <<1,0,0,0,3>>, <<1,0,0,1,11>>, <<1,0,0,2,12>>, <<0,3,1,3,0>>, <<0,0,1,1,0>>, <<1,0,0,0,4>>, <<1,0,0,0,5>> >>

Idx == [Rows -> [Cols -> Sub]]
Good == { s \in Idx : LET surf == [r \in Rows |-> [c \in Cols |-> CellOf(HarnessAlpha[s[r][c] + 1])]]
                      IN InDomain(surf) /\ ~Ambiguous(surf) }
ASSUME ndJsonSerialize(IOEnv.OUT, SetToSeq({ [h |-> H, w |-> W, surf |-> s] : s \in Good }))
ASSUME PrintT(<<"GENERATED", Cardinality(Good)>>)
=============================================================================
