---- MODULE RenderLoopTraceMain ----
EXTENDS RenderLoopTrace
ASSUME WriteVerdicts(VerdictsL)
====
