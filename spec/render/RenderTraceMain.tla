---- MODULE RenderTraceMain ----
EXTENDS RenderTrace
ASSUME WriteVerdicts(Verdicts)
====
