CONSTANTS H = 1 W = 3 FixMarks = TRUE FixWide = TRUE FixDamage = TRUE AllowAmbiguous = TRUE
Alphabet <- AFull
INIT Init
NEXT Next

INVARIANT SameAsScratch
CHECK_DEADLOCK FALSE
