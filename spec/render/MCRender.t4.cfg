CONSTANTS H = 2 W = 2 FixMarks = TRUE FixWide = TRUE FixDamage = TRUE AllowAmbiguous = FALSE
Alphabet <- AGlyph
INIT Init
NEXT Next
INVARIANT Shown
INVARIANT SameAsScratch
CHECK_DEADLOCK FALSE
