CONSTANTS H = 1 W = 4 FixMarks = TRUE FixWide = TRUE FixDamage = TRUE AllowAmbiguous = FALSE
Alphabet <- ATextWide
INIT Init
NEXT Next
INVARIANT Shown
INVARIANT SameAsScratch
CHECK_DEADLOCK FALSE
