---------------------------- MODULE RenderImpl ----------------------------
(* Code-shaped model of TerminalRenderer (src/render.rs): front / back      *)
(* buffers, per-cell marks, first pass (erase changed images, record new    *)
(* images, mark footprints), second pass (tracked face and cursor, blank    *)
(* runs, EraseChars when > 4), image pass, flip.  clear() and new(clear).   *)
(*                                                                          *)
(* Two switches document the two repairs made in /repo (fix: commits):      *)
(*   FixMarks  marks are reset at the END of frame() (the pinned code reset *)
(*             them at the start, which made clear()/new(clear=true) dead); *)
(*   FixWide   the cell covered by a visible wide character is normalised   *)
(*             in `front` to a zero-width continuation cell before diffing. *)
(*   FixDamage damage under a removed image does not override the Ignored   *)
(*             mark of an image of this frame (a hidden wide character was  *)
(*             painted into the new image's area and ate the cell right of  *)
(*             it).                                                          *)
(* With all TRUE the model is the current /repo; with any FALSE it is the   *)
(* pinned code and TLC produces the counterexamples of DESIGN.md 7 / 11.    *)
EXTENDS RenderSpec, TLC

CONSTANTS FixMarks, FixWide, FixDamage

DefGrid == [r \in Rows |-> [c \in Cols |-> Def]]
MarkGrid(m) == [r \in Rows |-> [c \in Cols |-> m]]      \* "E"mpty "I"gnored "D"amaged
\* continuation cell: a zero-width character cell
Cont == [k |-> "ch", c |-> 99, w |-> 0, f |-> 0, i |-> 0]

FillMarks(marks, S, m) == [r \in Rows |-> [c \in Cols |-> IF <<r, c>> \in S THEN m ELSE marks[r][c]]]
FillMarksKeep(marks, S, m) == [r \in Rows |-> [c \in Cols |-> IF <<r, c>> \in S /\ (~FixDamage \/ marks[r][c] # "I") THEN m ELSE marks[r][c]]]
PosOf(idx) == <<((idx - 1) \div W) + 1, ((idx - 1) % W) + 1>>

\* ---- first pass (render.rs "First pass"): acc = [marks, cmds, images, front, shadow]
RECURSIVE Pass1(_, _, _)
Pass1(back, idx, acc) ==
  IF idx > H * W THEN acc
  ELSE LET p == PosOf(idx)  r == p[1]  c == p[2]
           old == back[r][c]
           sh0 == IF c = 1 THEN 0 ELSE acc.shadow
           new0 == acc.front[r][c]
           hidden == FixWide /\ sh0 > 0
           new == IF hidden THEN Cont ELSE new0
           sh1 == IF ~FixWide THEN 0
                  ELSE IF hidden THEN sh0 - 1
                  ELSE IF IsWide(new0) /\ acc.marks[r][c] # "I" THEN 1 ELSE 0
           a0 == [acc EXCEPT !.shadow = sh1, !.front[r][c] = new]
       IN IF old = new /\ a0.marks[r][c] # "D"
          THEN Pass1(back, idx + 1,
                 IF IsImg(new) THEN [a0 EXCEPT !.marks = FillMarks(@, Foot(new.i, r, c), "I")] ELSE a0)
          ELSE LET a1 == IF IsImg(old)
                         THEN [a0 EXCEPT !.cmds = Append(@, [t |-> "imgerase", i |-> old.i, r |-> r, c |-> c]),
                                         !.marks = FillMarksKeep(@, Foot(old.i, r, c), "D")]
                         ELSE a0
                   a2 == IF IsImg(new)
                         THEN [a1 EXCEPT !.images = Append(@, [r |-> r, c |-> c, f |-> new.f, i |-> new.i]),
                                         !.marks = FillMarks(@, Foot(new.i, r, c), "I")]
                         ELSE a1
               IN Pass1(back, idx + 1, a2)

RECURSIVE Repeats(_, _, _, _, _)
Repeats(front, marks, r, c, new) ==
  IF c > W THEN 0
  ELSE IF front[r][c] = new /\ marks[r][c] # "I" THEN 1 + Repeats(front, marks, r, c + 1, new) ELSE 0

RECURSIVE Spaces(_)
Spaces(n) == IF n = 0 THEN <<>> ELSE <<[t |-> "ch", c |-> Sp, w |-> 1]>> \o Spaces(n - 1)

\* ---- second pass: st = [r, c, face, cur, cmds]
RECURSIVE Pass2(_, _, _, _)
Pass2(front, back, marks, st) ==
  IF st.r > H THEN st.cmds
  ELSE IF st.c > W THEN Pass2(front, back, marks, [st EXCEPT !.r = @ + 1, !.c = 1])
  ELSE LET new == front[st.r][st.c]  old == back[st.r][st.c]  m == marks[st.r][st.c]
       IN IF (m # "D" /\ (m = "I" \/ old = new)) \/ new.k # "ch" \/ new.w = 0
          THEN Pass2(front, back, marks, [st EXCEPT !.c = @ + 1])
          ELSE LET s1 == IF st.face # new.f THEN [st EXCEPT !.face = new.f, !.cmds = Append(@, [t |-> "face", f |-> new.f])] ELSE st
                   s2 == IF s1.cur # <<s1.r, s1.c>> THEN [s1 EXCEPT !.cur = <<s1.r, s1.c>>, !.cmds = Append(@, [t |-> "to", r |-> s1.r, c |-> s1.c])] ELSE s1
               IN IF new.c = Sp
                  THEN LET n == 1 + Repeats(front, marks, s2.r, s2.c + 1, new)
                       IN IF n > 4
                          THEN Pass2(front, back, marks, [s2 EXCEPT !.c = @ + n, !.cmds = Append(@, [t |-> "ech", n |-> n])])
                          ELSE Pass2(front, back, marks, [s2 EXCEPT !.c = @ + n, !.cur = <<s2.cur[1], s2.cur[2] + n>>, !.cmds = @ \o Spaces(n)])
                  ELSE Pass2(front, back, marks, [s2 EXCEPT !.c = @ + new.w, !.cur = <<s2.cur[1], s2.cur[2] + new.w>>,
                                                           !.cmds = Append(@, [t |-> "ch", c |-> new.c, w |-> new.w])])

RECURSIVE EraseRows(_, _, _, _)
EraseRows(r, n, c, w) == IF n = 0 THEN <<>> ELSE <<[t |-> "to", r |-> r, c |-> c], [t |-> "ech", n |-> w]>> \o EraseRows(r + 1, n - 1, c, w)

\* ---- image pass
RECURSIVE Pass3(_, _)
Pass3(images, i) ==
  IF i > Len(images) THEN <<>>
  ELSE LET im == images[i] IN
       <<[t |-> "face", f |-> im.f]>> \o EraseRows(im.r, ImgH(im.i), im.c, ImgW(im.i))
       \o <<[t |-> "to", r |-> im.r, c |-> im.c], [t |-> "img", i |-> im.i, r |-> im.r, c |-> im.c]>>
       \o Pass3(images, i + 1)

\* frame(): result = [cmds, back] (back' = the front buffer after pass 1)
FrameRun(front, back, marks0) ==
  LET m0 == IF FixMarks THEN marks0 ELSE MarkGrid("E")
      p1 == Pass1(back, 1, [marks |-> m0, cmds |-> <<>>, images |-> <<>>, front |-> front, shadow |-> 0])
      c2 == Pass2(p1.front, back, p1.marks, [r |-> 1, c |-> 1, face |-> (-9), cur |-> <<0, 0>>, cmds |-> <<>>])
  IN [cmds |-> p1.cmds \o c2 \o Pass3(p1.images, 1), back |-> p1.front]

\* clear(): erase every image the renderer believes is shown
ClearCmds(back) ==
  LET RECURSIVE go(_)
      go(idx) == IF idx > H * W THEN <<>>
                 ELSE LET p == PosOf(idx) cell == back[p[1]][p[2]] IN
                      (IF IsImg(cell) THEN <<[t |-> "imgerase", i |-> cell.i, r |-> p[1], c |-> p[2]]>> ELSE <<>>) \o go(idx + 1)
  IN go(1)

(***************************** system *****************************)
CONSTANTS Alphabet, AllowAmbiguous

VARIABLES screen,   \* the terminal (Screen.tla)
          back,     \* what the renderer believes the terminal shows
          marks,    \* per-cell marks carried into the next frame()
          last, has \* ghost: the surface of the last rendered frame
vars == <<screen, back, marks, last, has>>

Surfaces == { s \in [Rows -> [Cols -> Alphabet]] : InDomain(s) /\ (AllowAmbiguous \/ ~Ambiguous(s)) }

Init == screen = BlankScreen /\ back = DefGrid /\ marks = MarkGrid("E") /\ last = DefGrid /\ has = FALSE

Frame(s) ==
  LET fr == FrameRun(s, back, marks) IN
  /\ screen' = Run(screen, fr.cmds)
  /\ back' = fr.back
  /\ marks' = MarkGrid("E")
  /\ last' = s /\ has' = TRUE

\* clear(): the application declares the terminal's text content unknown
Clear ==
  /\ screen' = GarbageText(Run(screen, ClearCmds(back)))
  /\ back' = DefGrid /\ marks' = MarkGrid("D") /\ last' = DefGrid /\ has' = FALSE

\* TerminalRenderer::new(term, clear); a fresh renderer cannot know the
\* placements of its predecessor (run_render calls clear() first)
Recreate(clear) ==
  /\ screen.imgs = {}
  /\ screen' = IF clear THEN GarbageText(screen) ELSE screen
  /\ back' = DefGrid /\ marks' = MarkGrid(IF clear THEN "D" ELSE "E") /\ last' = DefGrid /\ has' = FALSE

\* surface().clear() without frame(): the front buffer is reset, nothing is
\* sent and nothing the renderer believes changes
SkipFrame == UNCHANGED vars

Next == \/ \E s \in Surfaces : Frame(s)
        \/ Clear
        \/ Recreate(TRUE)
        \/ SkipFrame

\* C01, first sentence
Shown == has => Matches(screen, last)
\* C01, second sentence: same as repainting from scratch on a blank terminal
FromScratch(s) == Run(BlankScreen, FrameRun(s, DefGrid, MarkGrid("D")).cmds)
SameAsScratch == has => SameShown(screen, FromScratch(last))
\* a non-clearing re-creation is only sound on a screen that shows nothing;
\* it is not part of Next (the property does not quantify over it)
=============================================================================
