---------------------------- MODULE RenderLoop ----------------------------
(* Terminal::run_render (src/terminal.rs) composed with the renderer model  *)
(* and a lossy output queue: every loop iteration the handler draws a       *)
(* surface, the frame's commands are enqueued as ONE flush-delimited chunk  *)
(* (sync-on, frame, sync-off), the tty executes chunks in order, and when   *)
(* too many chunks are pending the loop drops the unstarted ones and calls  *)
(* clear().  C01 must hold at the terminal: once the queue has drained      *)
(* after a rendered frame the screen shows that frame's surface.            *)
(*                                                                          *)
(* FixClearKeepsFront documents the repair in /repo: clear() no longer      *)
(* resets the surface being drawn (the pinned clear() wiped the frame the   *)
(* handler had just drawn, so the frame after a drop was rendered blank).   *)
EXTENDS RenderImpl

CONSTANTS FixClearKeepsFront, Threshold, MaxQ

VARIABLES q,        \* pending chunks, each a sequence of commands
          started   \* the front chunk is partly transmitted (cannot be dropped)
lvars == <<screen, back, marks, last, has, q, started>>

LInit == Init /\ q = <<>> /\ started = FALSE

\* frames_drop(): discard whole chunks that have not started transmission
Dropped == IF started /\ q # <<>> THEN <<q[1]>> ELSE <<>>

\* one iteration of the loop that renders a frame for surface s
Iterate(s) ==
  LET over == Len(q) > Threshold
      q0 == IF over THEN Dropped ELSE q
      \* state of the renderer when frame() runs, and commands of clear()
      clr == IF over THEN ClearCmds(back) ELSE <<>>
      b0 == IF over THEN DefGrid ELSE back
      m0 == IF over THEN MarkGrid("D") ELSE marks
      \* pinned clear() also wiped what the handler had just drawn
      front == IF over /\ ~FixClearKeepsFront THEN DefGrid ELSE s
      fr == FrameRun(front, b0, m0)
  IN /\ Len(q) < MaxQ
     /\ q' = Append(q0, clr \o fr.cmds)
     /\ back' = fr.back /\ marks' = MarkGrid("E")
     /\ last' = s /\ has' = TRUE
     /\ UNCHANGED <<screen, started>>

\* handler returns WaitNoFrame: nothing rendered
NoFrame == UNCHANGED lvars

Start == q # <<>> /\ ~started /\ started' = TRUE /\ UNCHANGED <<screen, back, marks, last, has, q>>
Deliver ==
  /\ q # <<>>
  /\ screen' = Run(screen, q[1])
  /\ q' = Tail(q) /\ started' = FALSE
  /\ UNCHANGED <<back, marks, last, has>>

LNext == (\E s \in Surfaces : Iterate(s)) \/ Start \/ Deliver \/ NoFrame

\* C01 at the terminal
ShownWhenDrained == (has /\ q = <<>>) => Matches(screen, last)
=============================================================================
