CONSTANTS H = 1 W = 3 FixMarks = TRUE FixWide = FALSE FixDamage = TRUE AllowAmbiguous = FALSE
Alphabet <- AFull
INIT Init
NEXT Next
INVARIANT Shown

CHECK_DEADLOCK FALSE
