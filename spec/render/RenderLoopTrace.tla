-------------------------- MODULE RenderLoopTrace --------------------------
(* Judge for recordings of the real Terminal::run_render driven over a      *)
(* scripted terminal with a lossy frame queue (harness c01-loop).  The      *)
(* recorded events are the actions of RenderLoop: chunk (a flush-delimited  *)
(* chunk was enqueued), frame (it carried a rendered frame for `surf`),     *)
(* deliver n, start, drop, resize, drain.  Whenever the queue is drained    *)
(* after a rendered frame the screen must show that frame's surface.        *)
EXTENDS RenderTrace

KnownL(xs) == \A j \in 1..Len(xs) : xs[j][1] \in (0..5) \cup {8} /\ xs[j][2] # -7

RECURSIVE RunChunks(_, _, _)
RunChunks(s, q, n) == IF n = 0 \/ q = <<>> THEN [s |-> s, q |-> q] ELSE RunChunks(Run(s, q[1]), Tail(q), n - 1)

\* "loop-stale-placement": every text cell is right and the only difference
\* is placements left on the terminal that the last frame does not contain,
\* none of which the renderer still knew at the most recent drop (it had
\* replaced them in frames that were dropped: known finding
\* C01-stale-image-after-frame-drop).  A stale placement the renderer DID know
\* at the most recent drop was erased by the forced clear - if it is still
\* there, that erase was lost: "loop-stale-placement-after-clear".
Check(i, st) ==
  IF st.has /\ st.q = <<>> /\ ~Ambiguous(st.last) /\ ~Matches(st.s, st.last)
  THEN LET cellsOk == Matches([st.s EXCEPT !.imgs = Placements(st.last)], st.last)
           extraOnly == Placements(st.last) \subseteq st.s.imgs
           stale == st.s.imgs \ Placements(st.last)
       IN <<[step |-> i, why |-> IF cellsOk /\ extraOnly THEN (IF stale \cap st.cleared = {} THEN "loop-stale-placement" ELSE "loop-stale-placement-after-clear")
                                 ELSE "loop-absolute", amb |-> st.dropped]>>
  ELSE <<>>

RECURSIVE WalkL(_, _, _, _)
WalkL(alpha, ev, i, st) ==
  IF i > Len(ev) THEN <<>>
  ELSE LET e == ev[i] IN
    IF e.e = "chunk" THEN
       IF ~KnownL(e.cmds) THEN <<[step |-> i, why |-> "unknown-command", amb |-> FALSE]>>
       ELSE WalkL(alpha, ev, i + 1, [st EXCEPT !.q = Append(@, Cmds(e.cmds))])
    ELSE IF e.e = "frame" THEN
       LET st1 == [st EXCEPT !.last = Surf(alpha, e.surf), !.has = TRUE] IN Check(i, st1) \o WalkL(alpha, ev, i + 1, st1)
    ELSE IF e.e = "deliver" THEN
       LET r == RunChunks(st.s, st.q, e.n)
           st1 == [st EXCEPT !.s = r.s, !.q = r.q, !.started = FALSE]
       IN Check(i, st1) \o WalkL(alpha, ev, i + 1, st1)
    ELSE IF e.e = "drain" THEN
       LET r == RunChunks(st.s, st.q, Len(st.q))
           st1 == [st EXCEPT !.s = r.s, !.q = r.q, !.started = FALSE]
       IN Check(i, st1) \o WalkL(alpha, ev, i + 1, st1)
    ELSE IF e.e = "start" THEN WalkL(alpha, ev, i + 1, [st EXCEPT !.started = TRUE])
    ELSE IF e.e = "drop" THEN
       WalkL(alpha, ev, i + 1, [st EXCEPT !.q = IF st.started /\ st.q # <<>> THEN <<st.q[1]>> ELSE <<>>, !.dropped = TRUE,
                                          !.cleared = IF st.has THEN Placements(st.last) ELSE {}])
    ELSE IF e.e = "resize" THEN
       \* a resized terminal shows unknown text until repainted; a frame is shown again only after the next one
       WalkL(alpha, ev, i + 1, [st EXCEPT !.s = GarbageText(@), !.has = FALSE])
    ELSE <<[step |-> i, why |-> "unknown-event", amb |-> FALSE]>>

JudgeL(r) ==
  IF r.panic # "" THEN <<[step |-> 0, why |-> "panic", amb |-> FALSE]>>
  ELSE WalkL(r.alpha, r.ev, 1, [s |-> BlankScreen, q |-> <<>>, started |-> FALSE, last |-> DefGrid, has |-> FALSE, dropped |-> FALSE, cleared |-> {}])

VerdictsL == FlattenSeq([l \in 1..Len(Rec) |->
                LET v == JudgeL(Rec[l]) IN [j \in 1..Len(v) |-> [id |-> Rec[l].id, step |-> v[j].step, why |-> v[j].why, amb |-> v[j].amb]]])
=============================================================================
