CONSTANTS H = 2 W = 3 FixMarks = TRUE FixWide = TRUE FixDamage = TRUE AllowAmbiguous = FALSE
Alphabet <- AImg
INIT Init
NEXT Next
INVARIANT Shown
INVARIANT SameAsScratch
CHECK_DEADLOCK FALSE
