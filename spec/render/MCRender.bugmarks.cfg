CONSTANTS H = 1 W = 3 FixMarks = FALSE FixWide = TRUE FixDamage = TRUE AllowAmbiguous = FALSE
Alphabet <- AFull
INIT Init
NEXT Next
INVARIANT Shown

CHECK_DEADLOCK FALSE
