----------------------------- MODULE RenderRunGen -----------------------------
(* Targeted histories for the second pass of TerminalRenderer::frame (C01):   *)
(* a run of equal blank cells that meets the area of an image which stays on  *)
(* screen.  2 x 6 screen, a two-row image (2x1, or 2x2 where it fits) at      *)
(* column k of row 1; row 2 holds blanks of face b - also in the cells under  *)
(* the image - except one visible character at column j; the next frame       *)
(* blanks that character (a dirty blank run grows across or up to the image   *)
(* area, of every length 1..6: both the EraseChars and the per-cell branch),  *)
(* a third frame puts it back.  Every (k, image, b, j) is enumerated.         *)
(* Output: scripts for harness c01-replay (alphabet indices of c01::env).     *)
EXTENDS Integers, Sequences, FiniteSets, TLC, Json, IOUtils, SequencesExt
W == 6
\* alphabet indices: 0 blank face 0, 12 blank face 1, 2 blank face 2, 1 'a' face 1, 3 'b' face 0, 7 image 2x1 face 2, 8 image 2x2 face 0
Blanks == <<0, 12, 2>>
Imgs == << <<7, 1>>, <<8, 2>> >>          \* <<index, width in cells>>
Row1(k, img, b) == [c \in 1..W |-> IF c = k THEN img ELSE b]
Row2(j, ch, b) == [c \in 1..W |-> IF c = j THEN ch ELSE b]
Script(k, im, b, j, ch) ==
  LET r1 == Row1(k, im[1], b)
      covered == { c \in 1..W : c >= k /\ c < k + im[2] }
  IN [h |-> 2, w |-> W, amb |-> FALSE,
      ops |-> << [op |-> "frame", surf |-> <<r1, Row2(j, ch, b)>>],
                 [op |-> "frame", surf |-> <<r1, Row2(j, b, b)>>],
                 [op |-> "frame", surf |-> <<r1, Row2(j, ch, b)>>],
                 [op |-> "frame", surf |-> <<[c \in 1..W |-> b], Row2(j, b, b)>>] >>]
Vec0 == SetToSeq({ <<k, i, bi, j, ch>> \in (1..W) \X (1..2) \X (1..3) \X (1..W) \X {1, 3} :
                     /\ k + Imgs[i][2] - 1 <= W                       \* the image fits
                     /\ ~(j >= k /\ j < k + Imgs[i][2]) })            \* the character is visible
Vec == [n \in 1..Len(Vec0) |-> [id |-> 5000000 + n] @@ Script(Vec0[n][1], Imgs[Vec0[n][2]], Blanks[Vec0[n][3]], Vec0[n][4], Vec0[n][5])]
ASSUME ndJsonSerialize(IOEnv.OUT, Vec)
ASSUME PrintT(<<"GENERATED", Len(Vec)>>)
VARIABLE x
Init == x = 0
Next == UNCHANGED x
=============================================================================
