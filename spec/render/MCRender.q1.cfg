CONSTANTS H = 1 W = 3 FixMarks = TRUE FixWide = TRUE FixDamage = TRUE AllowAmbiguous = FALSE
Alphabet <- AFull
INIT Init
NEXT Next
INVARIANT Shown
INVARIANT SameAsScratch
CHECK_DEADLOCK FALSE
