------------------------------ MODULE Screen ------------------------------
(* A character-cell terminal screen that EXECUTES the commands the renderer *)
(* issues (property C01: "a terminal that executes exactly the commands     *)
(* the renderer issued").  Terminal side only - nothing here knows how the  *)
(* renderer works.                                                          *)
(*                                                                          *)
(* Screen cell: [c, f, w] - character id c (0 = space, > 0 printable),      *)
(* face id f, width w.  Negative character ids are sentinels:               *)
(*   CONT  right half of a wide character                                   *)
(*   ORPH  what is left of a wide character after its other half was        *)
(*         overwritten: a blank whose face is unspecified (terminals differ)*)
(*   GARB  content unknown to the application (after a forced clear)        *)
(* Image placements are a set of <<image id, row, col>>.  Rows and columns  *)
(* are 1-based here (the harness logs CursorTo(Position) + 1).              *)
EXTENDS Integers, Sequences, FiniteSets

CONSTANTS H, W

Rows == 1..H
Cols == 1..W
Pos  == Rows \X Cols
Sp   == 0
CONT == -1
ORPH == -2
GARB == -3

MinI(a, b) == IF a < b THEN a ELSE b

\* image geometry in cells, by image id (shared with the harness):
\*   1: 1x2   2: 2x1   3: 2x2   >= 10: rasterised glyph of 1x2 cells
ImgH(i) == IF i \in {2, 3} THEN 2 ELSE 1
ImgW(i) == IF i \in {1, 3} \/ i >= 10 THEN 2 ELSE 1
Foot(i, r, c) == { p \in Pos : p[1] >= r /\ p[1] < r + ImgH(i) /\ p[2] >= c /\ p[2] < c + ImgW(i) }

SBlank(f) == [c |-> Sp, f |-> f, w |-> 1]
SGarb == [c |-> GARB, f |-> -1, w |-> 1]
SOrph == [c |-> ORPH, f |-> -1, w |-> 1]
SCont == [c |-> CONT, f |-> -1, w |-> 1]

BlankScreen == [grid |-> [r \in Rows |-> [c \in Cols |-> SBlank(0)]], imgs |-> {}, r |-> 1, k |-> 1, f |-> 0]
\* "regardless of what the terminal showed before": every text cell unknown
GarbageText(s) == [s EXCEPT !.grid = [r \in Rows |-> [c \in Cols |-> SGarb]]]

\* writing columns a..b of a row orphans the partner halves of wide
\* characters that straddle the edges of the written span
Orphan(row, a, b) ==
  [k \in Cols |->
     IF k = a - 1 /\ a >= 2 /\ row[a].c = CONT THEN SOrph
     ELSE IF k = b + 1 /\ b + 1 <= W /\ row[b].w = 2 /\ row[k].c = CONT THEN SOrph
     ELSE row[k]]

\* One command.  cmd.t in {"face","to","ch","ech","img","imgerase"}.
Exec(s, cmd) ==
  CASE cmd.t = "face" -> [s EXCEPT !.f = cmd.f]
    [] cmd.t = "to"   -> [s EXCEPT !.r = MinI(cmd.r, H), !.k = MinI(cmd.c, W)]
    [] cmd.t = "ch"   ->
         \* column W + 1 is the pending-wrap position (autowrap on)
         LET wrap == s.k > W \/ (cmd.w = 2 /\ s.k + 1 > W)
             r == IF wrap THEN MinI(s.r + 1, H) ELSE s.r
             k == IF wrap THEN 1 ELSE s.k
             b == MinI(k + cmd.w - 1, W)
             row0 == Orphan(s.grid[r], k, b)
             row1 == [j \in Cols |-> IF j = k THEN [c |-> cmd.c, f |-> s.f, w |-> cmd.w]
                                      ELSE IF j = k + 1 /\ cmd.w = 2 THEN SCont ELSE row0[j]]
         IN [s EXCEPT !.grid[r] = row1, !.r = r, !.k = k + cmd.w]
    [] cmd.t = "ech"  ->
         \* ECH: erase n characters from the cursor, cursor does not move,
         \* clipped at the right margin, erased cells take the current face
         LET k == MinI(s.k, W)
             b == MinI(k + cmd.n - 1, W)
             row0 == Orphan(s.grid[s.r], k, b)
             row1 == [j \in Cols |-> IF j >= k /\ j <= b THEN SBlank(s.f) ELSE row0[j]]
         IN IF cmd.n = 0 THEN s ELSE [s EXCEPT !.grid[s.r] = row1]
    [] cmd.t = "img"  -> [s EXCEPT !.imgs = @ \cup {<<cmd.i, cmd.r, cmd.c>>}]
    [] cmd.t = "imgerase" -> [s EXCEPT !.imgs = @ \ {<<cmd.i, cmd.r, cmd.c>>}]
    [] OTHER -> s     \* commands with no effect on cells (synchronised-output brackets)

RECURSIVE ExecAll(_, _, _)
ExecAll(s, cmds, i) == IF i > Len(cmds) THEN s ELSE ExecAll(Exec(s, cmds[i]), cmds, i + 1)
Run(s, cmds) == ExecAll(s, cmds, 1)
=============================================================================
