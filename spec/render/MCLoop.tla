---- MODULE MCLoop ----
EXTENDS RenderLoop
Ch(c, w, f) == [k |-> "ch", c |-> c, w |-> w, f |-> f, i |-> 0]
Img(i, f) == [k |-> "img", c |-> 0, w |-> 0, f |-> f, i |-> i]
AText == { Def, Ch(1, 1, 1), Ch(9, 2, 0) }
AImgOnly == { Def, Ch(1, 1, 1), Img(1, 1) }
====
