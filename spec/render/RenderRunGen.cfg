INIT Init
NEXT Next
CHECK_DEADLOCK FALSE
