CONSTANTS Sigma = {1, 2} MaxOps = 4 MaxStr = 5 TagOps = 2 FixOptional = TRUE
INIT Init
NEXT Next
INVARIANTS Language TerminalSound Tagged
CHECK_DEADLOCK FALSE
