CONSTANTS Sigma = {1, 2} MaxOps = 3 MaxStr = 4 TagOps = 1 FixOptional = TRUE
INIT Init
NEXT Next

CHECK_DEADLOCK FALSE
