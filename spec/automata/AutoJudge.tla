------------------------------ MODULE AutoJudge ------------------------------
(* Judges recordings of the real NFA combinators + compile() + DFA walk     *)
(* (harness c15-replay) against Regex.tla: for every expression and every   *)
(* string the compiled automaton accepts iff the expression matches, a dead *)
(* transition is reported exactly when no extension can match... (only the  *)
(* sound direction: dead => no match), tags are those of the matching       *)
(* alternatives (also when the tagged choice is nested before a             *)
(* continuation and the whole expression does not accept yet), terminal =>  *)
(* no recorded extension matches, bytes outside the expression's alphabet   *)
(* are dead from every visited state.                                       *)
EXTENDS Regex, TLC, Json, IOUtils, SequencesExt
Rec == ndJsonDeserialize(IOEnv.TRACE)
N(b) == [i \in 1..Len(b) |-> b[i]]
\* JSON expression -> Regex expression (a, b are records or 0)
RECURSIVE E(_)
E(j) == IF j.op = "lit" THEN Lit(N(j.s))
        ELSE IF j.op \in {"opt", "some", "many"} THEN Un(j.op, E(j.a))
        ELSE Bin(j.op, E(j.a), E(j.b))
ToSetOf(s) == { s[i] : i \in 1..Len(s) }
\* res entry: <<w, alive, acc, term, tags>>
EntryVerdict(r, e, f, x, all) ==
  LET w == N(x[1]) alive == x[2] = 1 acc == x[3] = 1 term == x[4] = 1 tags == ToSetOf(x[5])
      g == E(r.g)
      \* nested: (e{1} | f{2}) g - the whole expression matches w iff some prefix is matched by an alternative and the rest by g;
      \* the tags after w are still those of the alternatives that match w itself
      m == IF r.nested THEN \E i \in 0..Len(w) : (M(e, SubSeq(w, 1, i)) \/ M(f, SubSeq(w, 1, i))) /\ M(g, SubSeq(w, i + 1, Len(w)))
           ELSE IF r.tagged THEN M(e, w) \/ M(f, w) ELSE M(e, w)
  IN IF ~alive /\ (acc \/ term) THEN "dead-but-flagged"
     ELSE IF acc # m THEN "language"
     ELSE IF r.tagged /\ alive /\ tags # ((IF M(e, w) THEN {1} ELSE {}) \cup (IF M(f, w) THEN {2} ELSE {})) THEN "tags"
     ELSE IF term /\ \E y \in all : Len(y[1]) > Len(w) /\ SubSeq(N(y[1]), 1, Len(w)) = w /\ y[3] = 1 THEN "terminal-but-extensible"
     ELSE "ok"
Verdict(r) ==
  IF r.outcome # "ok" THEN [why |-> r.outcome, at |-> 0]
  ELSE IF r.stray # 0 THEN [why |-> "stray-transition", at |-> 0]
  ELSE LET e == E(r.e) f == E(r.f) all == ToSetOf(r.res)
           bad == SelectSeq([i \in 1..Len(r.res) |-> [why |-> EntryVerdict(r, e, f, r.res[i], all), at |-> i]], LAMBDA v : v.why # "ok")
       IN IF bad = <<>> THEN [why |-> "ok", at |-> 0] ELSE bad[1]
Bad == SelectSeq([i \in 1..Len(Rec) |-> [id |-> Rec[i].id] @@ Verdict(Rec[i])], LAMBDA v : v.why # "ok")
ASSUME ndJsonSerialize(IOEnv.OUT, Bad)
ASSUME PrintT(<<"JUDGED", Len(Rec), Len(Bad)>>)
VARIABLE x
Init == x = 0
Next == UNCHANGED x
=============================================================================
