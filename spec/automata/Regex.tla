------------------------------- MODULE Regex -------------------------------
(* Property-level specification of C15: regular expressions over a byte     *)
(* alphabet built from the combinators of src/automata.rs, and their        *)
(* language by structural recursion.  Expression = record                   *)
(* [op, s, a, b]: "lit" (s = byte string), "seq", "alt", "opt", "some",     *)
(* "many"; unused fields are 0 / <<>> so that every record has one shape.   *)
EXTENDS Integers, Sequences, FiniteSets

Lit(s) == [op |-> "lit", s |-> s, a |-> 0, b |-> 0]
Un(o, x) == [op |-> o, s |-> <<>>, a |-> x, b |-> 0]
Bin(o, x, y) == [op |-> o, s |-> <<>>, a |-> x, b |-> y]

\* Matches(e, w): w is in the language of e
RECURSIVE M(_, _)
M(e, w) ==
  CASE e.op = "lit" -> w = e.s
    [] e.op = "seq" -> \E i \in 0..Len(w) : M(e.a, SubSeq(w, 1, i)) /\ M(e.b, SubSeq(w, i + 1, Len(w)))
    [] e.op = "alt" -> M(e.a, w) \/ M(e.b, w)
    [] e.op = "opt" -> w = <<>> \/ M(e.a, w)
    [] e.op = "some" -> IF w = <<>> THEN M(e.a, w)
                        ELSE \E i \in 1..Len(w) : M(e.a, SubSeq(w, 1, i)) /\ (i = Len(w) \/ M(e, SubSeq(w, i + 1, Len(w))))
    [] e.op = "many" -> w = <<>> \/ M(Un("some", e.a), w)

\* all expressions with exactly n operators over single-symbol literals
RECURSIVE Ex(_, _)
Ex(n, Sigma) == IF n = 0 THEN { Lit(<<c>>) : c \in Sigma }
         ELSE { Un(o, x) : o \in {"opt", "some", "many"}, x \in Ex(n - 1, Sigma) }
              \cup UNION { { Bin(o, x, y) : o \in {"seq", "alt"}, x \in Ex(i, Sigma), y \in Ex(n - 1 - i, Sigma) } : i \in 0..(n - 1) }
Strs(Sigma, k) == UNION { [1..n -> Sigma] : n \in 0..k }
=============================================================================
