------------------------------ MODULE Automata ------------------------------
(* Code-shaped model of src/automata.rs: Thompson-style combinators exactly *)
(* as implemented - which of them allocate fresh states (choice, many, and  *)
(* after the repair optional) and which add epsilon edges IN PLACE (some;   *)
(* the pinned optional) -, state renumbering on merge, epsilon closure,     *)
(* power-set run, accepting / terminal / tags of the reached state set.     *)
(*                                                                          *)
(* FixOptional = TRUE is the current /repo (fix: commit); FALSE is the      *)
(* pinned code, for which TLC reports (x+ y)? accepting "x" and (x y+)?     *)
(* accepting "y".                                                           *)
EXTENDS Regex, TLC

CONSTANT FixOptional

\* nfa = [n, start, stop, edges (set of <<from, sym, to>>), eps (set of <<from, to>>), tags (set of <<state, tag>>)]
Shift(nfa, k) == [n |-> nfa.n, start |-> nfa.start + k, stop |-> nfa.stop + k,
                  edges |-> { <<t[1] + k, t[2], t[3] + k>> : t \in nfa.edges },
                  eps |-> { <<t[1] + k, t[2] + k>> : t \in nfa.eps },
                  tags |-> { <<t[1] + k, t[2]>> : t \in nfa.tags }]
FromStr(s) == [n |-> Len(s) + 1, start |-> 0, stop |-> Len(s),
               edges |-> { <<i - 1, s[i], i>> : i \in 1..Len(s) }, eps |-> {}, tags |-> {}]
\* sequence: renumber, connect stop of x to start of y
Sequence2(x, y) == LET y1 == Shift(y, x.n) IN
   [n |-> x.n + y.n, start |-> x.start, stop |-> y1.stop, edges |-> x.edges \cup y1.edges,
    eps |-> x.eps \cup y1.eps \cup {<<x.stop, y1.start>>}, tags |-> x.tags \cup y1.tags]
\* choice: fresh start 0 and stop 1
Choice2(x, y) == LET x1 == Shift(x, 2)  y1 == Shift(y, 2 + x.n) IN
   [n |-> 2 + x.n + y.n, start |-> 0, stop |-> 1, edges |-> x1.edges \cup y1.edges,
    eps |-> x1.eps \cup y1.eps \cup {<<0, x1.start>>, <<0, y1.start>>, <<x1.stop, 1>>, <<y1.stop, 1>>},
    tags |-> x1.tags \cup y1.tags]
\* some: epsilon edge stop -> start added in place
Some1(x) == [x EXCEPT !.eps = @ \cup {<<x.stop, x.start>>}]
\* optional
Optional1(x) ==
  IF FixOptional
  THEN LET x1 == Shift(x, 2) IN
       [n |-> 2 + x.n, start |-> 0, stop |-> 1, edges |-> x1.edges,
        eps |-> x1.eps \cup {<<0, x1.start>>, <<0, 1>>, <<x1.stop, 1>>}, tags |-> x1.tags]
  ELSE [x EXCEPT !.eps = @ \cup {<<x.start, x.stop>>}]
\* many: fresh start / stop and the loop edge
Many1(x) == LET x1 == Shift(x, 2) IN
   [n |-> 2 + x.n, start |-> 0, stop |-> 1, edges |-> x1.edges,
    eps |-> x1.eps \cup {<<0, x1.start>>, <<0, 1>>, <<x1.stop, 1>>, <<x1.stop, x1.start>>}, tags |-> x1.tags]
TagStop(x, t) == [x EXCEPT !.tags = @ \cup {<<x.stop, t>>}]

RECURSIVE Build(_)
Build(e) ==
  CASE e.op = "lit" -> FromStr(e.s)
    [] e.op = "seq" -> Sequence2(Build(e.a), Build(e.b))
    [] e.op = "alt" -> Choice2(Build(e.a), Build(e.b))
    [] e.op = "opt" -> Optional1(Build(e.a))
    [] e.op = "some" -> Some1(Build(e.a))
    [] e.op = "many" -> Many1(Build(e.a))

RECURSIVE Closure(_, _)
Closure(nfa, S) == LET S1 == S \cup { t[2] : t \in { u \in nfa.eps : u[1] \in S } } IN IF S1 = S THEN S ELSE Closure(nfa, S1)
Step(nfa, S, c) == Closure(nfa, { t[3] : t \in { u \in nfa.edges : u[1] \in S /\ u[2] = c } })
RECURSIVE Run(_, _, _, _)
\* the DFA state (a set of NFA states) after w; {} = dead transition
Run(nfa, S, w, i) == IF i > Len(w) \/ S = {} THEN S ELSE Run(nfa, Step(nfa, S, w[i]), w, i + 1)
After(nfa, w) == Run(nfa, Closure(nfa, {nfa.start}), w, 1)
Accepts(nfa, w) == nfa.stop \in After(nfa, w)
TagsAfter(nfa, w) == { t[2] : t \in { u \in nfa.tags : u[1] \in After(nfa, w) } }
\* terminal: alive and no outgoing symbol edge
TerminalAfter(nfa, w) == LET S == After(nfa, w) IN S # {} /\ ~ \E u \in nfa.edges : u[1] \in S
=============================================================================
