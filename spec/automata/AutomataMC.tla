----------------------------- MODULE AutomataMC -----------------------------
(* Exhaustive check Automata => Regex: every expression with at most MaxOps *)
(* operators over Sigma (one state per expression), against every string of *)
(* length <= MaxStr.  Also tagged two-way choices of all pairs of           *)
(* expressions with <= TagOps operators.                                    *)
EXTENDS Automata

CONSTANTS Sigma, MaxOps, MaxStr, TagOps

AllEx == UNION { Ex(n, Sigma) : n \in 0..MaxOps }
TagEx == UNION { Ex(n, Sigma) : n \in 0..TagOps }
S == Strs(Sigma, MaxStr)

VARIABLES e, f, tagged  \* ~tagged: plain expression e; tagged: choice of e (tag 1) and f (tag 2)
vars == <<e, f, tagged>>
Init == \/ e \in AllEx /\ f = Lit(<<1>>) /\ tagged = FALSE
        \/ e \in TagEx /\ f \in TagEx /\ tagged = TRUE
Next == UNCHANGED vars

\* accepts exactly the language
Language == ~tagged => LET nfa == Build(e) IN \A w \in S : Accepts(nfa, w) <=> M(e, w)
\* terminal only if no byte can extend the match (checked for extensions within the bound)
TerminalSound == ~tagged => LET nfa == Build(e) IN
   \A w \in S : TerminalAfter(nfa, w) => ~ \E x \in S : Len(x) > Len(w) /\ SubSeq(x, 1, Len(w)) = w /\ M(e, x)
\* tags after w are exactly the alternatives that match w
Tagged == tagged => LET nfa == Choice2(TagStop(Build(e), 1), TagStop(Build(f), 2)) IN
   \A w \in S : TagsAfter(nfa, w) = (IF M(e, w) THEN {1} ELSE {}) \cup (IF M(f, w) THEN {2} ELSE {})
=============================================================================
