------------------------------- MODULE AutoGen -------------------------------
(* Replay vectors for the real NFA/DFA: the expressions AutomataMC checks.  *)
EXTENDS AutomataMC, Json, IOUtils, SequencesExt
Plain == SetToSeq({ [e |-> x, f |-> Lit(<<1>>), g |-> Lit(<<1>>), tagged |-> FALSE, nested |-> FALSE] : x \in AllEx })
Tag == SetToSeq({ [e |-> x, f |-> y, g |-> Lit(<<1>>), tagged |-> TRUE, nested |-> FALSE] : x \in TagEx, y \in TagEx })
\* a tagged choice nested before a non-nullable continuation: (e{1} | f{2}) g
Sfx == { Lit(<<1>>), Lit(<<2>>), Lit(<<1, 2>>) }
Nested == SetToSeq({ [e |-> x, f |-> y, g |-> z, tagged |-> TRUE, nested |-> TRUE] : x \in TagEx, y \in TagEx, z \in Sfx })
ASSUME ndJsonSerialize(IOEnv.OUT, Plain \o Tag \o Nested)
ASSUME PrintT(<<"GENERATED", Len(Plain) + Len(Tag) + Len(Nested)>>)
=============================================================================
