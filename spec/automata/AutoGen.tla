------------------------------- MODULE AutoGen -------------------------------
(* Replay vectors for the real NFA/DFA: the expressions AutomataMC checks.  *)
EXTENDS AutomataMC, Json, IOUtils, SequencesExt
Plain == SetToSeq({ [e |-> x, f |-> Lit(<<1>>), tagged |-> FALSE] : x \in AllEx })
Tag == SetToSeq({ [e |-> x, f |-> y, tagged |-> TRUE] : x \in TagEx, y \in TagEx })
ASSUME ndJsonSerialize(IOEnv.OUT, Plain \o Tag)
ASSUME PrintT(<<"GENERATED", Len(Plain) + Len(Tag)>>)
=============================================================================
