------------------------------- MODULE AutoGen -------------------------------
(* Replay vectors for the real NFA/DFA: the expressions AutomataMC checks.  *)
EXTENDS AutomataMC, Json, IOUtils, SequencesExt
Plain == SetToSeq({ [e |-> x, f |-> Lit(<<1>>), g |-> Lit(<<1>>), tagged |-> FALSE, nested |-> FALSE] : x \in AllEx })
Tag == SetToSeq({ [e |-> x, f |-> y, g |-> Lit(<<1>>), tagged |-> TRUE, nested |-> FALSE] : x \in TagEx, y \in TagEx })
\* a tagged choice nested before a non-nullable continuation: (e{1} | f{2}) g
Sfx == { Lit(<<1>>), Lit(<<2>>), Lit(<<1, 2>>) }
Nested == SetToSeq({ [e |-> x, f |-> y, g |-> z, tagged |-> TRUE, nested |-> TRUE] : x \in TagEx, y \in TagEx, z \in Sfx })
\* the empty literal as an operand (a single-state automaton): in front of, between and behind other operands of a
\* sequence, inside a repeated group, and as an alternative
Small == UNION { Ex(n, Sigma) : n \in 0..1 }
Eps == Lit(<<>>)
EpsEx == { Bin("seq", x, Bin("seq", Eps, y)) : x \in Small, y \in Small }
         \cup { Bin("seq", Bin("seq", x, Eps), y) : x \in Small, y \in Small }
         \cup { Bin("seq", x, Eps) : x \in Small } \cup { Bin("seq", Eps, x) : x \in Small }
         \cup { Un(o, Bin("seq", x, Bin("seq", Eps, Un("opt", y)))) : o \in {"some", "many"}, x \in Small, y \in { Lit(<<c>>) : c \in Sigma } }
         \cup { Bin("alt", Eps, x) : x \in Small } \cup { Eps, Bin("seq", Eps, Eps) }
EpsVec == SetToSeq({ [e |-> x, f |-> Lit(<<1>>), g |-> Lit(<<1>>), tagged |-> FALSE, nested |-> FALSE] : x \in EpsEx })
ASSUME ndJsonSerialize(IOEnv.OUT, Plain \o Tag \o Nested \o EpsVec)
ASSUME PrintT(<<"GENERATED", Len(Plain) + Len(Tag) + Len(Nested) + Len(EpsVec)>>)
=============================================================================
