CONSTANTS Sigma = {1, 2} MaxOps = 3 MaxStr = 4 TagOps = 1 FixOptional = FALSE
INIT Init
NEXT Next
INVARIANTS Language TerminalSound Tagged
CHECK_DEADLOCK FALSE
