CONSTANTS Keys = {1, 2} MaxLen = 3 MaxRegs = 3 MaxFeed = 4
INIT Init
NEXT Next
CHECK_DEADLOCK FALSE
