CONSTANTS Keys = {1, 2} MaxLen = 4 MaxRegs = 2 MaxFeed = 6
INIT Init
NEXT Next
CHECK_DEADLOCK FALSE
