CONSTANTS Keys = {1, 2} MaxLen = 4 MaxRegs = 2 MaxFeed = 6
INIT Init
NEXT Next
INVARIANTS Refines IsPrefixFree
PROPERTY HandlerFires
CHECK_DEADLOCK FALSE
