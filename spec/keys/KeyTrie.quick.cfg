CONSTANTS Keys = {1, 2} MaxLen = 3 MaxRegs = 3 MaxFeed = 4
INIT Init
NEXT Next
INVARIANTS Refines IsPrefixFree
PROPERTY HandlerFires
CHECK_DEADLOCK FALSE
