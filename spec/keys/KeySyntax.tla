------------------------------ MODULE KeySyntax ------------------------------
(* The textual syntax of keys and chords as documented: modifiers joined by *)
(* '+' in the canonical order shift, alt, ctrl, super, hyper, meta, press,  *)
(* capslock, then the key name; chords are keys separated by a space.       *)
(* Generates (text, expected value) vectors for the parsers.                *)
EXTENDS Integers, Sequences, FiniteSets, TLC, Json, IOUtils, SequencesExt
Mods == << <<"shift", 1>>, <<"alt", 2>>, <<"ctrl", 4>>, <<"super", 8>>, <<"hyper", 16>>, <<"meta", 32>>, <<"press", 256>>, <<"capslock", 64>> >>
\* <<text accepted by the parser, canonical name>>
Names == { <<"left", "left">>, <<"up", "up">>, <<"right", "right">>, <<"down", "down">>, <<"pageup", "pageup">>, <<"pagedown", "pagedown">>,
           <<"end", "end">>, <<"home", "home">>, <<"tab", "tab">>, <<"enter", "enter">>, <<"esc", "esc">>, <<"escape", "esc">>, <<"space", "space">>,
           <<"backspace", "backspace">>, <<"delete", "delete">>, <<"insert", "insert">>, <<"f1", "f1">>, <<"f12", "f12">>, <<"f35", "f35">>, <<"f0", "f0">>,
           <<"a", "a">>, <<"z", "z">>, <<"0", "0">>, <<"9", "9">>, <<"`", "`">>, <<"-", "-">>, <<"=", "=">>, <<"[", "[">>, <<"]", "]">>, <<";", ";">>,
           <<",", ",">>, <<".", ".">>, <<"/", "/">>, <<"A", "a">>, <<"Left", "left">>, <<"F5", "f5">> }
RECURSIVE ModText(_, _)
ModText(S, i) == IF i > Len(Mods) THEN "" ELSE (IF i \in S THEN Mods[i][1] \o "+" ELSE "") \o ModText(S, i + 1)
RECURSIVE ModBits(_, _)
ModBits(S, i) == IF i > Len(Mods) THEN 0 ELSE (IF i \in S THEN Mods[i][2] ELSE 0) + ModBits(S, i + 1)
ModSets == { S \in SUBSET (1..Len(Mods)) : Cardinality(S) <= 3 } \cup {1..Len(Mods)}
KeyVec == { [kind |-> "key", mode |-> "expect", text |-> ModText(S, 1) \o n[1], exptext |-> ModText(S, 1) \o n[2], expname |-> n[2], expbits |-> ModBits(S, 1)] : S \in ModSets, n \in Names }
\* hostile token grammar: every concatenation of up to three tokens; only totality and the print/parse round trip are judged
Tokens == { "", "f", "f1", "f99999999999999999999", "f-1", "+", "ctrl", "CTRL", "ctrl+", "a", "b", " ", "  ", "shift+a", "a+b", "escape", "F12", "\"a\"", "None", "space", "tab", "enter", "x y", "+a",
            \* quoted characters whose printed form is the name of another key
            "\"\t\"", "\"\n\"", "\" \"", "\t", "\"",
            \* modifier words of the key model that the documented syntax does not have
            "numlock+", "numlock", "release+", "repeat+" }
Hostile == { [kind |-> "chord", mode |-> "free", text |-> a \o b \o c, exptext |-> "", expname |-> "", expbits |-> 0] : a \in Tokens, b \in Tokens, c \in Tokens }
\* every printable ASCII character as a key name: bare, double-quoted and single-quoted, alone and under modifiers,
\* as a key and as the second key of a chord; judged for totality and the print/parse round trip of whatever is accepted
Ascii == { " ", "!", "\"", "#", "$", "%", "&", "'", "(", ")", "*", "+", ",", "-", ".", "/", "0", "1", "2", "3", "4", "5", "6", "7", "8", "9", ":", ";", "<", "=", ">", "?", "@", "A", "B", "C", "D", "E", "F", "G", "H", "I", "J", "K", "L", "M", "N", "O", "P", "Q", "R", "S", "T", "U", "V", "W", "X", "Y", "Z", "[", "\\", "]", "^", "_", "`", "a", "b", "c", "d", "e", "f", "g", "h", "i", "j", "k", "l", "m", "n", "o", "p", "q", "r", "s", "t", "u", "v", "w", "x", "y", "z", "{", "|", "}", "~" }
AsciiForms(c) == { c, "\"" \o c \o "\"", "'" \o c \o "'" }
AsciiPrefix == { "", "ctrl+", "shift+alt+" }
AsciiVec == { [kind |-> "key", mode |-> "free", text |-> m \o f, exptext |-> "", expname |-> "", expbits |-> 0] : m \in AsciiPrefix, f \in UNION { AsciiForms(c) : c \in Ascii } }
      \cup { [kind |-> "chord", mode |-> "free", text |-> "a " \o m \o f, exptext |-> "", expname |-> "", expbits |-> 0] : m \in AsciiPrefix, f \in UNION { AsciiForms(c) : c \in Ascii } }
ASSUME ndJsonSerialize(IOEnv.OUT, SetToSeq(KeyVec) \o SetToSeq(Hostile) \o SetToSeq(AsciiVec))
ASSUME PrintT(<<"GENERATED", Cardinality(KeyVec), Cardinality(Hostile), Cardinality(AsciiVec)>>)
VARIABLE x
Init == x = 0
Next == UNCHANGED x
=============================================================================
