----------------------------- MODULE KeyMapSpec -----------------------------
(* Property-level specification of C18: a last-writer-wins, prefix-free     *)
(* dictionary of key chords.  bound = set of <<chord, value>>.              *)
EXTENDS Integers, Sequences, FiniteSets

IsPrefix(a, b) == Len(a) <= Len(b) /\ SubSeq(b, 1, Len(a)) = a
Strict(a, b) == IsPrefix(a, b) /\ Len(a) < Len(b)

\* registering c supersedes bound chords that are its prefixes or extensions
Register(bound, c, v) == { p \in bound : ~IsPrefix(p[1], c) /\ ~IsPrefix(c, p[1]) } \cup {<<c, v>>}
IsBound(bound, c) == \E p \in bound : p[1] = c
ValueOf(bound, c) == (CHOOSE p \in bound : p[1] = c)[2]
\* <<"S", v>> success | <<"C", 0>> more keys needed | <<"F", 0>> failure
Lookup(bound, c) ==
  IF IsBound(bound, c) THEN <<"S", ValueOf(bound, c)>>
  ELSE IF \E p \in bound : Strict(c, p[1]) THEN <<"C", 0>> ELSE <<"F", 0>>
\* a key that begins no bound chord
Unbound(bound, k) == ~ \E p \in bound : p[1][1] = k
\* a key that occurs in no bound chord at all: whatever was being typed is abandoned by it
Foreign(bound, k) == ~ \E p \in bound : \E i \in 1..Len(p[1]) : p[1][i] = k
PrefixFree(bound) == \A p, q \in bound : p # q => ~IsPrefix(p[1], q[1])
\* override merging: the other map's bindings registered one by one (it is prefix free, so order is irrelevant)
RECURSIVE RegisterAll(_, _)
RegisterAll(bound, S) == IF S = {} THEN bound ELSE LET p == CHOOSE p \in S : TRUE IN RegisterAll(Register(bound, p[1], p[2]), S \ {p})
=============================================================================
