------------------------------- MODULE KeyTrie -------------------------------
(* Code-shaped model of KeyMap (src/keys.rs:410-533): a trie of             *)
(* BTreeMap<Key, Result<value, sub-map>> with replace-on-register, the      *)
(* lookup fold, and the two-round lookup_state helper.  Checked to refine   *)
(* KeyMapSpec for every registration history, every lookup and every key    *)
(* sequence fed to the stateful matcher.                                    *)
EXTENDS KeyMapSpec, TLC
CONSTANTS Keys, MaxLen, MaxRegs, MaxFeed

Chords == UNION { [1..n -> Keys] : n \in 1..MaxLen }

\* node = function from keys to entries [leaf, v, m]
EmptyNode == << >>
Leaf(v) == [leaf |-> TRUE, v |-> v, m |-> EmptyNode]
Sub(m) == [leaf |-> FALSE, v |-> 0, m |-> m]
Put(node, k, e) == [x \in (DOMAIN node) \cup {k} |-> IF x = k THEN e ELSE node[x]]

RECURSIVE TrieRegister(_, _, _)
TrieRegister(node, c, v) ==
  IF Len(c) = 1 THEN Put(node, c[1], Leaf(v))
  ELSE LET k == c[1]
           next == IF k \in DOMAIN node /\ ~node[k].leaf THEN node[k].m ELSE EmptyNode
       IN Put(node, k, Sub(TrieRegister(next, Tail(c), v)))

RECURSIVE TrieLookup(_, _)
TrieLookup(node, c) ==
  IF c = <<>> THEN <<"C", 0>>
  ELSE IF c[1] \notin DOMAIN node THEN <<"F", 0>>
  ELSE LET e == node[c[1]] IN
       IF e.leaf THEN (IF Len(c) = 1 THEN <<"S", e.v>> ELSE <<"F", 0>>)
       ELSE TrieLookup(e.m, Tail(c))

RECURSIVE TrieEnum(_, _)
TrieEnum(node, pre) ==
  UNION { IF node[k].leaf THEN { <<Append(pre, k), node[k].v>> } ELSE TrieEnum(node[k].m, Append(pre, k)) : k \in DOMAIN node }

\* lookup_state: <<new state, fired value or 0>>
LookupState(node, st, key) ==
  LET c1 == Append(st, key)
      r1 == TrieLookup(node, c1)
  IN IF r1[1] = "C" THEN <<c1, 0>>
     ELSE IF r1[1] = "S" THEN <<<<>>, r1[2]>>
     ELSE LET c2 == <<key>>  r2 == TrieLookup(node, c2) IN
          IF r2[1] = "C" THEN <<c2, 0>>
          ELSE IF r2[1] = "S" THEN <<<<>>, r2[2]>>
          ELSE <<c2, 0>>

VARIABLES trie, bound, nreg, st, typed, clean, fed, lastFired
vars == <<trie, bound, nreg, st, typed, clean, fed, lastFired>>
Init == trie = EmptyNode /\ bound = {} /\ nreg = 0 /\ st = <<>> /\ typed = <<>> /\ clean = TRUE /\ fed = 0 /\ lastFired = 0

DoRegister == /\ nreg < MaxRegs /\ fed = 0
              /\ \E c \in Chords :
                   /\ trie' = TrieRegister(trie, c, nreg + 1)
                   /\ bound' = Register(bound, c, nreg + 1)
              /\ nreg' = nreg + 1 /\ UNCHANGED <<st, typed, clean, fed, lastFired>>

\* ghost: `clean` = the matcher is at a point from which the property speaks
\* (start, after a fire, after an unbound key); `typed` = keys since then.
Feed(k) ==
  LET r == LookupState(trie, st, k)
      t == Append(typed, k)
  IN /\ fed < MaxFeed
     /\ st' = r[1] /\ lastFired' = r[2] /\ fed' = fed + 1
     /\ IF r[2] # 0 THEN clean' = TRUE /\ typed' = <<>>
        ELSE IF clean /\ \E p \in bound : Strict(t, p[1]) THEN clean' = TRUE /\ typed' = t
        ELSE IF (clean /\ typed = <<>> /\ Unbound(bound, k)) \/ Foreign(bound, k) THEN clean' = TRUE /\ typed' = <<>>
        ELSE clean' = FALSE /\ typed' = <<>>
     /\ UNCHANGED <<trie, bound, nreg>>

Next == DoRegister \/ (\E k \in Keys : Feed(k))

Refines == /\ TrieEnum(trie, <<>>) = bound
           /\ \A c \in Chords : TrieLookup(trie, c) = Lookup(bound, c)
IsPrefixFree == PrefixFree(bound)
\* the stateful matcher fires a bound chord exactly at its last key when typed from a clean point,
\* and never fires a value that is not the chord just completed
HandlerFires == [][ \A k \in Keys : Feed(k) =>
                     LET t == Append(typed, k) IN
                     /\ (clean /\ IsBound(bound, t)) => lastFired' = ValueOf(bound, t)
                     /\ (clean /\ (\E p \in bound : Strict(t, p[1]))) => lastFired' = 0
                     /\ (clean /\ typed = <<>> /\ ~IsBound(bound, t)) => lastFired' = 0
                     /\ lastFired' # 0 => \E p \in bound : p[2] = lastFired' ]_vars
=============================================================================
