------------------------------- MODULE KeyJudge -------------------------------
(* Trace validation of the real KeyMap / KeyMapHandler (harness c18-replay) *)
(* against KeyMapSpec: after a registration history every lookup result,    *)
(* the enumeration, override merging of two maps, and what the stateful     *)
(* matcher fires for every key sequence.  Also judges the parser records.   *)
EXTENDS KeyMapSpec, TLC, Json, IOUtils, SequencesExt
Rec == ndJsonDeserialize(IOEnv.TRACE)
N(b) == [i \in 1..Len(b) |-> b[i]]
ToSetOf(s) == { s[i] : i \in 1..Len(s) }
RECURSIVE Fold(_, _, _)
Fold(bound, regs, i) == IF i > Len(regs) THEN bound ELSE Fold(Register(bound, N(regs[i]), i), regs, i + 1)
EnumSet(e) == { <<N(x[1]), x[2]>> : x \in ToSetOf(e) }
Kind(k) == IF k = "S" THEN "S" ELSE IF k = "C" THEN "C" ELSE "F"

\* handler: walk the fed keys with the ghost (clean, typed) of KeyTrie!Feed and check the fired values
RECURSIVE FeedOK(_, _, _, _, _)
FeedOK(bound, keys, fired, i, g) ==
  IF i > Len(keys) THEN TRUE
  ELSE LET k == keys[i] f == fired[i] t == Append(g.typed, k)
           ok == /\ (g.clean /\ IsBound(bound, t)) => f = ValueOf(bound, t)
                 /\ (g.clean /\ (\E p \in bound : Strict(t, p[1]))) => f = 0
                 /\ (g.clean /\ g.typed = <<>> /\ ~IsBound(bound, t)) => f = 0
                 /\ f # 0 => \E p \in bound : p[2] = f
           g1 == IF f # 0 THEN [clean |-> TRUE, typed |-> <<>>]
                 ELSE IF g.clean /\ \E p \in bound : Strict(t, p[1]) THEN [clean |-> TRUE, typed |-> t]
                 ELSE IF (g.clean /\ g.typed = <<>> /\ Unbound(bound, k)) \/ Foreign(bound, k) THEN [clean |-> TRUE, typed |-> <<>>]
                 ELSE [clean |-> FALSE, typed |-> <<>>]
       IN ok /\ FeedOK(bound, keys, fired, i + 1, g1)

MapVerdict(r) ==
  LET bound == Fold({}, r.regs, 1)
      a == Fold({}, SubSeq(r.regs, 1, r.split), 1)
      b0 == Fold({}, SubSeq(r.regs, r.split + 1, Len(r.regs)), 1)
      \* values of the second map were numbered from split + 1 by the harness
      b == { <<p[1], p[2] + r.split>> : p \in b0 }
  IN IF r.panic # "" THEN "panic"
     ELSE IF EnumSet(r.enum) # bound THEN "enumeration"
     ELSE IF Len(r.enum) # Cardinality(bound) THEN "enumeration-duplicates"
     ELSE IF \E i \in 1..Len(r.lookups) : LET x == r.lookups[i] l == Lookup(bound, N(x[1])) IN l[1] # x[2] \/ l[2] # x[3] THEN "lookup"
     ELSE IF EnumSet(r.ovenum) # RegisterAll(a, b) THEN "override"
     ELSE IF \E i \in 1..Len(r.feeds) : ~FeedOK(bound, N(r.feeds[i][1]), N(r.feeds[i][2]), 1, [clean |-> TRUE, typed |-> <<>>]) THEN "handler"
     ELSE "ok"
\* parser records: [kind |-> "key", text, ok, name, bits, display, expname, expbits, panic]
ParseVerdict(r) ==
  IF r.panic # "" THEN "parser-panic"
  ELSE IF r.mode = "expect" /\ (~r.ok \/ r.name # r.expname \/ r.bits # r.expbits) THEN "parse-wrong-value"
  ELSE IF r.mode = "expect" /\ r.display # r.exptext THEN "print-not-canonical"
  ELSE IF r.ok /\ ~r.roundtrip THEN "print-parse-roundtrip"
  ELSE "ok"
Verdict(r) == IF r.kind = "map" THEN MapVerdict(r) ELSE ParseVerdict(r)
Bad == SelectSeq([i \in 1..Len(Rec) |-> [id |-> Rec[i].id, why |-> Verdict(Rec[i])]], LAMBDA v : v.why # "ok")
ASSUME ndJsonSerialize(IOEnv.OUT, Bad)
ASSUME PrintT(<<"JUDGED", Len(Rec), Len(Bad)>>)
VARIABLE x
Init == x = 0
Next == UNCHANGED x
=============================================================================
