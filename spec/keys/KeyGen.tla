------------------------------- MODULE KeyGen -------------------------------
(* Registration histories for replay on the real KeyMap / KeyMapHandler:    *)
(* every sequence of at most MaxRegs chords (length <= MaxLen) over Keys.   *)
EXTENDS KeyTrie, Json, IOUtils, SequencesExt
CS == SetToSeq(Chords)
H1 == [i \in 1..Len(CS) |-> <<CS[i]>>]
H2 == FlattenSeq([i \in 1..Len(CS) |-> [j \in 1..Len(CS) |-> <<CS[i], CS[j]>>]])
H3 == IF MaxRegs < 3 THEN <<>> ELSE FlattenSeq([i \in 1..Len(H2) |-> [j \in 1..Len(CS) |-> Append(H2[i], CS[j])]])
All == H1 \o H2 \o H3
ASSUME ndJsonSerialize(IOEnv.OUT, [i \in 1..Len(All) |-> [regs |-> All[i]]])
ASSUME PrintT(<<"GENERATED", Len(All)>>)
=============================================================================
