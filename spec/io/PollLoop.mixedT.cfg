CONSTANTS KCap = 2 WCap = 1 MaxBytes = 3 MaxChunk = 2 NW = 2 NIn = 1 NSig = 1 MaxPolls = 3
INIT Init
NEXT Next
CONSTRAINT QBound
INVARIANTS OrderOK NoTear WakeSafe InputOK
CHECK_DEADLOCK FALSE
