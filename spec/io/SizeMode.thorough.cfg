SPECIFICATION Spec
CONSTANTS NSig = 4 NFrames = 5 MaxChunks = 4 Mode = "front"
INVARIANTS NoLostResize KnownAgrees Monotone
PROPERTY EventuallyTold
CHECK_DEADLOCK FALSE
