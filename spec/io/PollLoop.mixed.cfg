CONSTANTS KCap = 1 WCap = 1 MaxBytes = 2 MaxChunk = 1 NW = 1 NIn = 1 NSig = 1 MaxPolls = 2
INIT Init
NEXT Next
CONSTRAINT QBound
INVARIANTS OrderOK NoTear WakeSafe InputOK
CHECK_DEADLOCK FALSE
