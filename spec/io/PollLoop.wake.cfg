CONSTANTS KCap = 1 WCap = 1 MaxBytes = 0 MaxChunk = 1 NW = 2 NIn = 0 NSig = 0 MaxPolls = 3
INIT Init
NEXT Next
CONSTRAINT QBound
INVARIANTS OrderOK NoTear WakeSafe InputOK
CHECK_DEADLOCK FALSE
