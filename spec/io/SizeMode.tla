------------------------------ MODULE SizeMode ------------------------------
(* Code-shaped model of the escape-sequence size mode of UnixTerminal       *)
(* (src/unix.rs: capabilities_detect falls back to it when the kernel       *)
(* reports no pixel size; poll's SIGWINCH arm; the Size arm of the read      *)
(* loop; frames_drop).  In this mode a window change is learnt in three      *)
(* steps that are separated by other threads' and the peer's steps:          *)
(*   Sig    SIGWINCH seen by poll: the size request (CSI 18 t CSI 14 t) is   *)
(*          appended to the write queue, BEHIND whatever output is pending   *)
(*   Wr/Term the request reaches the terminal, which answers with its size   *)
(*   Rd     the answer is read: the remembered size is updated and a Resize  *)
(*          event queued (in front of the report itself)                     *)
(* The application meanwhile writes frames, flushes them into chunks and     *)
(* drops stale chunks (frames_drop keeps only the chunk in flight).          *)
(*                                                                           *)
(* C17 (window-size signals ... are still delivered as events): whenever     *)
(* everything has drained, the application has been told the current size.   *)
(* Mode selects where the request is put and what frames_drop does:          *)
(*  "back"    the tree as found: the request is appended to the LAST chunk;  *)
(*            a drop takes it along and the change is never reported         *)
(*            (SizeMode.bug.cfg, the control showing the invariant can fail) *)
(*  "reissue" a first repair attempt: count unanswered requests and queue    *)
(*            the request again after a drop.  TLC rejects it (SizeMode.     *)
(*            reissue.cfg): the repeated request produces a second answer,   *)
(*            which later cancels the count of a NEWER request that a drop   *)
(*            then loses - 19 steps, two window changes                      *)
(*  "front"   the repair that was committed: the request is appended to the  *)
(*            chunk at the FRONT of the queue, which frames_drop never       *)
(*            discards; poll flushes on entry, so this is between frames     *)
EXTENDS Integers, Sequences, FiniteSets, TLC

CONSTANTS NSig,        \* number of window changes
          NFrames,     \* number of frame writes the application may make
          MaxChunks,   \* bound on queued chunks
          Mode         \* "back" | "reissue" | "front", see above

VARIABLES wq,          \* write queue: sequence of chunks; chunk = sequence of "F" (frame byte run) / "Q" (size request)
          started,     \* the front chunk is partly transmitted
          wire,        \* items on their way to the terminal
          kin,         \* terminal's answers not yet read: sequence of sizes
          evq,         \* event queue: sizes of queued Resize events
          winsz,       \* the terminal's real size (number of changes so far)
          spipe,       \* a SIGWINCH is pending in the signal pipe (signals coalesce)
          sizeReq,     \* library: requests issued and not yet answered
          known,       \* library: the size it remembers (self.size)
          seen,        \* application: the size of the last Resize it was given
          frames       \* frame writes so far
vars == <<wq, started, wire, kin, evq, winsz, spipe, sizeReq, known, seen, frames>>

Init == /\ wq = <<>> /\ started = FALSE /\ wire = <<>> /\ kin = <<>> /\ evq = <<>>
        /\ winsz = 0 /\ spipe = FALSE /\ sizeReq = 0 /\ known = 0 /\ seen = 0 /\ frames = 0

QWrite(q, item) == IF q = <<>> THEN << <<item>> >> ELSE [q EXCEPT ![Len(q)] = Append(@, item)]
QWriteFront(q, item) == IF q = <<>> THEN << <<item>> >> ELSE [q EXCEPT ![1] = Append(@, item)]
QFlush(q) == IF q # <<>> /\ q[1] # <<>> THEN Append(q, <<>>) ELSE q

(***************** application *****************)
AppWrite == /\ frames < NFrames /\ Len(wq) <= MaxChunks
            /\ wq' = QWrite(wq, "F") /\ frames' = frames + 1
            /\ UNCHANGED <<started, wire, kin, evq, winsz, spipe, sizeReq, known, seen>>
AppFlush == /\ Len(wq) < MaxChunks /\ wq' = QFlush(wq) /\ wq' # wq
            /\ UNCHANGED <<started, wire, kin, evq, winsz, spipe, sizeReq, known, seen, frames>>
\* Terminal::frames_drop: IOQueue::clear_but_last ("reissue": then the request is queued again)
AppDrop == /\ Len(wq) > 1
           /\ LET kept == << wq[1] >> IN
              IF Mode = "reissue" /\ sizeReq > 0
              THEN wq' = QWrite(kept, "Q") /\ sizeReq' = 1
              ELSE wq' = kept /\ UNCHANGED sizeReq
           /\ UNCHANGED <<started, wire, kin, evq, winsz, spipe, known, seen, frames>>
\* poll returns the event at the head of the queue
Deliver == /\ evq # <<>> /\ seen' = Head(evq) /\ evq' = Tail(evq)
           /\ UNCHANGED <<wq, started, wire, kin, winsz, spipe, sizeReq, known, frames>>

(***************** inside poll *****************)
\* the tty is writable: one item of the front chunk is sent; an exhausted chunk is retired
Wr == /\ wq # <<>>
      /\ IF wq[1] = <<>> THEN wq' = Tail(wq) /\ started' = FALSE /\ UNCHANGED wire
         ELSE /\ wire' = Append(wire, Head(wq[1]))
              /\ IF Len(wq[1]) = 1 THEN wq' = Tail(wq) /\ started' = FALSE
                 ELSE wq' = [wq EXCEPT ![1] = Tail(@)] /\ started' = TRUE
      /\ UNCHANGED <<kin, evq, winsz, spipe, sizeReq, known, seen, frames>>
\* SIGWINCH arm
Sig == /\ spipe /\ spipe' = FALSE
       /\ wq' = IF Mode = "front" THEN QWriteFront(wq, "Q") ELSE QWrite(wq, "Q")
       /\ sizeReq' = sizeReq + 1
       /\ UNCHANGED <<started, wire, kin, evq, winsz, known, seen, frames>>
\* Size arm of the read loop
Rd == /\ kin # <<>> /\ kin' = Tail(kin)
      /\ known' = Head(kin) /\ evq' = Append(evq, Head(kin))
      /\ sizeReq' = IF sizeReq > 0 THEN sizeReq - 1 ELSE 0
      /\ UNCHANGED <<wq, started, wire, winsz, spipe, seen, frames>>

(***************** environment *****************)
\* the terminal consumes what it receives; a size request is answered with the size of that moment
Term == /\ wire # <<>> /\ wire' = Tail(wire)
        /\ kin' = IF Head(wire) = "Q" THEN Append(kin, winsz) ELSE kin
        /\ UNCHANGED <<wq, started, evq, winsz, spipe, sizeReq, known, seen, frames>>
\* the window changes: new size, SIGWINCH
Resize == /\ winsz < NSig /\ winsz' = winsz + 1 /\ spipe' = TRUE
          /\ UNCHANGED <<wq, started, wire, kin, evq, sizeReq, known, seen, frames>>

Next == AppWrite \/ AppFlush \/ AppDrop \/ Deliver \/ Wr \/ Sig \/ Rd \/ Term \/ Resize
Spec == Init /\ [][Next]_vars /\ WF_vars(Deliver) /\ WF_vars(Wr) /\ WF_vars(Sig) /\ WF_vars(Rd) /\ WF_vars(Term)

(***************** properties *****************)
Drained == ~spipe /\ wq = <<>> /\ wire = <<>> /\ kin = <<>> /\ evq = <<>>
\* C17: once everything has drained the application knows the window's size
NoLostResize == Drained => seen = winsz
\* the library's own memory agrees with what it told the application
KnownAgrees == (kin = <<>> /\ evq = <<>>) => known = seen
\* sizes are reported in the order the terminal gave them: never an older size after a newer one
Monotone == /\ \A i \in 1..Len(evq) : seen <= evq[i]
            /\ \A i, j \in 1..Len(evq) : i < j => evq[i] <= evq[j]
\* liveness under fairness of poll's steps and the terminal: every change is eventually reported (or superseded)
EventuallyTold == \A n \in 1..NSig : (winsz = n) ~> (seen = n \/ winsz > n)
=============================================================================
