---------------------------- MODULE IOQueueTrace ----------------------------
(* Trace validation of the real IOQueue (harness c16-queue): each recorded  *)
(* operation must be a step IOQueueSpec allows and every observable (len,   *)
(* chunk count, front slice, read result) must agree after EVERY step.      *)
(* A drop may discard any set of whole unstarted chunks - the judge keeps   *)
(* the set of spec states compatible with what was observed so far.         *)
EXTENDS IOQueueSpec, TLC, Json, IOUtils, SequencesExt
Rec == ndJsonDeserialize(IOEnv.TRACE)
N(b) == [i \in 1..Len(b) |-> b[i]]

\* op = [t, n, bs, got, len, count, slice]
StepSet(Q, o) ==
  CASE o.t = "w" -> { Write(q, N(o.bs)) : q \in Q }
    [] o.t = "f" -> { Flush(q) : q \in Q }
    [] o.t = "r" -> { Read(q, o.n) : q \in { x \in Q : ReadResult(x, o.n) = N(o.got) } }
    [] o.t = "c" -> { Consume(q, o.n) : q \in Q }
    [] o.t = "d" -> UNION { DropOutcomes(q) : q \in Q }
Obs(Q, o) == { q \in Q : QLen(q) = o.len /\ Count(q) = o.count /\ Slice(q) = N(o.slice) }
Why(Q, o) ==
  IF o.t = "r" /\ ~ \E q \in Q : ReadResult(q, o.n) = N(o.got) THEN "read-result"
  ELSE LET S == StepSet(Q, o) IN
       IF ~ \E q \in S : Slice(q) = N(o.slice) THEN "front-slice"
       ELSE IF ~ \E q \in S : Count(q) = o.count THEN "chunk-count"
       ELSE IF ~ \E q \in S : QLen(q) = o.len THEN "len"
       ELSE "state"
RECURSIVE Walk(_, _, _)
Walk(ops, i, Q) ==
  IF i > Len(ops) THEN [why |-> "ok", at |-> 0]
  ELSE LET Q1 == Obs(StepSet(Q, ops[i]), ops[i]) IN
       IF Q1 = {} THEN [why |-> Why(Q, ops[i]), at |-> i] ELSE Walk(ops, i + 1, Q1)
Verdict(r) == IF r.panic # "" THEN [why |-> "panic", at |-> 0] ELSE Walk(r.ops, 1, {Empty})
Bad == SelectSeq([i \in 1..Len(Rec) |-> [id |-> Rec[i].id] @@ Verdict(Rec[i])], LAMBDA v : v.why # "ok")
ASSUME ndJsonSerialize(IOEnv.OUT, Bad)
ASSUME PrintT(<<"JUDGED", Len(Rec), Len(Bad)>>)
VARIABLE x
Init == x = 0
Next == UNCHANGED x
=============================================================================
