CONSTANTS MaxBytes = 8 MaxChunk = 3 MaxChunks = 4 FixLen = TRUE
INIT Init
NEXT Next
CONSTRAINT Bound
INVARIANTS Refines ReadOK LenOK Fifo
PROPERTY DropAllowed
CHECK_DEADLOCK FALSE
