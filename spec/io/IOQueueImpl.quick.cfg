CONSTANTS MaxBytes = 5 MaxChunk = 2 MaxChunks = 3 FixLen = TRUE
INIT Init
NEXT Next
CONSTRAINT Bound
INVARIANTS Refines ReadOK LenOK Fifo
PROPERTY DropAllowed
CHECK_DEADLOCK FALSE
