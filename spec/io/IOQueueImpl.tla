----------------------------- MODULE IOQueueImpl -----------------------------
(* Code-shaped model of IOQueue (src/common.rs:100-216): chunks / offset /  *)
(* running length, consume's two branches, the empty trailing chunk made by *)
(* flush, clear_but_last.  Checked to refine IOQueueSpec over all operation *)
(* sequences (refinement mapping: remaining bytes chunk by chunk).          *)
(* FixLen = TRUE is the current /repo (fix: clear_but_last updates length). *)
EXTENDS IOQueueSpec, TLC
CONSTANTS MaxBytes, MaxChunk, MaxChunks, FixLen

VARIABLES chunks, off, length,     \* implementation state
          spec,                    \* IOQueueSpec value evolving in lock step
          nbytes, lastRead, lastSpecRead
vars == <<chunks, off, length, spec, nbytes, lastRead, lastSpecRead>>

AsSlice == IF chunks = <<>> THEN <<>> ELSE SubSeq(chunks[1], off + 1, Len(chunks[1]))
Init == chunks = <<>> /\ off = 0 /\ length = 0 /\ spec = Empty /\ nbytes = 0 /\ lastRead = <<>> /\ lastSpecRead = <<>>

DoWrite(n) ==
  LET bs == [i \in 1..n |-> nbytes + i] IN
  /\ nbytes + n <= MaxBytes
  /\ chunks' = IF chunks = <<>> THEN <<bs>> ELSE [chunks EXCEPT ![Len(chunks)] = @ \o bs]
  /\ length' = length + n
  /\ spec' = Write(spec, bs) /\ nbytes' = nbytes + n
  /\ UNCHANGED <<off, lastRead, lastSpecRead>>
DoFlush ==
  /\ chunks' = IF AsSlice # <<>> THEN Append(chunks, <<>>) ELSE chunks
  /\ spec' = Flush(spec)
  /\ UNCHANGED <<off, length, nbytes, lastRead, lastSpecRead>>
ImplConsume(amt) ==
  IF chunks # <<>> /\ Len(chunks[1]) > off + amt
  THEN off' = off + amt /\ length' = length - amt /\ chunks' = chunks
  ELSE IF chunks # <<>>
       THEN length' = length - (Len(chunks[1]) - off) /\ chunks' = Tail(chunks) /\ off' = 0
       ELSE off' = 0 /\ UNCHANGED <<length, chunks>>
DoRead(n) ==
  LET size == MinI(n, Len(AsSlice)) IN
  /\ lastRead' = SubSeq(AsSlice, 1, size) /\ lastSpecRead' = ReadResult(spec, n)
  /\ ImplConsume(size) /\ spec' = Read(spec, n) /\ UNCHANGED nbytes
\* consume(amt) called directly (amt may exceed the front remainder)
DoConsume(amt) ==
  /\ ImplConsume(amt) /\ spec' = Consume(spec, amt) /\ UNCHANGED <<nbytes, lastRead, lastSpecRead>>
DoDrop ==
  /\ chunks' = IF Len(chunks) > 1 THEN <<chunks[1]>> ELSE chunks
  /\ length' = IF FixLen /\ Len(chunks) > 1 THEN Len(chunks[1]) - off ELSE length
  /\ spec' = Drop(spec, 2..Count(spec))
  /\ UNCHANGED <<off, nbytes, lastRead, lastSpecRead>>

Next == (\E n \in 0..MaxChunk : DoWrite(n)) \/ DoFlush \/ (\E n \in 0..MaxChunk : DoRead(n))
        \/ (\E n \in 0..(MaxChunk + 1) : DoConsume(n)) \/ DoDrop
Bound == Len(chunks) <= MaxChunks

ImplRemaining == IF chunks = <<>> THEN <<>> ELSE [i \in 1..Len(chunks) |-> IF i = 1 THEN AsSlice ELSE chunks[i]]
Refines == ImplRemaining = spec.chunks
LenOK == length = QLen(spec)                 \* reported length = readable bytes
ReadOK == lastRead = lastSpecRead
\* the implementation's drop is one of the drops the property allows
DropAllowed == [][ (Len(chunks') < Len(chunks) /\ off' = off /\ chunks # <<>> /\ chunks' = <<chunks[1]>>) => spec' \in DropOutcomes(spec) ]_vars
\* bytes leave in FIFO order exactly once: remaining bytes are strictly increasing ids
Fifo == LET b == Bytes(spec) IN \A i \in 1..(Len(b) - 1) : b[i] < b[i + 1]
=============================================================================
