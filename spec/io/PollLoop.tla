------------------------------ MODULE PollLoop ------------------------------
(* Code-shaped model of UnixTerminal::poll (src/unix.rs:392-509): flush, the *)
(* loop condition on pending output / empty event queue, the timeout with   *)
(* the "first loop even at zero" rule, write interest only while output is  *)
(* pending, the order write -> signal -> waker -> read inside one           *)
(* iteration, waker-read coalescing into one Wake.  Environment: waker      *)
(* calls from other threads, SIGWINCH into the signal pipe, peer input,     *)
(* peer drain, short writes into a bounded kernel buffer, timeout expiry.   *)
(* Properties: C16 OrderOK / NoTear, C17 WakeSafe / InputOK / WakeLive.     *)
EXTENDS Integers, Sequences, FiniteSets, TLC

CONSTANTS KCap,        \* capacity of kernel tty output buffer
          WCap,        \* capacity of the waker socket
          MaxBytes,    \* total bytes the app may write
          MaxChunk,    \* max bytes per app write
          NW,          \* number of waker calls
          NIn,         \* number of input bytes the peer sends
          NSig,        \* number of SIGWINCH signals
          MaxPolls

VARIABLES wq, off,            \* write queue: seq of chunks (seq of byte ids), offset in front chunk
          evq,                \* event queue
          kout, wire,         \* kernel buffer towards peer, bytes the peer has read
          kin, sent,          \* bytes from peer not yet read; number sent so far
          wpipe, wcalls,      \* waker socket fill, waker calls done
          spipe, sigs,        \* signal pipe fill, signals raised
          pc, sel, tmo, expired, first,   \* polling thread
          written, dropped,   \* ghost: all bytes enqueued in order; set of dropped bytes
          delivered,          \* ghost: events returned by poll, in order
          npolls, sinceRead   \* ghost: poll count; waker calls since last pipe read
vars == <<wq, off, evq, kout, wire, kin, sent, wpipe, wcalls, spipe, sigs, pc, sel, tmo, expired, first,
          written, dropped, delivered, npolls, sinceRead>>

Flat(q) == LET RECURSIVE f(_) f(i) == IF i > Len(q) THEN <<>> ELSE q[i] \o f(i + 1) IN f(1)
Pending == LET all == Flat(wq) IN SubSeq(all, off + 1, Len(all))
FrontRem == IF wq = <<>> THEN 0 ELSE Len(wq[1]) - off
NoSel == [w |-> FALSE, r |-> FALSE, s |-> FALSE, k |-> FALSE]

Init == /\ wq = <<>> /\ off = 0 /\ evq = <<>> /\ kout = <<>> /\ wire = <<>> /\ kin = <<>> /\ sent = 0
        /\ wpipe = 0 /\ wcalls = 0 /\ spipe = 0 /\ sigs = 0
        /\ pc = "idle" /\ sel = NoSel /\ tmo = "none" /\ expired = FALSE /\ first = TRUE
        /\ written = <<>> /\ dropped = {} /\ delivered = <<>> /\ npolls = 0 /\ sinceRead = 0

(***************** IOQueue operations (as in common.rs) *****************)
QWrite(q, bs) == IF q = <<>> THEN <<bs>> ELSE [q EXCEPT ![Len(q)] = @ \o bs]
QFlush(q, o) == IF q # <<>> /\ Len(q[1]) - o > 0 THEN Append(q, <<>>) ELSE q
\* consume(amt): returns <<q', off'>>
QConsume(q, o, amt) == IF q # <<>> /\ Len(q[1]) > o + amt THEN <<q, o + amt>>
                       ELSE IF q # <<>> THEN <<Tail(q), 0>> ELSE <<q, 0>>

(***************** application thread *****************)
AppWrite == /\ pc = "idle" /\ Len(written) < MaxBytes
            /\ \E n \in 1..MaxChunk :
                 /\ Len(written) + n <= MaxBytes
                 /\ LET bs == [i \in 1..n |-> Len(written) + i] IN
                    /\ wq' = QWrite(wq, bs) /\ written' = written \o bs
            /\ UNCHANGED <<off, evq, kout, wire, kin, sent, wpipe, wcalls, spipe, sigs, pc, sel, tmo, expired, first, dropped, delivered, npolls, sinceRead>>

AppFlush == /\ pc = "idle" /\ wq' = QFlush(wq, off)
            /\ UNCHANGED <<off, evq, kout, wire, kin, sent, wpipe, wcalls, spipe, sigs, pc, sel, tmo, expired, first, written, dropped, delivered, npolls, sinceRead>>

AppDrop == /\ pc = "idle" /\ Len(wq) > 1
           /\ wq' = <<wq[1]>>
           /\ dropped' = dropped \cup { b \in 1..Len(written) : \E i \in 2..Len(wq) : \E j \in 1..Len(wq[i]) : wq[i][j] = b }
           /\ UNCHANGED <<off, evq, kout, wire, kin, sent, wpipe, wcalls, spipe, sigs, pc, sel, tmo, expired, first, written, delivered, npolls, sinceRead>>

AppPoll == /\ pc = "idle" /\ npolls < MaxPolls
           /\ \E t \in {"zero", "finite", "none"} :
                /\ tmo' = t /\ expired' = (t = "zero")
           /\ wq' = QFlush(wq, off) /\ first' = TRUE /\ pc' = "chk" /\ npolls' = npolls + 1
           /\ UNCHANGED <<off, evq, kout, wire, kin, sent, wpipe, wcalls, spipe, sigs, sel, written, dropped, delivered, sinceRead>>

\* loop condition and timeout processing
Chk == /\ pc = "chk"
       /\ IF wq # <<>> \/ evq = <<>>
          THEN IF tmo # "none" /\ expired /\ ~first THEN pc' = "ret" ELSE pc' = "sel"
          ELSE pc' = "ret"
       /\ UNCHANGED <<wq, off, evq, kout, wire, kin, sent, wpipe, wcalls, spipe, sigs, sel, tmo, expired, first, written, dropped, delivered, npolls, sinceRead>>

Ready == [w |-> wq # <<>> /\ Len(kout) < KCap, r |-> kin # <<>>, s |-> spipe > 0, k |-> wpipe > 0]
AnyReady == Ready.w \/ Ready.r \/ Ready.s \/ Ready.k
\* select returns when something is ready, or the (possibly zero) timeout elapsed
Sel == /\ pc = "sel"
       /\ \/ AnyReady /\ sel' = Ready
          \/ ~AnyReady /\ tmo # "none" /\ expired /\ sel' = NoSel
       /\ pc' = "wr"
       /\ UNCHANGED <<wq, off, evq, kout, wire, kin, sent, wpipe, wcalls, spipe, sigs, tmo, expired, first, written, dropped, delivered, npolls, sinceRead>>

Wr == /\ pc = "wr"
      /\ IF sel.w
         THEN \E k \in 0..FrontRem :
                /\ k <= KCap - Len(kout)
                /\ (k = 0 => FrontRem = 0)     \* select said writable: at least one byte is taken unless the chunk is empty
                /\ kout' = kout \o SubSeq(wq[1], off + 1, off + k)
                /\ LET c == QConsume(wq, off, k) IN wq' = c[1] /\ off' = c[2]
         ELSE UNCHANGED <<kout, wq, off>>
      /\ pc' = "sig"
      /\ UNCHANGED <<evq, wire, kin, sent, wpipe, wcalls, spipe, sigs, sel, tmo, expired, first, written, dropped, delivered, npolls, sinceRead>>

Sig == /\ pc = "sig"
       /\ IF sel.s THEN /\ evq' = evq \o [i \in 1..spipe |-> "R"] /\ spipe' = 0
          ELSE UNCHANGED <<evq, spipe>>
       /\ pc' = "wk"
       /\ UNCHANGED <<wq, off, kout, wire, kin, sent, wpipe, wcalls, sigs, sel, tmo, expired, first, written, dropped, delivered, npolls, sinceRead>>

Wk == /\ pc = "wk"
      /\ IF sel.k THEN /\ wpipe' = 0 /\ sinceRead' = 0
                       /\ evq' = IF wpipe # 0 THEN Append(evq, "W") ELSE evq
         ELSE UNCHANGED <<wpipe, evq, sinceRead>>
      /\ pc' = "rd"
      /\ UNCHANGED <<wq, off, kout, wire, kin, sent, wcalls, spipe, sigs, sel, tmo, expired, first, written, dropped, delivered, npolls>>

Rd == /\ pc = "rd"
      /\ IF sel.r THEN /\ evq' = evq \o kin /\ kin' = <<>>
         ELSE UNCHANGED <<evq, kin>>
      /\ first' = FALSE /\ pc' = "chk"
      /\ UNCHANGED <<wq, off, kout, wire, sent, wpipe, wcalls, spipe, sigs, sel, tmo, expired, written, dropped, delivered, npolls, sinceRead>>

Ret == /\ pc = "ret"
       /\ IF evq # <<>> THEN /\ delivered' = Append(delivered, Head(evq)) /\ evq' = Tail(evq)
          ELSE UNCHANGED <<delivered, evq>>
       /\ pc' = "idle"
       /\ UNCHANGED <<wq, off, kout, wire, kin, sent, wpipe, wcalls, spipe, sigs, sel, tmo, expired, first, written, dropped, npolls, sinceRead>>

(***************** environment *****************)
PeerDrain == /\ kout # <<>> /\ \E k \in 1..Len(kout) : /\ wire' = wire \o SubSeq(kout, 1, k) /\ kout' = SubSeq(kout, k + 1, Len(kout))
             /\ UNCHANGED <<wq, off, evq, kin, sent, wpipe, wcalls, spipe, sigs, pc, sel, tmo, expired, first, written, dropped, delivered, npolls, sinceRead>>
PeerSend == /\ sent < NIn /\ kin' = Append(kin, "K") /\ sent' = sent + 1
            /\ UNCHANGED <<wq, off, evq, kout, wire, wpipe, wcalls, spipe, sigs, pc, sel, tmo, expired, first, written, dropped, delivered, npolls, sinceRead>>
WakeCall == /\ wcalls < NW /\ wcalls' = wcalls + 1
            /\ wpipe' = IF wpipe < WCap THEN wpipe + 1 ELSE wpipe     \* EAGAIN is swallowed
            /\ sinceRead' = sinceRead + 1
            /\ UNCHANGED <<wq, off, evq, kout, wire, kin, sent, spipe, sigs, pc, sel, tmo, expired, first, written, dropped, delivered, npolls>>
Winch == /\ sigs < NSig /\ sigs' = sigs + 1 /\ spipe' = spipe + 1
         /\ UNCHANGED <<wq, off, evq, kout, wire, kin, sent, wpipe, wcalls, pc, sel, tmo, expired, first, written, dropped, delivered, npolls, sinceRead>>
Expire == /\ pc # "idle" /\ tmo = "finite" /\ ~expired /\ expired' = TRUE
          /\ UNCHANGED <<wq, off, evq, kout, wire, kin, sent, wpipe, wcalls, spipe, sigs, pc, sel, tmo, first, written, dropped, delivered, npolls, sinceRead>>

App == AppWrite \/ AppFlush \/ AppDrop \/ AppPoll \/ Chk \/ Sel \/ Wr \/ Sig \/ Wk \/ Rd \/ Ret
Env == PeerDrain \/ PeerSend \/ WakeCall \/ Winch \/ Expire
Next == App \/ Env
Spec == Init /\ [][Next]_vars /\ WF_vars(App) /\ WF_vars(PeerDrain) /\ WF_vars(Expire)

(***************** properties *****************)
\* output: in order, exactly once, minus dropped whole chunks
Remove(s, D) == SelectSeq(s, LAMBDA b : b \notin D)
OrderOK == wire \o kout \o Pending = Remove(written, dropped)
\* dropped bytes never started transmission
NoTear == \A b \in dropped : ~ \E i \in 1..Len(wire) : wire[i] = b
\* a wake request is never lost: it is in the pipe until read
WakeSafe == sinceRead > 0 => wpipe > 0
\* every waker call is eventually followed by a delivered Wake, if the app keeps polling
WakeCount(s) == Len(SelectSeq(s, LAMBDA e : e = "W"))
\* liveness: under fairness of the polling thread (it keeps calling poll, and each step of poll
\* is taken) a pending wake request is read - and hence a Wake is queued - while polls remain
SpecLive == Init /\ [][Next]_vars /\ WF_vars(AppPoll) /\ WF_vars(Chk) /\ WF_vars(Sel) /\ WF_vars(Wr) /\ WF_vars(Sig)
            /\ WF_vars(Wk) /\ WF_vars(Rd) /\ WF_vars(Ret)
WakeLive == (wpipe > 0 /\ npolls < MaxPolls) ~> (wpipe = 0)
\* a read of the waker pipe always queues exactly one Wake, and queued events are delivered in FIFO order
WakeQueued == [][ (wpipe > 0 /\ wpipe' = 0) => evq' = Append(evq, "W") ]_vars
\* input events delivered in arrival order is trivial here (all "K"); count consistency:
InputOK == Len(SelectSeq(delivered \o evq, LAMBDA e : e = "K")) + Len(kin) = sent
QBound == Len(wq) <= 3
=============================================================================
