SPECIFICATION Spec
CONSTANTS NSig = 2 NFrames = 3 MaxChunks = 3 Mode = "reissue"
INVARIANTS NoLostResize
CHECK_DEADLOCK FALSE
