SPECIFICATION Spec
CONSTANTS NSig = 3 NFrames = 4 MaxChunks = 3 Mode = "front"
INVARIANTS NoLostResize KnownAgrees Monotone
PROPERTY EventuallyTold
CHECK_DEADLOCK FALSE
