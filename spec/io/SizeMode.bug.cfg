SPECIFICATION Spec
CONSTANTS NSig = 2 NFrames = 3 MaxChunks = 3 Mode = "back"
INVARIANTS NoLostResize
CHECK_DEADLOCK FALSE
