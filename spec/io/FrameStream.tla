----------------------------- MODULE FrameStream -----------------------------
(* Frames of the render loop on the wire (property C16, "frames never torn"). *)
(* run_render brackets every frame with the synchronized-update markers       *)
(* CSI ?2026h (1) and CSI ?2026l (0).  Frames may be dropped while the tty is *)
(* stalled, but only whole: the stream the terminal receives is a sequence of *)
(* complete frames, i.e. its markers strictly alternate, begin first, end     *)
(* last.  Judge for harness c16-render (real terminal object on a pty with a  *)
(* stranded payload so that the drop policy fires).                           *)
EXTENDS Integers, Sequences, TLC, Json, IOUtils, SequencesExt
Rec == ndJsonDeserialize(IOEnv.TRACE)
\* the marker stream as a two-state machine: FALSE = between frames, TRUE = inside a frame
RECURSIVE Run(_, _, _)
Run(ms, i, inside) ==
  IF i > Len(ms) THEN (IF inside THEN "stream ends inside a frame (end marker lost)" ELSE "ok")
  ELSE IF ms[i] = 1 THEN (IF inside THEN "frame begins inside a frame (end marker lost)" ELSE Run(ms, i + 1, TRUE))
  ELSE (IF inside THEN Run(ms, i + 1, FALSE) ELSE "frame ends without having begun (begin marker lost)")
Verdict(r) ==
  IF r.panic # "" THEN "panic"
  ELSE IF r.payload_seen # r.payload THEN "bytes written before the frames were lost or duplicated"
  ELSE Run(r.markers, 1, FALSE)
Bad == SelectSeq([i \in 1..Len(Rec) |-> [id |-> Rec[i].id, why |-> Verdict(Rec[i])]], LAMBDA v : v.why # "ok")
ASSUME ndJsonSerialize(IOEnv.OUT, Bad)
ASSUME PrintT(<<"JUDGED", Len(Rec), Len(Bad)>>)
VARIABLE x
Init == x = 0
Next == UNCHANGED x
=============================================================================
