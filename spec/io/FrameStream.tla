----------------------------- MODULE FrameStream -----------------------------
(* Frames of the render loop on the wire (property C16, "frames never torn"). *)
(* run_render brackets every frame with the synchronized-update markers       *)
(* CSI ?2026h (1) and CSI ?2026l (0).  Frames may be dropped while the tty is *)
(* stalled, but only whole: the stream the terminal receives is a sequence of *)
(* complete frames, i.e. its markers strictly alternate, begin first, end     *)
(* last.  Judge for harness c16-render (real terminal object on a pty with a  *)
(* stranded payload so that the drop policy fires).                           *)
EXTENDS Integers, Sequences, TLC, Json, IOUtils, SequencesExt
Rec == ndJsonDeserialize(IOEnv.TRACE)
\* the marker stream as a two-state machine: FALSE = between frames, TRUE = inside a frame
RECURSIVE Run(_, _, _)
Run(ms, i, inside) ==
  IF i > Len(ms) THEN (IF inside THEN "stream ends inside a frame (end marker lost)" ELSE "ok")
  ELSE IF ms[i] = 1 THEN (IF inside THEN "frame begins inside a frame (end marker lost)" ELSE Run(ms, i + 1, TRUE))
  ELSE (IF inside THEN Run(ms, i + 1, FALSE) ELSE "frame ends without having begun (begin marker lost)")
\* C01 on the wire (image sessions): kitty graphics commands as the terminal received them, <<action, image, placement>>
\* with action 1 = put, 2 = delete (placement 0 = every placement of the image).  The image is shown and delivered, stays
\* unchanged while the frames pile up, and is gone from the first frame after the drop on: when the session ends the
\* terminal must hold no placement (the forced clear's erase commands are part of what must survive the drop).
RECURSIVE Placed(_, _, _)
Placed(cmds, i, set) ==
  IF i > Len(cmds) THEN set
  ELSE LET c == cmds[i] IN
       Placed(cmds, i + 1, IF c[1] = 1 THEN set \cup {<<c[2], c[3]>>}
                           ELSE IF c[3] = 0 THEN {p \in set : p[1] # c[2]} ELSE set \ {<<c[2], c[3]>>})
Verdict(r) ==
  IF r.panic # "" THEN "panic"
  ELSE IF r.payload_seen # r.payload THEN "bytes written before the frames were lost or duplicated"
  ELSE IF Run(r.markers, 1, FALSE) # "ok" THEN Run(r.markers, 1, FALSE)
  ELSE IF r.image /\ Placed(r.kitty, 1, {}) # {} THEN "image: a placement survives on the terminal although the frames after the drop no longer show the image"
  ELSE "ok"
Bad == SelectSeq([i \in 1..Len(Rec) |-> [id |-> Rec[i].id, why |-> Verdict(Rec[i])]], LAMBDA v : v.why # "ok")
ASSUME ndJsonSerialize(IOEnv.OUT, Bad)
ASSUME PrintT(<<"JUDGED", Len(Rec), Len(Bad)>>)
VARIABLE x
Init == x = 0
Next == UNCHANGED x
=============================================================================
