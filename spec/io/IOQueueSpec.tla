----------------------------- MODULE IOQueueSpec -----------------------------
(* Property-level specification of the byte queue of C16: a sequence of     *)
(* flush-delimited chunks of bytes.  Operators on a queue value q =         *)
(* [chunks |-> sequence of REMAINING bytes per chunk, started |-> the front *)
(* chunk is partly consumed].  Observables: Len, Slice (remainder of the    *)
(* front chunk), read results.                                              *)
(*                                                                          *)
(* Two facts of the real queue are part of the contract (DESIGN.md C16):    *)
(* flush appends an empty chunk only when the front remainder is non-empty, *)
(* and a read returns at most the remainder of the front chunk.             *)
EXTENDS Integers, Sequences, FiniteSets

Empty == [chunks |-> <<>>, started |-> FALSE]
RECURSIVE SumLen(_, _)
SumLen(cs, i) == IF i > Len(cs) THEN 0 ELSE Len(cs[i]) + SumLen(cs, i + 1)
QLen(q) == SumLen(q.chunks, 1)
Slice(q) == IF q.chunks = <<>> THEN <<>> ELSE q.chunks[1]
Count(q) == Len(q.chunks)
RECURSIVE Flat(_, _)
Flat(cs, i) == IF i > Len(cs) THEN <<>> ELSE cs[i] \o Flat(cs, i + 1)
Bytes(q) == Flat(q.chunks, 1)

Write(q, bs) == IF q.chunks = <<>> THEN [q EXCEPT !.chunks = <<bs>>]
                ELSE [q EXCEPT !.chunks[Len(q.chunks)] = @ \o bs]
Flush(q) == IF Slice(q) # <<>> THEN [q EXCEPT !.chunks = Append(@, <<>>)] ELSE q
\* consume amt bytes of the front chunk; consuming all of it (or more) retires the chunk
Consume(q, amt) ==
  IF q.chunks = <<>> THEN q
  ELSE IF Len(q.chunks[1]) > amt
       THEN [chunks |-> [q.chunks EXCEPT ![1] = SubSeq(@, amt + 1, Len(@))], started |-> q.started \/ amt > 0]
       ELSE [chunks |-> Tail(q.chunks), started |-> FALSE]
MinI(a, b) == IF a < b THEN a ELSE b
ReadResult(q, n) == SubSeq(Slice(q), 1, MinI(n, Len(Slice(q))))
Read(q, n) == Consume(q, MinI(n, Len(Slice(q))))
\* Dropping pending frames: any set D of chunk indices may go, except a front
\* chunk whose transmission has started - only whole, unstarted chunks.
Droppable(q) == { i \in 1..Len(q.chunks) : ~(i = 1 /\ q.started) }
RECURSIVE Keep(_, _, _)
Keep(cs, D, i) == IF i > Len(cs) THEN <<>> ELSE (IF i \in D THEN <<>> ELSE <<cs[i]>>) \o Keep(cs, D, i + 1)
Drop(q, D) == [q EXCEPT !.chunks = Keep(q.chunks, D, 1)]
DropOutcomes(q) == { Drop(q, D) : D \in SUBSET Droppable(q) }
=============================================================================
