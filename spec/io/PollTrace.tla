------------------------------ MODULE PollTrace ------------------------------
(* Trace validation of real pseudo-terminal sessions of the terminal object *)
(* (UnixTerminal) against the write-queue / select-loop specification.      *)
(* One record = one session = the totally ordered list of hook events       *)
(* (feature verif-hooks: queue_write, queue_flush, frames_drop, poll_enter, *)
(* select, tty_write_start, tty_write, signal, waker_ready, waker_read,     *)
(* tty_read, loop_end, poll_exit, dispose_enter, dispose_synced,            *)
(* termios_restored) and harness events (app_write, poll_ret, wake_start,   *)
(* wake_end, sig_raise, peer_send, peer_recv, peer_saw, peer_rle, quiet,    *)
(* post_drop).  Each event must be a step the model allows; unlogged        *)
(* effects that another thread can observe (a tty write in flight, a waker  *)
(* write between call start and call end) are bracketed.                    *)
(*                                                                          *)
(* C16: bytes reach the tty in program order exactly once; frames_drop      *)
(*      discards only whole chunks behind the one in flight; payload        *)
(*      received by the peer = payload of the non-dropped chunks in order.  *)
(* C17: a wake request is followed by a waker read and a delivered Wake;    *)
(*      events are delivered in the order they were queued (also while      *)
(*      output is pending); SIGWINCH -> Resize; term signals -> Quit; on    *)
(*      release the line settings are restored and the closing sequence     *)
(*      reached the peer.                                                   *)
EXTENDS Integers, Sequences, TLC, Json, IOUtils, SequencesExt
Rec == ndJsonDeserialize(IOEnv.TRACE)

\* ---- queue of chunks; chunk = sequence of segments <<tag, count>>, tag 0 = library bytes, else payload value
SegAppend(c, tag, n) ==
  IF n = 0 THEN c
  ELSE IF c # <<>> /\ c[Len(c)][1] = tag THEN [c EXCEPT ![Len(c)] = <<tag, @[2] + n>>] ELSE Append(c, <<tag, n>>)
RECURSIVE CLen(_, _)
CLen(c, i) == IF i > Len(c) THEN 0 ELSE c[i][2] + CLen(c, i + 1)
ChunkLen(c) == CLen(c, 1)
RECURSIVE QLen(_, _)
QLen(q, i) == IF i > Len(q) THEN 0 ELSE ChunkLen(q[i]) + QLen(q, i + 1)
QWrite(q, tag, n) == IF q = <<>> THEN <<SegAppend(<<>>, tag, n)>> ELSE [q EXCEPT ![Len(q)] = SegAppend(@, tag, n)]
QWriteFront(q, tag, n) == IF q = <<>> THEN <<SegAppend(<<>>, tag, n)>> ELSE [q EXCEPT ![1] = SegAppend(@, tag, n)]
QFlush(q) == IF q # <<>> /\ ChunkLen(q[1]) > 0 THEN Append(q, <<>>) ELSE q
\* take k bytes from the front of chunk c: <<taken segments, rest>>
RECURSIVE Take(_, _)
Take(c, k) ==
  IF k = 0 \/ c = <<>> THEN <<(<<>>), c>>
  ELSE IF c[1][2] <= k THEN LET r == Take(Tail(c), k - c[1][2]) IN << <<c[1]>> \o r[1], r[2] >>
  ELSE << <<<<c[1][1], k>>>>, <<<<c[1][1], c[1][2] - k>>>> \o Tail(c) >>
RECURSIVE RleAdd(_, _)
RleAdd(rle, segs) ==
  IF segs = <<>> THEN rle
  ELSE LET s == segs[1] IN
       RleAdd(IF s[1] = 0 THEN rle ELSE SegAppend(rle, s[1], s[2]), Tail(segs))
\* IOQueue::consume as the spec sees it: the chunk is retired when everything left of it was taken
Consume(st, k) ==
  IF st.wq = <<>> THEN st
  ELSE LET t == Take(st.wq[1], k) IN
       IF ChunkLen(st.wq[1]) > k
       THEN [st EXCEPT !.wq[1] = t[2], !.started = (st.started \/ k > 0), !.sentpay = RleAdd(@, t[1])]
       ELSE [st EXCEPT !.wq = Tail(@), !.started = FALSE, !.sentpay = RleAdd(@, t[1])]
FrontRem(st) == IF st.wq = <<>> THEN 0 ELSE ChunkLen(st.wq[1])

NoSel == [w |-> FALSE, r |-> FALSE, s |-> FALSE, k |-> FALSE]
St0 == [wq |-> <<>>, started |-> FALSE, sentpay |-> <<>>, paynext |-> <<0, 0>>,
        inflight |-> 0, debt |-> 0, kout |-> 0, wire |-> 0, written |-> 0, dropped |-> 0,
        wstart |-> 0, wend |-> 0, wendMark |-> 0, cHigh |-> 0, wendAtReady |-> 0, lastWakeStart |-> -1, lastWakerRead |-> -1,
        lastWinchRaise |-> -1, lastWinchSeen |-> -1, termsig |-> FALSE,
        pin |-> <<>>, evq |-> <<>>, popped |-> [k |-> "none", id |-> 0], inpoll |-> FALSE, sel |-> NoSel,
        esc |-> FALSE, live |-> FALSE, sizeOut |-> 0, lastSizeAns |-> -1, expectW |-> FALSE,
        disposed |-> FALSE, restored |-> FALSE, sawCursor |-> FALSE, sawMouse |-> FALSE, err |-> ""]
Fail(st, why) == [st EXCEPT !.err = why]

\* events produced by reading n bytes of the tty input FIFO (tags: <<"k", id>> one key byte,
\* <<"d", i>> i-th byte of a 7-byte DA1 reply, <<"z", i, n, sz>> i-th byte of an n-byte size report).
\* In escape-sequence size mode (esc) a size report is a window change: Resize is queued in front of the report itself.
RECURSIVE ReadEvents(_, _, _)
ReadEvents(p, n, esc) ==
  IF n = 0 THEN <<>>
  ELSE (IF p[1][1] = "k" THEN <<[k |-> "key", id |-> p[1][2]]>>
        ELSE IF p[1][1] = "z" THEN (IF p[1][2] # p[1][3] THEN <<>>
                                    ELSE IF esc THEN <<[k |-> "resize", id |-> p[1][4]], [k |-> "other", id |-> 0]>>
                                    ELSE <<[k |-> "other", id |-> 0]>>)
        ELSE IF p[1][2] = 7 THEN <<[k |-> "other", id |-> 0]>> ELSE <<>>) \o ReadEvents(Tail(p), n - 1, esc)
\* number of size reports completed within the first n bytes of the input FIFO
RECURSIVE Reports(_, _)
Reports(p, n) == IF n = 0 THEN 0 ELSE (IF p[1][1] = "z" /\ p[1][2] = p[1][3] THEN 1 ELSE 0) + Reports(Tail(p), n - 1)
Drop2(p, n) == SubSeq(p, n + 1, Len(p))

Apply(st, e, seq) ==
  CASE e.ev = "app_write" -> [st EXCEPT !.paynext = <<e.v, e.n>>]
    [] e.ev = "queue_write" ->
         LET pn == IF st.paynext[2] < e.n THEN st.paynext[2] ELSE e.n IN
         IF st.expectW /\ e.n # 10 THEN Fail(st, "a size request was due after a window-size signal but something else was queued") ELSE
         [st EXCEPT !.expectW = FALSE, !.wq = QWrite(QWrite(@, st.paynext[1], pn), 0, e.n - pn), !.written = @ + e.n,
                    !.paynext = <<st.paynext[1], st.paynext[2] - pn>>]
    \* escape-sequence size mode: the size request goes behind the chunk at the front of the queue (the one frames_drop
    \* keeps), not behind everything that is queued - see SizeMode.tla
    [] e.ev = "queue_write_front" ->
         IF ~st.expectW \/ e.n # 10 THEN Fail(st, "write to the front chunk that is not the size request after a window-size signal")
         ELSE [st EXCEPT !.expectW = FALSE, !.wq = QWriteFront(@, 0, e.n), !.written = @ + e.n]
    [] e.ev = "queue_flush" -> [st EXCEPT !.wq = QFlush(@)]
    [] e.ev = "frames_drop" ->
         \* only the program (between polls) and the release path drop frames: poll itself never discards output
         IF st.inpoll /\ ~st.disposed THEN Fail(st, "frames_drop: output was discarded inside poll although the program did not ask for it")
         ELSE IF e.before # Len(st.wq) THEN Fail(st, "frames_drop: chunk count before differs from model")
         ELSE LET q == IF Len(st.wq) > 1 THEN <<st.wq[1]>> ELSE st.wq IN
              IF e.after # Len(q) THEN Fail(st, "frames_drop: dropped something else than the whole chunks behind the front one")
              ELSE IF e.len # QLen(q, 1) THEN Fail(st, "frames_drop: reported length differs from readable bytes")
              ELSE [st EXCEPT !.wq = q, !.dropped = @ + (QLen(st.wq, 1) - QLen(q, 1))]
    [] e.ev = "poll_enter" ->
         IF Len(st.wq) # e.chunks THEN Fail(st, "poll_enter: chunk count differs from model")
         ELSE IF Len(st.evq) # e.evq THEN Fail(st, "poll_enter: event queue length differs from model")
         ELSE [st EXCEPT !.inpoll = TRUE, !.wendMark = st.wend]
    [] e.ev = "select" ->
         IF e.want_w # (st.wq # <<>>) THEN Fail(st, "select: write interest differs from pending output")
         ELSE IF e.w /\ ~e.want_w THEN Fail(st, "select: writable without interest")
         \* the event is logged after select returned: only wake requests that had completed when the polling thread
         \* logged its previous event (poll_enter / loop_end) are certain to precede the system call
         ELSE IF ~e.k /\ st.wendMark > st.cHigh THEN Fail(st, "select: completed wake request not reported readable")
         ELSE IF e.r /\ st.pin = <<>> THEN Fail(st, "select: tty readable without input")
         ELSE [st EXCEPT !.sel = [w |-> e.w, r |-> e.r, s |-> e.s, k |-> e.k]]
    [] e.ev = "tty_write_start" ->
         IF ~st.sel.w THEN Fail(st, "tty write without writable")
         ELSE IF e.offered # FrontRem(st) THEN Fail(st, "tty write: offered differs from the front chunk's remainder")
         ELSE [st EXCEPT !.inflight = e.offered]
    [] e.ev = "tty_write" ->
         IF e.offered # st.inflight THEN Fail(st, "tty write: offered differs from start event")
         ELSE IF e.written > e.offered THEN Fail(st, "tty write: wrote more than offered")
         ELSE IF e.written < st.debt THEN Fail(st, "tty write: peer saw more bytes than the write reported")
         ELSE LET s1 == Consume(st, e.written) IN
              IF Len(s1.wq) # e.chunks THEN Fail(st, "tty write: chunk count differs after consume")
              ELSE [s1 EXCEPT !.kout = @ + e.written - st.debt, !.debt = 0, !.inflight = 0]
    [] e.ev = "signal" ->
         IF ~st.sel.s THEN Fail(st, "signal processed without the signal pipe being readable")
         \* escape-sequence size mode: the signal makes the library ask the terminal (10 bytes: CSI 18 t CSI 14 t);
         \* the Resize event follows the terminal's answer.  sizeOut counts the requests that are queued or with the
         \* terminal: a dropped chunk must never reduce it (checked at `quiet` through the answers)
         ELSE IF e.sig = 28 /\ st.esc THEN [st EXCEPT !.sizeOut = @ + 1, !.expectW = TRUE, !.lastWinchSeen = seq]
         ELSE IF e.sig = 28 THEN [st EXCEPT !.evq = Append(@, [k |-> "resize", id |-> 0]), !.lastWinchSeen = seq]
         ELSE IF e.sig \in {15, 2, 3} THEN [st EXCEPT !.termsig = TRUE]
         ELSE st
    [] e.ev = "waker_ready" ->
         IF ~st.sel.k THEN Fail(st, "waker read without readable")
         ELSE IF st.wstart = 0 THEN Fail(st, "waker readable without any wake call")
         ELSE [st EXCEPT !.wendAtReady = st.wend]
    [] e.ev = "waker_read" ->
         LET q == Append(st.evq, [k |-> "wake", id |-> 0]) IN
         IF e.evq # Len(q) THEN Fail(st, "waker read: a Wake event was not queued")
         ELSE [st EXCEPT !.evq = q, !.cHigh = st.wstart, !.lastWakerRead = seq]
    [] e.ev = "tty_read" ->
         IF e.n > Len(st.pin) THEN Fail(st, "tty read: more than was sent")
         ELSE IF e.n = 0 THEN st
         ELSE [st EXCEPT !.evq = @ \o ReadEvents(st.pin, e.n, st.esc), !.pin = Drop2(@, e.n),
                         !.sizeOut = IF st.esc THEN (IF @ > Reports(st.pin, e.n) THEN @ - Reports(st.pin, e.n) ELSE 0) ELSE @]
    [] e.ev = "loop_end" ->
         IF e.evq # Len(st.evq) THEN Fail(st, "event queue length differs from model at end of loop iteration")
         ELSE IF st.expectW THEN Fail(st, "window-size signal in escape-sequence size mode did not queue a size request")
         ELSE [st EXCEPT !.wendMark = st.wend]
    [] e.ev = "poll_exit" ->
         \* the event is popped here; the harness's poll_ret is cross-checked against it
         IF e.chunks # Len(st.wq) THEN Fail(st, "poll_exit: chunk count differs from model")
         ELSE IF e.evq # Len(st.evq) THEN Fail(st, "poll_exit: event queue length differs from model")
         ELSE IF st.evq = <<>> THEN (IF e.kind # "none" THEN Fail(st, "poll returned an event that was never queued") ELSE [st EXCEPT !.inpoll = FALSE, !.popped = [k |-> "none", id |-> 0]])
         ELSE IF e.kind # st.evq[1].k THEN Fail(st, "events delivered out of arrival order")
         ELSE [st EXCEPT !.inpoll = FALSE, !.popped = st.evq[1], !.evq = Tail(@)]
    [] e.ev = "poll_ret" ->
         IF e.kind = "quit" THEN (IF ~st.termsig /\ ~e.eof THEN Fail(st, "poll returned Quit without a termination signal") ELSE [st EXCEPT !.termsig = FALSE, !.inpoll = FALSE])
         ELSE IF st.termsig THEN Fail(st, "termination signal did not surface as Quit")
         ELSE IF e.kind # st.popped.k \/ (e.kind = "key" /\ e.id # st.popped.id) \/ (e.kind = "resize" /\ st.popped.id # 0 /\ e.id # st.popped.id) THEN Fail(st, "poll returned a different event than the one at the head of the queue")
         ELSE st
    [] e.ev = "wake_start" -> [st EXCEPT !.wstart = @ + 1, !.lastWakeStart = seq]
    [] e.ev = "wake_end" -> [st EXCEPT !.wend = @ + 1]
    [] e.ev = "sig_raise" -> IF e.sig = 28 THEN [st EXCEPT !.lastWinchRaise = seq] ELSE st
    [] e.ev = "peer_send" ->
         IF e.kind = "size" THEN [st EXCEPT !.pin = @ \o [i \in 1..e.n |-> <<"z", i, e.n, e.id>>], !.lastSizeAns = seq]
         ELSE [st EXCEPT !.pin = @ \o (IF e.kind = "key" THEN <<<<"k", e.id>>>> ELSE [i \in 1..7 |-> <<"d", i>>])]
    [] e.ev = "peer_recv" ->
         \* bytes of a write call that is still in flight may already be visible to the peer;
         \* once the line settings are restored the kernel echoes the peer's own input back
         IF st.restored THEN st
         ELSE IF e.n > st.kout + (st.inflight - st.debt) THEN Fail(st, "peer received bytes that were never written")
         ELSE IF e.n <= st.kout THEN [st EXCEPT !.kout = @ - e.n, !.wire = @ + e.n]
         ELSE [st EXCEPT !.kout = 0, !.debt = @ + (e.n - st.kout), !.wire = @ + e.n]
    [] e.ev = "peer_saw" ->
         IF ~st.disposed THEN st
         ELSE IF e.what = "cursor_on" THEN [st EXCEPT !.sawCursor = TRUE] ELSE [st EXCEPT !.sawMouse = TRUE]
    [] e.ev = "quiet" ->
         \* the application polled until nothing was left: every request must have been served
         IF st.lastWakeStart >= 0 /\ st.lastWakerRead < st.lastWakeStart THEN Fail(st, "a wake request was never followed by a waker read")
         ELSE IF st.evq # <<>> THEN Fail(st, "queued events were never delivered")
         ELSE IF st.lastWinchRaise >= 0 /\ st.lastWinchSeen < st.lastWinchRaise THEN Fail(st, "a window-size signal was never processed")
         \* escape-sequence size mode: the terminal was asked, and answered, after the last window-size signal was seen
         ELSE IF st.esc /\ st.sizeOut # 0 THEN Fail(st, "a size request issued after a window-size signal was never answered: it did not reach the terminal")
         ELSE IF st.esc /\ st.lastWinchSeen >= 0 /\ st.lastSizeAns < st.lastWinchSeen THEN Fail(st, "no size report followed the last window-size signal: the size request never reached the terminal")
         ELSE IF st.pin # <<>> THEN Fail(st, "input bytes were never read")
         ELSE st
    [] e.ev = "dispose_enter" -> [st EXCEPT !.disposed = TRUE]
    [] e.ev = "dispose_synced" -> st
    [] e.ev = "termios_restored" -> [st EXCEPT !.restored = TRUE]
    [] e.ev = "peer_rle" ->
         IF [i \in 1..Len(e.rle) |-> <<e.rle[i][1], e.rle[i][2]>>] # st.sentpay THEN Fail(st, "payload received by the peer differs from the payload of the non-dropped chunks in order")
         ELSE st
    [] e.ev = "post_drop" ->
         IF ~st.restored THEN Fail(st, "line settings were not restored on release")
         ELSE IF ~e.termios_equal THEN Fail(st, "line settings after release differ from those found at open")
         ELSE IF ~(st.sawCursor /\ st.sawMouse) THEN Fail(st, "closing sequence (cursor on, mouse reporting off) did not reach the peer")
         ELSE st
    [] e.ev = "session_start" -> [st EXCEPT !.esc = e.esc, !.live = TRUE]
    [] e.ev = "note" -> st
    [] OTHER -> Fail(st, "unknown event")

\* conservation after every step: everything written is queued, in the kernel, on the wire, or was dropped whole
Conserved(st) == st.written = QLen(st.wq, 1) + st.kout + st.wire + st.dropped - st.debt
RECURSIVE Walk(_, _, _)
Walk(evs, i, st) ==
  IF i > Len(evs) THEN [why |-> "ok", at |-> 0]
  ELSE LET s1 == Apply(st, evs[i], i) IN
       IF s1.err # "" THEN [why |-> s1.err, at |-> i]
       ELSE IF ~Conserved(s1) THEN [why |-> "conservation of bytes violated", at |-> i]
       ELSE Walk(evs, i + 1, s1)
Verdict(r) == IF r.panic # "" THEN [why |-> "panic", at |-> 0] ELSE Walk(r.events, 1, St0)
Bad == SelectSeq([i \in 1..Len(Rec) |-> [id |-> Rec[i].id] @@ Verdict(Rec[i])], LAMBDA v : v.why # "ok")
ASSUME ndJsonSerialize(IOEnv.OUT, Bad)
ASSUME PrintT(<<"JUDGED", Len(Rec), Len(Bad)>>)
VARIABLE x
Init == x = 0
Next == UNCHANGED x
=============================================================================
