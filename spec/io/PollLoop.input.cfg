CONSTANTS KCap = 1 WCap = 1 MaxBytes = 1 MaxChunk = 1 NW = 0 NIn = 2 NSig = 1 MaxPolls = 2
INIT Init
NEXT Next
CONSTRAINT QBound
INVARIANTS OrderOK NoTear WakeSafe InputOK
CHECK_DEADLOCK FALSE
