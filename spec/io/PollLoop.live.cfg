CONSTANTS KCap = 1 WCap = 1 MaxBytes = 0 MaxChunk = 1 NW = 2 NIn = 0 NSig = 0 MaxPolls = 3
SPECIFICATION SpecLive
PROPERTIES WakeLive WakeQueued
CHECK_DEADLOCK FALSE
