CONSTANTS KCap = 2 WCap = 1 MaxBytes = 3 MaxChunk = 2 NW = 0 NIn = 0 NSig = 0 MaxPolls = 2
INIT Init
NEXT Next
CONSTRAINT QBound
INVARIANTS OrderOK NoTear WakeSafe InputOK
CHECK_DEADLOCK FALSE
