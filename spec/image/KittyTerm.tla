------------------------------ MODULE KittyTerm ------------------------------
(* The kitty graphics protocol as a terminal-side machine over parsed APC   *)
(* commands (property C11).  term = [images: id -> [w, h, data], pend: the  *)
(* transmission in progress, places: set of <<id, pid, row, col>>, cur:     *)
(* cursor, err: first protocol error].  Placement id 0 means "unspecified": *)
(* put creates an anonymous placement, delete removes every placement of    *)
(* the image.  Ids travel as digit strings (they exceed 2^31).              *)
EXTENDS VT, Base64, FiniteSets

SemiIdx(d) == IF \E i \in 1..Len(d) : d[i] = 59 THEN CHOOSE i \in 1..Len(d) : d[i] = 59 /\ \A j \in 1..(i - 1) : d[j] # 59 ELSE Len(d) + 1
Ctrl(d) == SubSeq(d, 2, SemiIdx(d) - 1)
Payload(d) == SubSeq(d, SemiIdx(d) + 1, Len(d))
KVs(d) == IF Ctrl(d) = <<>> THEN <<>> ELSE Split(Ctrl(d), 44, 1, <<>>)
ValOf(d, k) == LET kv == KVs(d)
                   hit == { i \in 1..Len(kv) : Len(kv[i]) >= 2 /\ kv[i][1] = k /\ kv[i][2] = 61 }
               IN IF hit = {} THEN <<>> ELSE LET i == CHOOSE i \in hit : TRUE IN SubSeq(kv[i], 3, Len(kv[i]))
kA == 97  kD == 100  kF == 102  kI == 105  kM == 109  kP == 112  kQ == 113  kS == 115  kV == 118  kC == 67
NumOf(ds) == IF ds = <<>> THEN <<48>> ELSE StripZ(ds)
RECURSIVE DgK(_)
DgK(n) == IF n < 10 THEN <<48 + n>> ELSE DgK(n \div 10) \o <<48 + (n % 10)>>
RECURSIVE ToNat(_, _, _)
ToNat(ds, i, acc) == IF i > Len(ds) THEN acc ELSE ToNat(ds, i + 1, acc * 10 + (ds[i] - 48))

NoPend == [on |-> FALSE, id |-> <<>>, w |-> <<>>, h |-> <<>>, data |-> <<>>]
Term0 == [images |-> {}, pend |-> NoPend, places |-> {}, cur |-> <<0, 0>>, err |-> ""]
Fail(t, why) == IF t.err = "" THEN [t EXCEPT !.err = why] ELSE t
ImgIds(t) == { im.id : im \in t.images }

\* one graphics command (body d of an APC that starts with 'G')
Gfx(t, d) ==
  LET a == ValOf(d, kA)  pl == Payload(d)  more == NumOf(ValOf(d, kM)) = <<49>> IN
  IF t.pend.on /\ a = <<>> THEN
     \* continuation chunk of the transmission in progress
     IF Len(pl) > 4096 THEN Fail(t, "chunk larger than 4096")
     ELSE IF more /\ Len(pl) % 4 # 0 THEN Fail(t, "non-final chunk not a multiple of four")
     ELSE LET p1 == [t.pend EXCEPT !.data = @ \o pl] IN
          IF more THEN [t EXCEPT !.pend = p1]
          ELSE [t EXCEPT !.pend = NoPend, !.images = { im \in @ : im.id # p1.id } \cup {[id |-> p1.id, w |-> p1.w, h |-> p1.h, data |-> p1.data]}]
  ELSE IF t.pend.on THEN Fail(t, "command inside an unfinished chunked transmission")
  ELSE IF a = <<116>> THEN     \* a=t transmit
     IF NumOf(ValOf(d, kF)) # <<51, 50>> THEN Fail(t, "transmission is not f=32 RGBA")
     ELSE IF ValOf(d, kI) = <<>> \/ NumOf(ValOf(d, kI)) = <<48>> THEN Fail(t, "transmission without a valid image id")
     ELSE IF Len(pl) > 4096 THEN Fail(t, "chunk larger than 4096")
     ELSE IF more /\ Len(pl) % 4 # 0 THEN Fail(t, "non-final chunk not a multiple of four")
     ELSE LET p1 == [on |-> TRUE, id |-> NumOf(ValOf(d, kI)), w |-> NumOf(ValOf(d, kS)), h |-> NumOf(ValOf(d, kV)), data |-> pl] IN
          IF more THEN [t EXCEPT !.pend = p1]
          ELSE [t EXCEPT !.images = { im \in @ : im.id # p1.id } \cup {[id |-> p1.id, w |-> p1.w, h |-> p1.h, data |-> p1.data]}]
  ELSE IF a = <<112>> THEN     \* a=p put at the cursor
     LET id == NumOf(ValOf(d, kI))  pid == NumOf(ValOf(d, kP)) IN
     IF id \notin ImgIds(t) THEN Fail(t, "placement of an image that was never transmitted")
     ELSE IF pid = <<48>> THEN [t EXCEPT !.places = @ \cup {<<id, <<48>>, t.cur[1], t.cur[2]>>}]
     ELSE [t EXCEPT !.places = { q \in @ : ~(q[1] = id /\ q[2] = pid) } \cup {<<id, pid, t.cur[1], t.cur[2]>>}]
  ELSE IF a = <<100>> THEN     \* a=d delete
     IF ValOf(d, kD) # <<105>> THEN Fail(t, "unexpected delete mode")
     ELSE LET id == NumOf(ValOf(d, kI))  pid == NumOf(ValOf(d, kP)) IN
          IF pid = <<48>> THEN [t EXCEPT !.places = { q \in @ : q[1] # id }]
          ELSE [t EXCEPT !.places = { q \in @ : ~(q[1] = id /\ q[2] = pid) }]
  ELSE Fail(t, "unknown graphics action")

\* execute one parsed item: graphics commands, cursor positioning, save / restore
Exec(t, it) ==
  IF it.t = "apc" /\ Len(it.p) >= 1 /\ it.p[1] = 71 THEN Gfx(t, it.p)
  ELSE IF it.t = "csi" /\ it.f = 72 THEN
       LET g == Groups(it.p) IN [t EXCEPT !.cur = <<ToNat(NumOf(g[1]), 1, 0) - 1, ToNat(NumOf(g[2]), 1, 0) - 1>>]
  ELSE IF it.t = "esc" /\ it.f \in {55, 56} THEN t          \* cursor save / restore around a re-draw
  ELSE IF it.t = "bad" THEN Fail(t, "malformed escape sequence")
  ELSE Fail(t, "unexpected output")
RECURSIVE ExecAll(_, _, _)
ExecAll(t, its, i) == IF i > Len(its) THEN t ELSE ExecAll(Exec(t, its[i]), its, i + 1)
\* decoded pixels of a stored image; declared size must match the data
ImageOf(t, id) == CHOOSE im \in t.images : im.id = id
=============================================================================
