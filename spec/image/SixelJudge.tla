------------------------------ MODULE SixelJudge ------------------------------
(* A reference sixel interpreter (terminal side) and the judge for C12.     *)
(* DCS q, raster attributes "Pan;Pad;Ph;Pv, colour definition #n;2;r;g;b    *)
(* (channels 0..100), colour select #n, repeat !n c, data bytes 63..126,    *)
(* $ (carriage return), - (next band), ST.  State: raster size, registers,  *)
(* current register, x, band, painted: pixel -> register.                   *)
(* Verdicts: exactly one well-formed sequence; declared size = (width,      *)
(* 6*floor(h/6)); every pixel of the raster painted, none outside; at most  *)
(* 256 registers, every used one defined; if the source has <= 256 distinct *)
(* colours at the 0..100 resolution the decoded picture equals it pixel for *)
(* pixel; a second draw of the same image emitted identical bytes.          *)
EXTENDS Integers, Sequences, FiniteSets, TLC, Json, IOUtils, SequencesExt
Rec == ndJsonDeserialize(IOEnv.TRACE)
N(b) == [i \in 1..Len(b) |-> b[i]]
IsDigit(b) == b >= 48 /\ b <= 57

\* read a decimal number at i: <<value, next index>> ; value -1 if no digits
RECURSIVE RdNum(_, _, _, _)
RdNum(bs, i, acc, any) == IF i <= Len(bs) /\ IsDigit(bs[i]) THEN RdNum(bs, i + 1, acc * 10 + (bs[i] - 48), TRUE)
                          ELSE <<IF any THEN acc ELSE -1, i>>
\* read ';'-separated numbers starting at i: <<seq of values, next>>
RECURSIVE RdNums(_, _)
RdNums(bs, i) == LET r == RdNum(bs, i, 0, FALSE) IN
                 IF r[2] <= Len(bs) /\ bs[r[2]] = 59
                 THEN LET rest == RdNums(bs, r[2] + 1) IN <<<<r[1]>> \o rest[1], rest[2]>>
                 ELSE <<<<r[1]>>, r[2]>>

\* sixel machine state
\* [w, h, reg: function 0..255 -> <<r,g,b>> or <<-1>>, cur, x, band, pix: function <<row,col>> -> register (partial), bad: string]
St0 == [w |-> -1, h |-> -1, reg |-> [i \in 0..255 |-> <<-1, -1, -1>>], cur |-> -1, x |-> 0, band |-> 0, pix |-> << >>, bad |-> "", nreg |-> 0]
PaintCols(st, code, n) ==
  \* paint n columns starting at st.x with sixel bits (code - 63) in the current register
  LET bits == code - 63
      rows == { k \in 0..5 : (bits \div (2^k)) % 2 = 1 }
      newp == { <<st.band * 6 + k, st.x + j>> : k \in rows, j \in 0..(n - 1) }
      outside == \E p \in newp : p[1] >= st.h \/ p[2] >= st.w
  IN [st EXCEPT !.pix = [p \in (DOMAIN st.pix) \cup newp |-> IF p \in newp THEN st.cur ELSE st.pix[p]],
                !.x = st.x + n,
                !.bad = IF @ # "" THEN @ ELSE IF outside THEN "outside-raster" ELSE IF st.cur < 0 THEN "no-colour-selected"
                        ELSE IF rows # {} /\ st.reg[st.cur][1] < 0 THEN "undefined-register" ELSE ""]

RECURSIVE Run(_, _, _)
Run(bs, i, st) ==
  IF st.bad # "" THEN st
  ELSE IF i > Len(bs) THEN [st EXCEPT !.bad = "unterminated"]
  ELSE LET b == bs[i] IN
    IF b = 27 THEN (IF i + 1 = Len(bs) /\ bs[i+1] = 92 THEN st ELSE [st EXCEPT !.bad = "bad-terminator"])
    ELSE IF b = 34 THEN  \* raster attributes
         LET r == RdNums(bs, i + 1) IN
         IF Len(r[1]) = 4 /\ r[1][3] >= 0 /\ r[1][4] >= 0 THEN Run(bs, r[2], [st EXCEPT !.w = r[1][3], !.h = r[1][4]]) ELSE [st EXCEPT !.bad = "bad-raster"]
    ELSE IF b = 35 THEN  \* colour
         LET r == RdNums(bs, i + 1) IN
         IF Len(r[1]) = 1 /\ r[1][1] \in 0..255 THEN Run(bs, r[2], [st EXCEPT !.cur = r[1][1]])
         ELSE IF Len(r[1]) = 5 /\ r[1][1] \in 0..255 /\ r[1][2] = 2 /\ \A k \in 3..5 : r[1][k] \in 0..100
              THEN Run(bs, r[2], [st EXCEPT !.reg[r[1][1]] = <<r[1][3], r[1][4], r[1][5]>>, !.cur = r[1][1], !.nreg = @ + 1])
         ELSE [st EXCEPT !.bad = "bad-colour"]
    ELSE IF b = 33 THEN  \* repeat
         LET r == RdNum(bs, i + 1, 0, FALSE) IN
         IF r[1] >= 1 /\ r[2] <= Len(bs) /\ bs[r[2]] >= 63 /\ bs[r[2]] <= 126 THEN Run(bs, r[2] + 1, PaintCols(st, bs[r[2]], r[1]))
         ELSE [st EXCEPT !.bad = "bad-repeat"]
    ELSE IF b = 36 THEN Run(bs, i + 1, [st EXCEPT !.x = 0])
    ELSE IF b = 45 THEN Run(bs, i + 1, [st EXCEPT !.x = 0, !.band = @ + 1])
    ELSE IF b >= 63 /\ b <= 126 THEN Run(bs, i + 1, PaintCols(st, b, 1))
    ELSE [st EXCEPT !.bad = "bad-byte"]

Lvl(c) == (c * 100 + 127) \div 255        \* round(c / 2.55)
Abs(x) == IF x < 0 THEN -x ELSE x
\* equal up to `tol` levels per channel (tol = 1 for images with translucent pixels: the handler rounds the channels to
\* the 0..100 grid before compositing, the reference composites first)
Near(a, b, tol) == \A k \in 1..3 : Abs(a[k] - b[k]) <= tol
\* large images (palette built from a sample of the pixels): only the control items, extracted by the harness
BigVerdict(r) ==
  LET defs == { N(r.defs[i]) : i \in 1..Len(r.defs) }
      defined == { d[1] : d \in defs }
  IN IF r.panic # "" THEN "panic"
     ELSE IF ~r.framed THEN "bad-introducer"
     ELSE IF Len(r.raster) # 4 \/ r.raster[3] # r.w \/ r.raster[4] # (r.h \div 6) * 6 THEN "declared size differs from (width, 6*floor(h/6))"
     ELSE IF \E d \in defs : Len(d) # 5 \/ d[2] # 2 \/ d[3] > 100 \/ d[4] > 100 \/ d[5] > 100 THEN "bad-colour"
     ELSE IF \E n \in defined : n > 255 THEN "colour register beyond 255 defined"
     ELSE IF Cardinality(defined) > 256 THEN "more than 256 colour registers defined"
     ELSE IF \E i \in 1..Len(r.selected) : r.selected[i] \notin defined THEN "undefined-register"
     ELSE IF ~r.same THEN "a second draw of the same image emitted different bytes"
     \* levels # <<>>: the image is not subsampled and its colours (given at the 0..100 resolution) fit the palette:
     \* exact reproduction needs every one of them as a defined register that is selected somewhere
     ELSE IF \E i \in 1..Len(r.levels) : ~ \E d \in defs : <<d[3], d[4], d[5]>> = N(r.levels[i]) /\ \E j \in 1..Len(r.selected) : r.selected[j] = d[1]
          THEN "a colour of the source is missing from the picture although the colours fit the palette and the image is not subsampled"
     ELSE "ok"
Verdict(r) ==
  LET bs == N(r.bytes) IN
  IF r.t = "big" THEN BigVerdict(r)
  ELSE IF r.panic # "" THEN "panic"
  ELSE IF Len(bs) < 5 \/ SubSeq(bs, 1, 3) # <<27, 80, 113>> THEN "bad-introducer"
  ELSE LET st == Run(bs, 4, St0)
           H6 == (r.h \div 6) * 6
           all == { <<y, x>> : y \in 0..(H6 - 1), x \in 0..(r.w - 1) }
           src(p) == LET c == r.px[p[1] * r.w + p[2] + 1] IN <<Lvl(c[1]), Lvl(c[2]), Lvl(c[3])>>
           distinct == { src(p) : p \in all }
       IN IF st.bad # "" THEN st.bad
          ELSE IF st.w # r.w \/ st.h # H6 THEN "declared size differs from (width, 6*floor(h/6))"
          ELSE IF DOMAIN st.pix # all THEN "not every pixel of the raster is painted"
          ELSE IF ~r.same THEN "a second draw of the same image emitted different bytes"
          ELSE IF Cardinality(distinct) <= 256 /\ \E p \in all : ~Near(st.reg[st.pix[p]], src(p), r.tol) THEN "decoded picture differs from the source although its colours fit the palette"
          ELSE "ok"
Bad == SelectSeq([i \in 1..Len(Rec) |-> [id |-> Rec[i].id, why |-> Verdict(Rec[i])]], LAMBDA v : v.why # "ok")
ASSUME ndJsonSerialize(IOEnv.OUT, Bad)
ASSUME PrintT(<<"JUDGED", Len(Rec), Len(Bad)>>)
VARIABLE x
Init == x = 0
Next == UNCHANGED x
=============================================================================
