------------------------------ MODULE B64Stream ------------------------------
(* Code-shaped model of the streaming codec: Base64Encoder (3-byte carry,   *)
(* write(chunk), finish) and Base64Decoder (4-in/3-out groups into a small  *)
(* buffer, filled through a reader that may return short reads, drained by  *)
(* reads of any destination size).  Checked against Base64!Encode/Decode    *)
(* for every input, every write partition, every read-size schedule and     *)
(* every drain schedule.  FixShortRead = TRUE is the current /repo.         *)
EXTENDS Base64, FiniteSets, TLC
CONSTANTS Bytes, MaxLen, ReadK, BufCap, FixShortRead, Cuts

Inputs == UNION { [1..n -> Bytes] : n \in 0..MaxLen }

VARIABLES mode, data, wpos, carry, encOut,              \* encoder
          text, rpos, grp, obuf, delivered, derr, eof    \* decoder
vars == <<mode, data, wpos, carry, encOut, text, rpos, grp, obuf, delivered, derr, eof>>

Init == /\ mode = "enc" /\ data \in Inputs /\ wpos = 0 /\ carry = <<>> /\ encOut = <<>>
        /\ text = <<>> /\ rpos = 0 /\ grp = <<>> /\ obuf = <<>> /\ delivered = <<>> /\ derr = FALSE /\ eof = FALSE

Group(b) == <<Enc6(b[1] \div 4), Enc6((b[1] % 4) * 16 + b[2] \div 16), Enc6((b[2] % 16) * 4 + b[3] \div 64), Enc6(b[3] % 64)>>
RECURSIVE Push(_, _, _)
Push(c, out, bs) == IF bs = <<>> THEN <<c, out>>
                    ELSE LET c1 == Append(c, Head(bs)) IN
                         IF Len(c1) = 3 THEN Push(<<>>, out \o Group(c1), Tail(bs)) ELSE Push(c1, out, Tail(bs))
\* write(chunk) of any size, including empty writes
EncWrite(k) == /\ mode = "enc" /\ wpos + k <= Len(data)
               /\ LET r == Push(carry, encOut, SubSeq(data, wpos + 1, wpos + k)) IN carry' = r[1] /\ encOut' = r[2]
               /\ wpos' = wpos + k
               /\ UNCHANGED <<mode, data, text, rpos, grp, obuf, delivered, derr, eof>>
\* finish(): padding; the text handed to the decoder is the output with `cut` characters removed at the end
Finish(cut) ==
  /\ mode = "enc" /\ wpos = Len(data)
  /\ LET tail == IF Len(carry) = 0 THEN <<>>
                 ELSE IF Len(carry) = 1 THEN <<Enc6(carry[1] \div 4), Enc6((carry[1] % 4) * 16), PAD, PAD>>
                 ELSE <<Enc6(carry[1] \div 4), Enc6((carry[1] % 4) * 16 + carry[2] \div 16), Enc6((carry[2] % 16) * 4), PAD>>
         full == encOut \o tail
     IN /\ encOut' = full /\ cut <= Len(full) /\ text' = SubSeq(full, 1, Len(full) - cut)
  /\ mode' = "dec" /\ UNCHANGED <<data, wpos, carry, rpos, grp, obuf, delivered, derr, eof>>

Dec3(q) == LET v(i) == IF q[i] = PAD THEN 0 ELSE Dec6(q[i])
               n == IF q[3] = PAD THEN 1 ELSE IF q[4] = PAD THEN 2 ELSE 3
               all == <<v(1) * 4 + v(2) \div 16, (v(2) % 16) * 16 + v(3) \div 4, (v(3) % 4) * 64 + v(4)>>
           IN SubSeq(all, 1, n)
\* buffer_fill, one underlying read of `got` bytes towards the current group; only while a
\* whole group still fits the buffer
DecRead(got) ==
  /\ mode = "dec" /\ ~derr /\ ~eof /\ Len(obuf) + 3 <= BufCap
  /\ got >= 1 /\ got <= ReadK /\ got <= 4 - Len(grp) /\ got <= Len(text) - rpos
  /\ LET g1 == grp \o SubSeq(text, rpos + 1, rpos + got) IN
     IF Len(g1) = 4 THEN obuf' = obuf \o Dec3(g1) /\ grp' = <<>> /\ UNCHANGED derr
     ELSE IF FixShortRead THEN grp' = g1 /\ UNCHANGED <<obuf, derr>>
     ELSE derr' = TRUE /\ UNCHANGED <<obuf, grp>>          \* pinned: a short read is an error
  /\ rpos' = rpos + got
  /\ UNCHANGED <<mode, data, wpos, carry, encOut, text, delivered, eof>>
\* the reader reports end of input
DecEof ==
  /\ mode = "dec" /\ ~derr /\ ~eof /\ rpos = Len(text) /\ Len(obuf) + 3 <= BufCap
  /\ IF grp # <<>> THEN derr' = TRUE /\ UNCHANGED eof ELSE eof' = TRUE /\ UNCHANGED derr
  /\ UNCHANGED <<mode, data, wpos, carry, encOut, text, rpos, grp, obuf, delivered>>
\* read(dst): copies k buffered bytes out
Drain(k) == /\ mode = "dec" /\ k >= 1 /\ k <= Len(obuf)
            /\ delivered' = delivered \o SubSeq(obuf, 1, k) /\ obuf' = SubSeq(obuf, k + 1, Len(obuf))
            /\ UNCHANGED <<mode, data, wpos, carry, encOut, text, rpos, grp, derr, eof>>

Next == (\E k \in 0..MaxLen : EncWrite(k)) \/ (\E c \in Cuts : Finish(c)) \/ (\E g \in 1..4 : DecRead(g)) \/ DecEof \/ (\E k \in 1..BufCap : Drain(k))

\* finish output = RFC 4648 text, for every partition into writes
EncOK == mode = "dec" => encOut = Encode(data)
\* whole text: reading to the end yields the original bytes, for every read and drain schedule
DecOK == (mode = "dec" /\ eof /\ obuf = <<>>) => (Len(text) % 4 = 0 /\ delivered = Decode(text))
\* an error is reported only for text whose length is not a multiple of four
NoSpuriousError == derr => Len(text) % 4 # 0
\* and such text is never silently accepted
NoSilentTruncation == (mode = "dec" /\ eof) => Len(text) % 4 = 0
\* what has been delivered is always a prefix of the decoding of the complete groups
PrefixOK == mode = "dec" => LET whole == SubSeq(text, 1, 4 * (Len(text) \div 4)) d == delivered \o obuf IN
                            Len(d) <= Len(Decode(whole)) /\ d = SubSeq(Decode(whole), 1, Len(d))
=============================================================================
