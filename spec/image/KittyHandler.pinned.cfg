CONSTANTS Images = {1, 2} Positions = {0, 1, 2} MaxOps = 5 ZeroPid = TRUE
INIT Init
NEXT Next
INVARIANTS Refers Paired CacheAgrees
CHECK_DEADLOCK FALSE
