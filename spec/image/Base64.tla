------------------------------- MODULE Base64 -------------------------------
(* RFC 4648 base64 with padding as closed-form functions over byte          *)
(* sequences (property-level specification of C14).                         *)
EXTENDS Integers, Sequences
Enc6(v) == IF v < 26 THEN 65 + v ELSE IF v < 52 THEN 97 + (v - 26) ELSE IF v < 62 THEN 48 + (v - 52) ELSE IF v = 62 THEN 43 ELSE 47
Dec6(c) == IF c >= 65 /\ c <= 90 THEN c - 65 ELSE IF c >= 97 /\ c <= 122 THEN c - 97 + 26 ELSE IF c >= 48 /\ c <= 57 THEN c - 48 + 52 ELSE IF c = 43 THEN 62 ELSE IF c = 47 THEN 63 ELSE -1
PAD == 61
At(d, i) == IF i <= Len(d) THEN d[i] ELSE 0
Encode(d) ==
  LET n == Len(d)  g == (n + 2) \div 3 IN
  [i \in 1..(4 * g) |->
     LET k == (i - 1) \div 4  j == (i - 1) % 4
         b0 == At(d, 3*k + 1)  b1 == At(d, 3*k + 2)  b2 == At(d, 3*k + 3)
         have == n - 3*k
     IN CASE j = 0 -> Enc6(b0 \div 4)
          [] j = 1 -> Enc6((b0 % 4) * 16 + b1 \div 16)
          [] j = 2 -> IF have >= 2 THEN Enc6((b1 % 16) * 4 + b2 \div 64) ELSE PAD
          [] j = 3 -> IF have >= 3 THEN Enc6(b2 % 64) ELSE PAD]
\* canonical text: length multiple of 4, alphabet characters, padding only at the very end
Canonical(t) ==
  /\ Len(t) % 4 = 0
  /\ \A i \in 1..Len(t) : Dec6(t[i]) >= 0 \/ (t[i] = PAD /\ i >= Len(t) - 1 /\ (i = Len(t) \/ t[Len(t)] = PAD))
Decode(t) ==
  LET g == Len(t) \div 4
      pad == IF g = 0 THEN 0 ELSE (IF t[4*g] = PAD THEN 1 ELSE 0) + (IF t[4*g - 1] = PAD THEN 1 ELSE 0)
      n == 3 * g - pad
      V(i) == IF t[i] = PAD THEN 0 ELSE Dec6(t[i])
  IN [i \in 1..n |->
        LET k == (i - 1) \div 3  j == (i - 1) % 3
            v0 == V(4*k + 1) v1 == V(4*k + 2) v2 == V(4*k + 3) v3 == V(4*k + 4)
        IN CASE j = 0 -> v0 * 4 + v1 \div 16
             [] j = 1 -> (v1 % 16) * 16 + v2 \div 4
             [] j = 2 -> (v2 % 4) * 64 + v3]
=============================================================================
