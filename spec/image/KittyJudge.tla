------------------------------ MODULE KittyJudge ------------------------------
(* Judges histories of draw / erase / error-response events on the real     *)
(* KittyImageHandler: the raw output bytes of every call are parsed (VT)    *)
(* and executed on KittyTerm.  Verdicts: protocol well-formedness, payload  *)
(* = the image's RGBA pixels with the declared size, at most one            *)
(* transmission per content between error responses, every placement refers *)
(* to a transmitted image, and the placements the terminal holds are        *)
(* exactly those drawn and not erased.                                      *)
EXTENDS KittyTerm, Json, IOUtils, SequencesExt
Rec == ndJsonDeserialize(IOEnv.TRACE)
N(b) == [i \in 1..Len(b) |-> b[i]]

\* st = [t: terminal, ids: set of <<image index, id>>, want: set of <<image index, r, c>>]
St0 == [t |-> Term0, ids |-> {}, want |-> {}]
Shown(st) == { <<(CHOOSE p \in st.ids : p[2] = q[1])[1], q[3], q[4]>> : q \in { x \in st.t.places : \E p \in st.ids : p[2] = x[1] } }
\* ids of commands a=t / a=p in a parsed output
TransmitIds(its) == { NumOf(ValOf(its[i].p, kI)) : i \in { j \in 1..Len(its) : its[j].t = "apc" /\ ValOf(its[j].p, kA) = <<116>> } }
PutIds(its) == { NumOf(ValOf(its[i].p, kI)) : i \in { j \in 1..Len(its) : its[j].t = "apc" /\ ValOf(its[j].p, kA) = <<112>> } }

Step(st, o, px) ==
  LET its == Parse(N(o.bytes), 1)
      t0 == [st.t EXCEPT !.cur = <<o.r, o.c>>]      \* the renderer moves the cursor to the position first
  IN
  IF o.op = "error" THEN
     \* the terminal reports it does not have the image: data and placements are gone
     LET id == N(o.id)
         t1 == [t0 EXCEPT !.images = { im \in @ : im.id # id }, !.places = { q \in @ : q[1] # id }]
         t2 == ExecAll(t1, its, 1)
         ii == IF \E p \in st.ids : p[2] = id THEN (CHOOSE p \in st.ids : p[2] = id)[1] ELSE -1
         want1 == { w \in st.want : w[1] # ii } \cup (IF o.hasp /\ PutIds(its) # {} THEN {<<ii, o.r, o.c>>} ELSE {})
     IN [st |-> [st EXCEPT !.t = t2, !.want = want1], v |-> t2.err]
  ELSE IF o.op = "draw" THEN
     LET empty == o.w * o.h = 0
         t1 == ExecAll(t0, its, 1)
         tx == TransmitIds(its)
         newid == IF PutIds(its) # {} THEN CHOOSE x \in PutIds(its) : TRUE ELSE <<>>
         known == IF \E p \in st.ids : p[1] = o.img THEN (CHOOSE p \in st.ids : p[1] = o.img)[2] ELSE <<>>
         st1 == [t |-> t1, ids |-> IF newid = <<>> THEN st.ids ELSE st.ids \cup {<<o.img, newid>>},
                 want |-> IF empty THEN st.want ELSE st.want \cup {<<o.img, o.r, o.c>>}]
         v == IF t1.err # "" THEN t1.err
              ELSE IF empty THEN (IF its = <<>> THEN "" ELSE "output for an empty image")
              ELSE IF Cardinality(PutIds(its)) # 1 THEN "draw did not place exactly one image"
              ELSE IF known # <<>> /\ known # newid THEN "image id changed between draws of the same content"
              ELSE IF \E p \in st.ids : p[2] = newid /\ p[1] # o.img THEN "two different images share an id"
              ELSE IF tx # {} /\ newid \in ImgIds(st.t) THEN "pixel data transmitted again although the terminal has it"
              ELSE IF tx # {} /\ tx # {newid} THEN "transmitted id differs from placed id"
              ELSE LET im == ImageOf(t1, newid) IN
                   IF tx # {} /\ (im.w # DgK(o.w) \/ im.h # DgK(o.h)) THEN "declared size differs from the image"
                   ELSE IF tx # {} /\ ~Canonical(im.data) THEN "payload is not canonical base64"
                   ELSE IF tx # {} /\ Decode(im.data) # N(px[o.img + 1]) THEN "payload differs from the image's RGBA pixels"
                   ELSE ""
     IN [st |-> st1, v |-> v]
  ELSE \* erase at a position, or (op "eraseall": erase(img, None)) every placement of the image
     LET t1 == ExecAll(t0, its, 1)
         st1 == [st EXCEPT !.t = t1, !.want = IF o.op = "eraseall" THEN { w \in @ : w[1] # o.img } ELSE @ \ {<<o.img, o.r, o.c>>}]
     IN [st |-> st1, v |-> IF t1.err # "" THEN t1.err ELSE IF Len(its) # 1 THEN "erase is not exactly one command" ELSE ""]

RECURSIVE Walk(_, _, _, _)
Walk(ops, px, i, st) ==
  IF i > Len(ops) THEN [why |-> "ok", at |-> 0]
  ELSE LET r == Step(st, ops[i], px) IN
       IF r.v # "" THEN [why |-> r.v, at |-> i]
       ELSE IF Shown(r.st) # r.st.want THEN [why |-> "placements held by the terminal differ from those drawn and not erased", at |-> i]
       ELSE Walk(ops, px, i + 1, r.st)
Verdict(r) == IF r.panic # "" THEN [why |-> "panic", at |-> 0] ELSE Walk(r.ops, r.px, 1, St0)
Bad == SelectSeq([i \in 1..Len(Rec) |-> [id |-> Rec[i].id] @@ Verdict(Rec[i])], LAMBDA v : v.why # "ok")
ASSUME ndJsonSerialize(IOEnv.OUT, Bad)
ASSUME PrintT(<<"JUDGED", Len(Rec), Len(Bad)>>)
VARIABLE x
Init == x = 0
Next == UNCHANGED x
=============================================================================
