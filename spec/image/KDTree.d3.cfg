CONSTANTS Coord = {0, 1} MaxPts = 4 D = 3
INIT Init
NEXT Next
INVARIANT ArgMin
CHECK_DEADLOCK FALSE
