CONSTANTS Bytes = {0, 65, 255} MaxLen = 4 ReadK = 4 BufCap = 6 FixShortRead = FALSE Cuts = {0, 1, 2}
INIT Init
NEXT Next
INVARIANTS EncOK DecOK NoSpuriousError NoSilentTruncation PrefixOK
CHECK_DEADLOCK FALSE
