CONSTANTS Coord = {0, 1, 2} MaxPts = 4 D = 2
INIT Init
NEXT Next
INVARIANT ArgMin
CHECK_DEADLOCK FALSE
