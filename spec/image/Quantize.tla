------------------------------ MODULE Quantize ------------------------------
(* Property-level specification and judge of colour quantisation (C13).     *)
(*  find:     [t, pal, qs, res]   every lookup returns an entry at minimal  *)
(*            Euclidean RGB distance, and the colour that entry holds       *)
(*  quantize: [t, px, w, h, k, dither, small, pal, idx]                      *)
(*            1 <= |palette| <= max(k, 8); index image of the same size     *)
(*            with entries < |palette|; without dithering each pixel is     *)
(*            mapped to a nearest palette colour; if the distinct colours   *)
(*            fit k and the image is not subsampled it is reproduced        *)
(*            exactly, with or without dithering.                           *)
(*  flat:     [t, w, h, k, dither, cols, maps, np]  large flat areas, judged  *)
(*            on the colour-to-colour mapping instead of pixel by pixel.     *)
(* Pixels arrive already composited over the background (the composited     *)
(* colour is computed by the rasterize crate and logged as data).           *)
EXTENDS Integers, Sequences, FiniteSets, TLC, Json, IOUtils, SequencesExt
Rec == ndJsonDeserialize(IOEnv.TRACE)
D(a, b) == (a[1] - b[1]) * (a[1] - b[1]) + (a[2] - b[2]) * (a[2] - b[2]) + (a[3] - b[3]) * (a[3] - b[3])
MinD(q, pal) == LET S == { D(q, pal[j]) : j \in 1..Len(pal) } IN CHOOSE d \in S : \A e \in S : d <= e
C3(c) == <<c[1], c[2], c[3]>>
MaxI(a, b) == IF a > b THEN a ELSE b
Verdict(r) ==
  IF r.panic # "" THEN "panic"
  ELSE IF r.t = "find" THEN
       (IF \E i \in 1..Len(r.qs) : r.res[i][1] < 0 \/ r.res[i][1] >= Len(r.pal) THEN "lookup returned an index outside the palette"
        ELSE IF \E i \in 1..Len(r.qs) : C3(r.pal[r.res[i][1] + 1]) # <<r.res[i][2], r.res[i][3], r.res[i][4]>> THEN "lookup returned a colour that is not the indexed entry"
        ELSE IF \E i \in 1..Len(r.qs) : D(C3(r.qs[i]), C3(r.pal[r.res[i][1] + 1])) # MinD(C3(r.qs[i]), r.pal) THEN "lookup returned an entry that is not at minimal distance"
        ELSE "ok")
  ELSE IF r.t = "flat" THEN
       \* a large image of a few colours (cols = <<r, g, b, count>>), not subsampled (h * w < 200 * k) and fitting the palette:
       \* every source colour is mapped to itself and nothing else
       (IF ~r.some THEN "no result for a non-empty image"
        ELSE IF r.np < 1 \/ r.np > MaxI(r.k, 8) THEN "palette size outside 1..max(k, 8)"
        ELSE IF r.iw # r.w \/ r.ih # r.h THEN "index image has a different size"
        ELSE IF ~r.inside THEN "index outside the palette"
        ELSE IF r.h * r.w < 200 * r.k /\ Len(r.cols) <= r.k /\ \E i \in 1..Len(r.cols) : r.maps[i] # << <<r.cols[i][1], r.cols[i][2], r.cols[i][3]>> >>
             THEN "image whose colours fit the palette is not reproduced exactly"
        ELSE "ok")
  ELSE \* quantize
       LET np == Len(r.pal) n == r.w * r.h
           distinct == { C3(r.px[i]) : i \in 1..n }
       IN IF ~r.some THEN (IF n = 0 THEN "ok" ELSE "no result for a non-empty image")
          ELSE IF np < 1 \/ np > MaxI(r.k, 8) THEN "palette size outside 1..max(k, 8)"
          ELSE IF r.iw # r.w \/ r.ih # r.h \/ Len(r.idx) # n THEN "index image has a different size"
          ELSE IF \E i \in 1..n : r.idx[i] < 0 \/ r.idx[i] >= np THEN "index outside the palette"
          ELSE IF ~r.dither /\ \E i \in 1..n : D(C3(r.px[i]), C3(r.pal[r.idx[i] + 1])) # MinD(C3(r.px[i]), r.pal) THEN "pixel not mapped to a nearest palette colour"
          ELSE IF r.small /\ Cardinality(distinct) <= r.k /\ \E i \in 1..n : C3(r.pal[r.idx[i] + 1]) # C3(r.px[i]) THEN "image whose colours fit the palette is not reproduced exactly"
          ELSE "ok"
Bad == SelectSeq([i \in 1..Len(Rec) |-> [id |-> Rec[i].id, why |-> Verdict(Rec[i])]], LAMBDA v : v.why # "ok")
ASSUME ndJsonSerialize(IOEnv.OUT, Bad)
ASSUME PrintT(<<"JUDGED", Len(Rec), Len(Bad)>>)
VARIABLE x
Init == x = 0
Next == UNCHANGED x
=============================================================================
