------------------------------- MODULE B64Judge -------------------------------
(* Judges recordings of the real Base64Encoder / Base64Decoder (harness      *)
(* c14-drive) against Base64.tla.                                            *)
(*  enc: [data, parts, out]           out = Encode(data) for every partition *)
(*  dec: [text, reads, dst, out, err] text canonical => out = Decode(text),  *)
(*       no error; Len(text) % 4 # 0 => error (never silent truncation)      *)
(*  any: arbitrary bytes: no panic                                           *)
EXTENDS Base64, TLC, Json, IOUtils, SequencesExt
Rec == ndJsonDeserialize(IOEnv.TRACE)
N(b) == [i \in 1..Len(b) |-> b[i]]
Verdict(r) ==
  IF r.panic # "" THEN "panic"
  ELSE IF r.t = "enc" THEN (IF N(r.out) = Encode(N(r.data)) THEN "ok" ELSE "encode")
  ELSE IF r.t = "dec" THEN
       LET t == N(r.text) IN
       IF Len(t) % 4 # 0 THEN (IF r.err THEN "ok" ELSE "silent-truncation")
       ELSE IF ~Canonical(t) THEN "ok"                       \* outside RFC 4648: only totality is required
       ELSE IF r.err THEN "spurious-error"
       ELSE IF N(r.out) # Decode(t) THEN "decode" ELSE "ok"
  ELSE "ok"
Bad == SelectSeq([i \in 1..Len(Rec) |-> [id |-> Rec[i].id, why |-> Verdict(Rec[i])]], LAMBDA v : v.why # "ok")
ASSUME ndJsonSerialize(IOEnv.OUT, Bad)
ASSUME PrintT(<<"JUDGED", Len(Rec), Len(Bad)>>)
VARIABLE x
Init == x = 0
Next == UNCHANGED x
=============================================================================
