CONSTANTS Bytes = {0, 65, 255} MaxLen = 7 ReadK = 4 BufCap = 7 FixShortRead = TRUE Cuts = {0, 1, 2}
INIT Init
NEXT Next
INVARIANTS EncOK DecOK NoSpuriousError NoSilentTruncation PrefixOK
CHECK_DEADLOCK FALSE
