------------------------------- MODULE KDTree -------------------------------
(* Code-shaped model of the nearest-colour lookup structure                 *)
(* (src/image.rs:1501-1608): median build over a stable sort with           *)
(* duplicates allowed, branch-and-bound search with the `<` descent and the *)
(* `>=` plane-distance cut.  Checked for EVERY palette (multiset) of up to  *)
(* MaxPts points on a small grid and every query: the result is an arg-min  *)
(* of the Euclidean distance and the returned colour is the indexed one.    *)
EXTENDS Integers, Sequences, FiniteSets, TLC
CONSTANTS Coord, MaxPts, D

Pts == [1..D -> Coord]
Nil == [nil |-> TRUE, c |-> <<>>, idx |-> 0, dim |-> 0, l |-> <<>>, r |-> <<>>]
\* children are stored inside 0/1-element sequences to keep the record type uniform
Node(c, idx, dim, l, r) == [nil |-> FALSE, c |-> c, idx |-> idx, dim |-> dim, l |-> <<l>>, r |-> <<r>>]

\* stable insertion sort of a sequence of <<idx, point>> by point[dim]
RECURSIVE Insert(_, _, _)
Insert(s, e, dim) == IF s = <<>> THEN <<e>>
                     ELSE IF e[2][dim] < s[1][2][dim] THEN <<e>> \o s
                     ELSE <<s[1]>> \o Insert(Tail(s), e, dim)
RECURSIVE Sort(_, _)
Sort(s, dim) == IF s = <<>> THEN <<>> ELSE LET rest == Sort(SubSeq(s, 1, Len(s) - 1), dim) IN
                \* insert the last element after equal keys to stay stable
                LET e == s[Len(s)] IN
                LET RECURSIVE ins(_)
                    ins(t) == IF t = <<>> THEN <<e>> ELSE IF e[2][dim] < t[1][2][dim] THEN <<e>> \o t ELSE <<t[1]>> \o ins(Tail(t))
                IN ins(rest)

RECURSIVE Build(_, _)
Build(cols, dim) ==
  IF cols = <<>> THEN Nil
  ELSE IF Len(cols) = 1 THEN Node(cols[1][2], cols[1][1], dim, Nil, Nil)
  ELSE LET s == Sort(cols, dim)
           m == (Len(s) \div 2) + 1          \* index = len/2 (0-based)
           nd == (dim % D) + 1
       IN Node(s[m][2], s[m][1], dim, Build(SubSeq(s, 1, m - 1), nd), Build(SubSeq(s, m + 1, Len(s)), nd))

Dist(a, b) == LET RECURSIVE f(_) f(i) == IF i > D THEN 0 ELSE (a[i] - b[i]) * (a[i] - b[i]) + f(i + 1) IN f(1)

\* find_rec: returns <<idx, point, dist>>
RECURSIVE Find(_, _)
Find(node, t) ==
  LET nd == Dist(t, node.c)
      goLeft == t[node.dim] < node.c[node.dim]
      next == IF goLeft THEN node.l[1] ELSE node.r[1]
      other == IF goLeft THEN node.r[1] ELSE node.l[1]
      guess == IF next.nil THEN <<node.idx, node.c, nd>>
               ELSE LET g == Find(next, t) IN IF g[3] >= nd THEN <<node.idx, node.c, nd>> ELSE g
      plane == (t[node.dim] - node.c[node.dim]) * (t[node.dim] - node.c[node.dim])
  IN IF plane >= guess[3] THEN guess
     ELSE IF other.nil THEN guess
     ELSE LET o == Find(other, t) IN IF o[3] < guess[3] THEN o ELSE guess

Palettes == UNION { [1..n -> Pts] : n \in 1..MaxPts }
VARIABLE pal
Init == pal \in Palettes
Next == UNCHANGED pal
\* C13: nearest-colour lookup returns a minimal-distance entry for every query
ArgMin == LET cols == [i \in 1..Len(pal) |-> <<i, pal[i]>>]
              tree == Build(cols, 1)
          IN \A q \in Pts :
               LET r == Find(tree, q)
                   best == CHOOSE d \in { Dist(q, pal[i]) : i \in 1..Len(pal) } : \A i \in 1..Len(pal) : d <= Dist(q, pal[i])
               IN r[3] = best /\ pal[r[1]] = r[2] /\ Dist(q, r[2]) = r[3]
=============================================================================
