---------------------------- MODULE KittyHandler ----------------------------
(* Abstract model of KittyImageHandler (src/image.rs:622-798) composed with *)
(* the terminal's store: transmit-if-absent cache, position-derived         *)
(* placement ids, erase by (image, placement), eviction on an error         *)
(* response.  Checked over all histories of draw / erase / error events.    *)
(* ZeroPid = TRUE is the pinned code (placement id 0 at the origin, which   *)
(* the protocol reads as "unspecified"); FALSE is the current /repo.        *)
EXTENDS Integers, Sequences, FiniteSets, TLC
CONSTANTS Images, Positions, MaxOps, ZeroPid

Pid(p) == IF ZeroPid THEN p ELSE p + 1          \* positions are numbered 0.. (0 = origin)
VARIABLES cache,      \* handler: images it believes the terminal holds
          timgs,      \* terminal: images it holds
          places,     \* terminal: set of <<image, pid, position>>
          want,       \* application: set of <<image, position>> drawn and not erased
          nops, bad
vars == <<cache, timgs, places, want, nops, bad>>
Init == cache = {} /\ timgs = {} /\ places = {} /\ want = {} /\ nops = 0 /\ bad = FALSE

Put(pl, i, pid, pos) == IF pid = 0 THEN pl \cup {<<i, 0, pos>>} ELSE { q \in pl : ~(q[1] = i /\ q[2] = pid) } \cup {<<i, pid, pos>>}
Draw(i, pos) ==
  /\ nops < MaxOps
  /\ LET t1 == IF i \in cache THEN timgs ELSE timgs \cup {i} IN
     /\ cache' = cache \cup {i} /\ timgs' = t1
     /\ bad' = (bad \/ i \notin t1)                          \* placement of an image the terminal does not hold
     /\ places' = Put(places, i, Pid(pos), pos)
  /\ want' = want \cup {<<i, pos>>} /\ nops' = nops + 1
Erase(i, pos) ==
  /\ nops < MaxOps
  /\ places' = IF Pid(pos) = 0 THEN { q \in places : q[1] # i } ELSE { q \in places : ~(q[1] = i /\ q[2] = Pid(pos)) }
  /\ want' = want \ {<<i, pos>>} /\ nops' = nops + 1 /\ UNCHANGED <<cache, timgs, bad>>
\* the terminal lost the image (evicted) and answers the put at `pos` with an error; the handler
\* evicts it from the cache and draws it again there
ErrorResponse(i, pos) ==
  /\ nops < MaxOps /\ <<i, pos>> \in want
  /\ cache' = cache /\ timgs' = timgs \cup {i}
  /\ places' = Put({ q \in places : q[1] # i }, i, Pid(pos), pos)
  /\ want' = { w \in want : w[1] # i } \cup {<<i, pos>>}
  /\ nops' = nops + 1 /\ UNCHANGED bad
Next == \E i \in Images, p \in Positions : Draw(i, p) \/ Erase(i, p) \/ ErrorResponse(i, p)
\* every placement refers to a transmitted image
Refers == ~bad /\ \A q \in places : q[1] \in timgs
\* draw and erase stay paired: the terminal holds exactly the placements drawn and not erased
Paired == { <<q[1], q[3]>> : q \in places } = want
\* pixel data is transmitted at most once while the terminal holds it: cache and terminal agree
CacheAgrees == cache = timgs
=============================================================================
