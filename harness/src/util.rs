use serde_json::Value;
use std::io::{BufRead, BufWriter, Write};

/// Iterate over ndjson records on stdin.
pub fn stdin_records() -> impl Iterator<Item = Value> {
    let stdin = std::io::stdin();
    let lock = stdin.lock();
    lock.lines().filter_map(|l| {
        let l = l.ok()?;
        if l.trim().is_empty() {
            return None;
        }
        Some(serde_json::from_str::<Value>(&l).expect("bad ndjson on stdin"))
    })
}

pub struct Out(BufWriter<std::io::Stdout>, bool);
impl Out {
    pub fn new() -> Self {
        // worker mode (under `isolate`): one flushed line per record
        Out(BufWriter::with_capacity(1 << 20, std::io::stdout()), std::env::var("SNT_FLUSH").is_ok())
    }
    pub fn rec(&mut self, v: &Value) {
        serde_json::to_writer(&mut self.0, v).unwrap();
        self.0.write_all(b"\n").unwrap();
        if self.1 {
            self.0.flush().unwrap();
        }
    }
    pub fn flush(&mut self) {
        self.0.flush().unwrap();
    }
}
impl Drop for Out {
    fn drop(&mut self) {
        let _ = self.0.flush();
    }
}

/// location of the most recent panic (set by the panic hook)
pub static LAST_PANIC_AT: std::sync::Mutex<String> = std::sync::Mutex::new(String::new());

/// Run `f`, turning a panic into Err(message at location).
pub fn guarded<T>(f: impl FnOnce() -> T) -> Result<T, String> {
    guarded_msg(f).map_err(|m| {
        let at = LAST_PANIC_AT.lock().map(|g| g.clone()).unwrap_or_default();
        let at = at.rsplit("/src/").next().map(|s| s.to_string()).unwrap_or(at);
        format!("{m} at src/{at}")
    })
}
fn guarded_msg<T>(f: impl FnOnce() -> T) -> Result<T, String> {
    std::panic::catch_unwind(std::panic::AssertUnwindSafe(f)).map_err(|e| {
        if let Some(s) = e.downcast_ref::<&str>() {
            s.to_string()
        } else if let Some(s) = e.downcast_ref::<String>() {
            s.clone()
        } else {
            "panic".to_string()
        }
    })
}

/// splitmix64 PRNG (seeded from VERIF_SEED by the driver).
#[derive(Clone)]
pub struct Rng(pub u64);
impl Rng {
    pub fn new(seed: u64) -> Self {
        Rng(seed.wrapping_mul(0x9E3779B97F4A7C15) ^ 0xD1B54A32D192ED03)
    }
    pub fn next(&mut self) -> u64 {
        self.0 = self.0.wrapping_add(0x9E3779B97F4A7C15);
        let mut z = self.0;
        z = (z ^ (z >> 30)).wrapping_mul(0xBF58476D1CE4E5B9);
        z = (z ^ (z >> 27)).wrapping_mul(0x94D049BB133111EB);
        z ^ (z >> 31)
    }
    /// uniform in 0..n (n > 0)
    pub fn below(&mut self, n: usize) -> usize {
        (self.next() % n as u64) as usize
    }
    pub fn range(&mut self, lo: i64, hi: i64) -> i64 {
        lo + (self.next() % ((hi - lo + 1) as u64)) as i64
    }
    pub fn chance(&mut self, num: usize, den: usize) -> bool {
        self.below(den) < num
    }
    pub fn pick<'a, T>(&mut self, xs: &'a [T]) -> &'a T {
        &xs[self.below(xs.len())]
    }
}

pub fn arg_u64(args: &[String], name: &str, default: u64) -> u64 {
    let mut it = args.iter();
    while let Some(a) = it.next() {
        if a == name {
            return it.next().and_then(|v| v.parse().ok()).unwrap_or(default);
        }
    }
    default
}
pub fn arg_str(args: &[String], name: &str, default: &str) -> String {
    let mut it = args.iter();
    while let Some(a) = it.next() {
        if a == name {
            return it.next().cloned().unwrap_or(default.to_string());
        }
    }
    default.to_string()
}
