//! C16 (c): the render loop on a stalled pseudo-terminal.  A large payload is
//! stranded in the unread pty, `run_render` then produces frames until the
//! drop policy fires; the peer finally drains everything.  The harness records
//! the order of the synchronized-update markers (CSI ?2026h / CSI ?2026l) in
//! the byte stream the peer received: frames reach the tty whole or not at all.
use crate::util::*;
use serde_json::json;
use std::io::{Read, Write};
use std::os::fd::{AsRawFd, FromRawFd};
use std::sync::atomic::{AtomicBool, AtomicUsize, Ordering};
use std::sync::{Arc, Mutex};
use std::time::Duration;
use surf_n_term::verif;
use surf_n_term::{Cell, Error, Face, Image, Position, Size, SurfaceMut, SurfaceOwned, SystemTerminal, Terminal, TerminalAction, RGBA};

fn open_pty() -> (std::fs::File, String) {
    unsafe {
        let m = libc::posix_openpt(libc::O_RDWR | libc::O_NOCTTY);
        assert!(m >= 0, "posix_openpt failed");
        assert_eq!(libc::grantpt(m), 0);
        assert_eq!(libc::unlockpt(m), 0);
        let mut buf = [0 as libc::c_char; 128];
        assert_eq!(libc::ptsname_r(m, buf.as_mut_ptr(), buf.len()), 0);
        let name = std::ffi::CStr::from_ptr(buf.as_ptr()).to_string_lossy().to_string();
        (std::fs::File::from_raw_fd(m), name)
    }
}

fn session(seed: u64, image: bool) -> serde_json::Value {
    let drops = Arc::new(AtomicUsize::new(0));
    let d2 = drops.clone();
    verif::install(Some(Box::new(move |_seq, body| {
        if body.contains("\"frames_drop\"") && !body.contains("\"before\":1,") && !body.contains("\"before\":0,") {
            d2.fetch_add(1, Ordering::SeqCst);
        }
    })));
    let mut rnd = Rng::new(seed ^ 0xc16);
    let (master, slave) = open_pty();
    unsafe {
        let ws = libc::winsize { ws_row: 12, ws_col: 40, ws_xpixel: 400, ws_ypixel: 240 };
        libc::ioctl(master.as_raw_fd(), libc::TIOCSWINSZ, &ws);
    }
    let _keep = std::fs::OpenOptions::new().read(true).write(true).open(&slave).unwrap();
    let stop = Arc::new(AtomicBool::new(false));
    let stall = Arc::new(AtomicBool::new(false));
    let seen: Arc<Mutex<Vec<u8>>> = Arc::new(Mutex::new(Vec::new()));
    let peer = {
        let mut mr = master.try_clone().unwrap();
        let mut mw = master.try_clone().unwrap();
        let (stop, stall, seen) = (stop.clone(), stall.clone(), seen.clone());
        std::thread::spawn(move || {
            let mut buf = vec![0u8; 8192];
            let fd = mr.as_raw_fd();
            let mut scanned = 0usize;
            loop {
                if stall.load(Ordering::SeqCst) {
                    std::thread::sleep(Duration::from_millis(2));
                    continue;
                }
                let mut pfd = libc::pollfd { fd, events: libc::POLLIN, revents: 0 };
                let n = unsafe { libc::poll(&mut pfd, 1, 40) };
                if n <= 0 {
                    if stop.load(Ordering::SeqCst) {
                        break;
                    }
                    continue;
                }
                match mr.read(&mut buf) {
                    Ok(0) | Err(_) => break,
                    Ok(n) => {
                        let mut s = seen.lock().unwrap();
                        s.extend_from_slice(&buf[..n]);
                        // answer device-attribute requests (capability detection, dispose)
                        let from = scanned.saturating_sub(2);
                        let mut replies = 0;
                        for w in s[from..].windows(3) {
                            if w == b"\x1b[c" {
                                replies += 1;
                            }
                        }
                        scanned = s.len();
                        drop(s);
                        for _ in 0..replies {
                            let _ = mw.write_all(b"\x1b[?62;c");
                        }
                    }
                }
            }
        })
    };
    let frames = 40 + rnd.below(30);
    let payload = 600_000 + rnd.below(600_000);
    let res = guarded(|| {
        let mut term = SystemTerminal::open(&slave).expect("open terminal on pty");
        let img = Image::from(SurfaceOwned::new_with(Size::new(20, 20), |p| RGBA::new(200, (p.row * 10) as u8, (p.col * 10) as u8, 255)));
        if !image {
            // strand a payload (bytes >= 0x80, never part of a marker) in the unread pty
            stall.store(true, Ordering::SeqCst);
            term.write_all(&vec![0xA5u8; payload]).unwrap();
            term.flush().unwrap();
        }
        let mut count = 0usize;
        let stall2 = stall.clone();
        // image mode: 0 = the image is shown and delivered, 1 = the terminal stalls (payload stranded), the image stays
        // as it is while frames pile up, 2 = the frame rendered right after the drop no longer shows it
        let mut phase = 0usize;
        let mut since = 0usize;
        let r: Result<usize, Error> = term.run_render(|term, _event, mut surf| {
            count += 1;
            // every frame differs from the previous one
            let text = format!("frame {count:06}");
            for (i, ch) in text.chars().enumerate() {
                if let Some(c) = surf.get_mut(Position::new(count % 3, i)) {
                    *c = Cell::new_char(Face::default(), ch);
                }
            }
            if image {
                since += 1;
                if phase == 0 && since >= 4 && term.frames_pending() == 0 {
                    phase = 1;
                    since = 0;
                    stall2.store(true, Ordering::SeqCst);
                    term.write_all(&vec![0xA5u8; payload]).unwrap();
                    term.flush().unwrap();
                } else if phase == 1 && term.frames_pending() > 32 {
                    // run_render drops the pending frames right after this call
                    phase = 2;
                    since = 0;
                }
                if phase < 2 {
                    if let Some(c) = surf.get_mut(Position::new(5, 20)) {
                        *c = Cell::new_image(img.clone());
                    }
                }
                if phase == 2 && since == 3 {
                    stall2.store(false, Ordering::SeqCst);
                }
                if (phase == 2 && since > 3 && term.frames_pending() == 0) || count > 6000 {
                    return Ok(TerminalAction::Quit(count));
                }
                return Ok(TerminalAction::Sleep(Duration::from_millis(if phase == 1 { 0 } else { 2 })));
            }
            if count == frames {
                stall2.store(false, Ordering::SeqCst);
            }
            if count > frames && term.frames_pending() == 0 {
                return Ok(TerminalAction::Quit(count));
            }
            if count > frames + 4000 {
                return Ok(TerminalAction::Quit(count));
            }
            Ok(TerminalAction::Sleep(Duration::from_millis(if count > frames { 2 } else { 0 })))
        });
        let n = r.map_err(|e| format!("{e}")).unwrap();
        drop(term);
        n
    });
    stall.store(false, Ordering::SeqCst);
    std::thread::sleep(Duration::from_millis(60));
    stop.store(true, Ordering::SeqCst);
    let _ = peer.join();
    verif::install(None);
    let bytes = seen.lock().unwrap().clone();
    let mut markers = Vec::new();
    let mut i = 0;
    while i + 8 <= bytes.len() {
        if &bytes[i..i + 7] == b"\x1b[?2026" && (bytes[i + 7] == b'h' || bytes[i + 7] == b'l') {
            markers.push(if bytes[i + 7] == b'h' { 1 } else { 0 });
            i += 8;
        } else {
            i += 1;
        }
    }
    let got_payload = bytes.iter().filter(|b| **b == 0xA5).count();
    // kitty graphics commands in the order the terminal received them: [action, image id, placement id] with
    // action 1 = put (a=p), 2 = delete (a=d); ids are reduced modulo 10^6 (only equality matters)
    let mut kitty: Vec<Vec<u64>> = Vec::new();
    let mut i = 0;
    while i + 3 <= bytes.len() {
        if &bytes[i..i + 3] == b"\x1b_G" {
            let end = (i..bytes.len()).find(|j| bytes[*j] == b';' || bytes[*j] == 0x1b && *j > i).unwrap_or(bytes.len());
            let ctl = String::from_utf8_lossy(&bytes[i + 3..end]).to_string();
            let mut a = 0u64;
            let (mut im, mut pl) = (0u64, 0u64);
            for kv in ctl.split(',') {
                let mut it = kv.splitn(2, '=');
                match (it.next(), it.next()) {
                    (Some("a"), Some("p")) | (Some("a"), Some("T")) => a = 1,
                    (Some("a"), Some("d")) => a = 2,
                    (Some("i"), Some(v)) => im = v.parse::<u64>().unwrap_or(0) % 1_000_000 + 1,
                    (Some("p"), Some(v)) => pl = v.parse::<u64>().unwrap_or(0) % 1_000_000 + 1,
                    _ => {}
                }
            }
            if a != 0 {
                kitty.push(vec![a, im, pl]);
            }
            i = end;
        } else {
            i += 1;
        }
    }
    match res {
        Ok(n) => json!({"seed": seed, "frames": n, "markers": markers, "drops": drops.load(Ordering::SeqCst), "payload": payload, "payload_seen": got_payload, "image": image, "kitty": kitty, "panic": ""}),
        Err(m) => json!({"seed": seed, "frames": 0, "markers": markers, "drops": drops.load(Ordering::SeqCst), "payload": payload, "payload_seen": got_payload, "image": image, "kitty": kitty, "panic": m}),
    }
}

/// c16-render: stdin records {id, seed}; one output record per session
pub fn render() {
    // the image sessions need an image protocol: the kitty handler is selected through the library's environment switch
    // (read once per process)
    unsafe { std::env::set_var("SURFNTERM", "image=kitty") };
    let mut out = Out::new();
    for v in stdin_records() {
        let id = v["id"].as_u64().unwrap();
        let seed = v["seed"].as_u64().unwrap();
        let mut r = session(seed, v["image"].as_bool().unwrap_or(false));
        r["id"] = json!(id);
        out.rec(&r);
    }
}
