//! C01: drive the real TerminalRenderer with seeded random histories through a
//! recording Terminal and log, per operation, the surface drawn (alphabet
//! indices), the commands issued, and the commands a fresh
//! `new(clear = true)` renderer issues for the same surface.
use crate::util::*;
use serde_json::{json, Value};
use std::io::Write;
use surf_n_term::render::TerminalRenderer;
use surf_n_term::*;

pub struct Rec {
    pub size: TerminalSize,
    pub cmds: Vec<TerminalCommand>,
    pub caps: TerminalCaps,
    pub pending: usize,
    pub drops: usize,
}
impl Rec {
    pub fn new(size: TerminalSize) -> Self {
        Rec { size, cmds: vec![], caps: TerminalCaps::default(), pending: 0, drops: 0 }
    }
}
impl Write for Rec {
    fn write(&mut self, b: &[u8]) -> std::io::Result<usize> {
        Ok(b.len())
    }
    fn flush(&mut self) -> std::io::Result<()> {
        Ok(())
    }
}
impl Terminal for Rec {
    fn execute(&mut self, cmd: TerminalCommand) -> Result<(), Error> {
        self.cmds.push(cmd);
        Ok(())
    }
    fn poll(&mut self, _t: Option<std::time::Duration>) -> Result<Option<TerminalEvent>, Error> {
        Ok(None)
    }
    fn size(&self) -> Result<TerminalSize, Error> {
        Ok(self.size)
    }
    fn position(&mut self) -> Result<Position, Error> {
        Ok(Position::new(0, 0))
    }
    fn waker(&self) -> TerminalWaker {
        TerminalWaker::new(|| Ok(()))
    }
    fn frames_pending(&self) -> usize {
        self.pending
    }
    fn frames_drop(&mut self) {
        self.drops += 1;
    }
    fn dyn_ref(&mut self) -> &mut dyn Terminal {
        self
    }
    fn capabilities(&self) -> &TerminalCaps {
        &self.caps
    }
}

/// The shared vocabulary: faces, characters, images and the cell alphabet.
pub struct Env {
    pub faces: Vec<Face>,
    pub imgs: Vec<(i64, Image)>,
    pub chars: Vec<(char, i64, i64)>,
    /// (kind 0=ch 1=img, c, w, f, i), cell
    pub alphabet: Vec<([i64; 5], Cell)>,
}

pub fn env(tsize: TerminalSize) -> Env {
    let faces: Vec<Face> = vec![
        Face::default(),
        "bg=#ff0000".parse().unwrap(),
        "bg=#00ff00,fg=#0000ff".parse().unwrap(),
        "fg=#ffffff,bold".parse().unwrap(),
    ];
    let px = |h: usize, w: usize, v: u8| Image::from(SurfaceOwned::new_with(Size::new(h, w), |p| RGBA::new(v, (p.row % 256) as u8, (p.col % 256) as u8, 255)));
    // cell = 10 px wide, 20 px high
    let mut imgs = vec![(1, px(20, 20, 1)), (2, px(40, 10, 2)), (3, px(40, 20, 3))];
    // two crops of ONE pixel buffer with the same size and different offsets (1x1 cell each)
    let parent = px(20, 20, 4);
    imgs.push((4, parent.crop(.., 0..10)));
    imgs.push((5, parent.crop(.., 10..20)));
    let path: Path = "M0,0 L1,0 L1,1 Z".parse().unwrap();
    let glyph = Glyph::new(path, FillRule::NonZero, None, Size::new(1, 2), "g".to_string(), None);
    for (fi, f) in faces.iter().enumerate() {
        imgs.push((10 + fi as i64, glyph.rasterize(*f, tsize)));
    }
    let chars = vec![(' ', 0, 1), ('a', 1, 1), ('b', 2, 1), ('c', 3, 1), ('世', 8, 2), ('🤩', 9, 2)];
    let ch = |f: usize, c: char| {
        let (_, id, w) = chars.iter().find(|x| x.0 == c).unwrap();
        ([0, *id, *w, f as i64, 0], Cell::new_char(faces[f], c))
    };
    let im = |f: usize, id: i64| {
        let img = imgs.iter().find(|x| x.0 == id).unwrap().1.clone();
        ([1, 0, 0, f as i64, id], Cell::new_image(img).with_face(faces[f]))
    };
    let gl = |f: usize| ([1, 0, 0, f as i64, 10 + f as i64], Cell::new_glyph(faces[f], glyph.clone()));
    let alphabet = vec![
        ch(0, ' '),  // 0 default
        ch(1, 'a'),  // 1
        ch(2, ' '),  // 2 coloured blank
        ch(0, 'b'),  // 3
        ch(0, '🤩'), // 4 wide
        ch(1, '世'), // 5 wide, face 1
        im(1, 1),    // 6 image 1x2
        im(2, 2),    // 7 image 2x1
        im(0, 3),    // 8 image 2x2
        gl(1),       // 9 glyph face 1
        gl(2),       // 10 glyph face 2
        ch(3, 'c'),  // 11
        ch(1, ' '),  // 12 blank face 1
        im(0, 4),    // 13 image 1x1, left half of a shared buffer
        im(0, 5),    // 14 image 1x1, right half of the same buffer
    ];
    Env { faces, imgs, chars, alphabet }
}

/// images compare by pointer in the library; the harness identifies them by content
pub fn same_image(a: &Image, b: &Image) -> bool {
    a.size() == b.size() && a.iter().zip(b.iter()).all(|(x, y)| x == y)
}

impl Env {
    fn face_id(&self, f: &Face) -> i64 {
        self.faces.iter().position(|x| x == f).map(|i| i as i64).unwrap_or(-7)
    }
    fn img_id(&self, i: &Image) -> i64 {
        self.imgs.iter().find(|x| same_image(&x.1, i)).map(|x| x.0).unwrap_or(-7)
    }
    /// compact command encoding shared with RenderTrace.tla
    pub fn cmd(&self, c: &TerminalCommand) -> Value {
        match c {
            TerminalCommand::Face(f) => json!([0, self.face_id(f), 0, 0]),
            TerminalCommand::CursorTo(p) => json!([1, p.row + 1, p.col + 1, 0]),
            TerminalCommand::Char(ch) => match self.chars.iter().find(|x| x.0 == *ch) {
                Some((_, id, w)) => json!([2, id, w, 0]),
                None => json!([2, -7, 1, 0]),
            },
            TerminalCommand::EraseChars(n) => json!([3, n, 0, 0]),
            TerminalCommand::Image(i, p) => json!([4, self.img_id(i), p.row + 1, p.col + 1]),
            TerminalCommand::ImageErase(i, Some(p)) => json!([5, self.img_id(i), p.row + 1, p.col + 1]),
            TerminalCommand::DecModeSet { enable, mode: DecMode::SynchronizedOutput } => json!([8, *enable as i64, 0, 0]),
            _ => json!([9, 0, 0, 0]),
        }
    }
    pub fn cmds(&self, cs: &[TerminalCommand]) -> Vec<Value> {
        cs.iter().map(|c| self.cmd(c)).collect()
    }
    pub fn alpha_json(&self) -> Value {
        Value::Array(self.alphabet.iter().map(|a| json!(a.0)).collect())
    }
}

fn img_dims(a: usize) -> Option<(usize, usize)> {
    match a {
        6 | 9 | 10 => Some((1, 2)),
        7 => Some((2, 1)),
        8 => Some((2, 2)),
        13 | 14 => Some((1, 1)),
        _ => None,
    }
}
fn is_wide(a: usize) -> bool {
    a == 4 || a == 5
}

/// random surface over the alphabet; unless `amb`, made unambiguous: images do
/// not overlap and no visible wide character reaches into an image footprint
pub fn random_surface(rnd: &mut Rng, h: usize, w: usize, amb: bool, nalpha: usize) -> Vec<Vec<usize>> {
    let mut surf = vec![vec![0usize; w]; h];
    let density = 1 + rnd.below(3);
    for row in 0..h {
        for col in 0..w {
            if rnd.below(4) < density {
                surf[row][col] = rnd.below(nalpha);
            }
            // domain: a wide character must fit the last column
            if is_wide(surf[row][col]) && col + 1 >= w {
                surf[row][col] = 1;
            }
        }
    }
    if !amb {
        let mut cover = vec![vec![false; w]; h];
        for row in 0..h {
            for col in 0..w {
                let a = surf[row][col];
                if let Some((ih, iw)) = img_dims(a) {
                    let mut ok = !cover[row][col];
                    for rr in row..(row + ih).min(h) {
                        for cc in col..(col + iw).min(w) {
                            if cover[rr][cc] || ((rr, cc) != (row, col) && (img_dims(surf[rr][cc]).is_some() || is_wide(surf[rr][cc]))) {
                                ok = false;
                            }
                        }
                    }
                    if ok {
                        for rr in row..(row + ih).min(h) {
                            for cc in col..(col + iw).min(w) {
                                cover[rr][cc] = true;
                            }
                        }
                    } else {
                        surf[row][col] = 0;
                    }
                }
                // (a wide character under an image is in the domain: it is hidden like every cell under an image)
            }
        }
        for row in 0..h {
            for col in 0..w {
                // ambiguous: a VISIBLE wide character whose right half is under an image or is an image cell
                if is_wide(surf[row][col]) && !cover[row][col] && (cover[row][col + 1] || img_dims(surf[row][col + 1]).is_some()) {
                    surf[row][col] = 1;
                }
            }
        }
    }
    surf
}

fn draw(r: &mut TerminalRenderer, env: &Env, surf: &[Vec<usize>]) {
    let mut s = r.surface();
    for (row, line) in surf.iter().enumerate() {
        for (col, a) in line.iter().enumerate() {
            s.set(Position::new(row, col), env.alphabet[*a].1.clone());
        }
    }
}

fn fresh_cmds(env: &Env, tsize: TerminalSize, surf: &[Vec<usize>]) -> Vec<Value> {
    let mut t2 = Rec::new(tsize);
    let mut r2 = TerminalRenderer::new(&mut t2, true).unwrap();
    draw(&mut r2, env, surf);
    r2.frame(&mut t2).unwrap();
    env.cmds(&t2.cmds)
}

/// one history; `script` = None -> random ops
pub fn run_history(env: &Env, tsize: TerminalSize, rnd: &mut Rng, amb: bool, steps: usize, script: Option<&Value>) -> Vec<Value> {
    let (h, w) = (tsize.cells.height, tsize.cells.width);
    let mut term = Rec::new(tsize);
    let mut r = TerminalRenderer::new(&mut term, false).unwrap();
    let mut ops = Vec::new();
    let mut has_img = false;
    let n = script.map(|s| s.as_array().unwrap().len()).unwrap_or(steps);
    for step in 0..n {
        let (op, surf): (String, Option<Vec<Vec<usize>>>) = match script {
            Some(s) => {
                let o = &s[step];
                let surf = o.get("surf").and_then(|x| x.as_array()).filter(|x| !x.is_empty()).map(|rows| {
                    rows.iter().map(|row| row.as_array().unwrap().iter().map(|a| a.as_u64().unwrap() as usize).collect()).collect()
                });
                (o["op"].as_str().unwrap().to_string(), surf)
            }
            None => {
                let k = rnd.below(20);
                let op = if k == 0 { "clear" } else if k == 1 { "recreate" } else if k == 2 { "skip" } else if k == 3 && !has_img { "new" } else { "frame" };
                (op.to_string(), None)
            }
        };
        term.cmds.clear();
        match op.as_str() {
            "clear" => {
                r.clear(&mut term).unwrap();
                has_img = false;
                ops.push(json!({"op": "clear", "cmds": env.cmds(&term.cmds), "surf": [], "fresh": []}));
            }
            "recreate" => {
                // the run_render protocol on resize: clear() then a fresh renderer with clear = true
                r.clear(&mut term).unwrap();
                r = TerminalRenderer::new(&mut term, true).unwrap();
                has_img = false;
                ops.push(json!({"op": "recreate", "cmds": env.cmds(&term.cmds), "surf": [], "fresh": []}));
            }
            "new" => {
                // bare re-creation; only scripted/generated when no image is on screen
                r = TerminalRenderer::new(&mut term, true).unwrap();
                ops.push(json!({"op": "new", "cmds": [], "surf": [], "fresh": []}));
            }
            "skip" => {
                let surf = surf.unwrap_or_else(|| random_surface(rnd, h, w, amb, env.alphabet.len()));
                draw(&mut r, env, &surf);
                r.surface().clear();
                ops.push(json!({"op": "skip", "cmds": env.cmds(&term.cmds), "surf": surf, "fresh": []}));
            }
            _ => {
                let surf = surf.unwrap_or_else(|| random_surface(rnd, h, w, amb, env.alphabet.len()));
                draw(&mut r, env, &surf);
                r.frame(&mut term).unwrap();
                has_img = surf.iter().flatten().any(|a| img_dims(*a).is_some());
                let fresh = fresh_cmds(env, tsize, &surf);
                ops.push(json!({"op": "frame", "surf": surf, "cmds": env.cmds(&term.cmds), "fresh": fresh}));
            }
        }
    }
    ops
}

pub fn tsize(h: usize, w: usize) -> TerminalSize {
    TerminalSize { cells: Size::new(h, w), pixels: Size::new(h * 20, w * 10) }
}

/// c01-drive --h H --w W --n N --seed S [--amb 1]
pub fn drive(args: &[String]) {
    let h = arg_u64(args, "--h", 2) as usize;
    let w = arg_u64(args, "--w", 5) as usize;
    let n = arg_u64(args, "--n", 100) as usize;
    let seed = arg_u64(args, "--seed", 1);
    let amb = arg_u64(args, "--amb", 0) == 1;
    let base = arg_u64(args, "--base", 0);
    let ts = tsize(h, w);
    let env = env(ts);
    let mut rnd = Rng::new(seed ^ ((h as u64) << 32) ^ ((w as u64) << 40) ^ ((amb as u64) << 50));
    let mut out = Out::new();
    for i in 0..n {
        let steps = 2 + rnd.below(5);
        let res = guarded(|| run_history(&env, ts, &mut rnd, amb, steps, None));
        let rec = match res {
            Ok(ops) => json!({"id": base + i as u64, "h": h, "w": w, "amb": amb, "alpha": env.alpha_json(), "ops": ops, "panic": ""}),
            Err(m) => json!({"id": base + i as u64, "h": h, "w": w, "amb": amb, "alpha": env.alpha_json(), "ops": [], "panic": m}),
        };
        out.rec(&rec);
    }
}

/// c01-replay: stdin records {id,h,w,ops:[{op,surf}]} (TLC-generated or a replay file) -> recordings
pub fn replay() {
    let mut out = Out::new();
    for v in stdin_records() {
        let (h, w) = (v["h"].as_u64().unwrap() as usize, v["w"].as_u64().unwrap() as usize);
        let ts = tsize(h, w);
        let env = env(ts);
        let mut rnd = Rng::new(1);
        let amb = v["amb"].as_bool().unwrap_or(false);
        let res = guarded(|| run_history(&env, ts, &mut rnd, amb, 0, Some(&v["ops"])));
        let rec = match res {
            Ok(ops) => json!({"id": v["id"], "h": h, "w": w, "amb": amb, "alpha": env.alpha_json(), "ops": ops, "panic": ""}),
            Err(m) => json!({"id": v["id"], "h": h, "w": w, "amb": amb, "alpha": env.alpha_json(), "ops": [], "panic": m}),
        };
        out.rec(&rec);
    }
}

// ---------------------------------------------------------------------------
// run_render with a lossy frame queue (RenderLoop.tla)
// ---------------------------------------------------------------------------
struct LoopTerm<'a> {
    env: &'a Env,
    size: TerminalSize,
    caps: TerminalCaps,
    cur: Vec<TerminalCommand>,
    q: std::collections::VecDeque<Vec<TerminalCommand>>,
    started: bool,
    threshold: usize,
    log: Vec<Value>,
    /// per poll: (chunks to deliver, mark front as started afterwards, resize event?)
    script: Vec<(usize, bool, bool)>,
    step: usize,
    pending_frame: Option<Value>,
}
impl LoopTerm<'_> {
    /// flush: everything executed since the last poll is one chunk
    fn flush_log(&mut self) {
        if !self.cur.is_empty() {
            let chunk = std::mem::take(&mut self.cur);
            self.log.push(json!({"e": "chunk", "cmds": self.env.cmds(&chunk), "surf": []}));
            self.q.push_back(chunk);
        }
        if let Some(surf) = self.pending_frame.take() {
            self.log.push(json!({"e": "frame", "cmds": [], "surf": surf}));
        }
    }
}
impl Write for LoopTerm<'_> {
    fn write(&mut self, b: &[u8]) -> std::io::Result<usize> {
        Ok(b.len())
    }
    fn flush(&mut self) -> std::io::Result<()> {
        Ok(())
    }
}
impl Terminal for LoopTerm<'_> {
    fn execute(&mut self, cmd: TerminalCommand) -> Result<(), Error> {
        self.cur.push(cmd);
        Ok(())
    }
    fn poll(&mut self, _t: Option<std::time::Duration>) -> Result<Option<TerminalEvent>, Error> {
        self.flush_log();
        if self.step >= self.script.len() {
            // end of script: the handler quits on this event
            return Ok(Some(TerminalEvent::Key("q".parse().unwrap())));
        }
        let (deliver, start, resize) = self.script[self.step];
        self.step += 1;
        let n = deliver.min(self.q.len());
        if n > 0 {
            for _ in 0..n {
                self.q.pop_front();
            }
            self.started = false;
            self.log.push(json!({"e": "deliver", "cmds": [], "surf": [], "n": n}));
        }
        if start && !self.q.is_empty() && !self.started {
            self.started = true;
            self.log.push(json!({"e": "start", "cmds": [], "surf": []}));
        }
        if resize {
            self.log.push(json!({"e": "resize", "cmds": [], "surf": []}));
            return Ok(Some(TerminalEvent::Resize(self.size)));
        }
        Ok(Some(TerminalEvent::Key("a".parse().unwrap())))
    }
    fn size(&self) -> Result<TerminalSize, Error> {
        Ok(self.size)
    }
    fn position(&mut self) -> Result<Position, Error> {
        Ok(Position::new(0, 0))
    }
    fn waker(&self) -> TerminalWaker {
        TerminalWaker::new(|| Ok(()))
    }
    fn frames_pending(&self) -> usize {
        // > 32 (TERMINAL_FRAMES_DROP) exactly when more than `threshold` chunks are pending
        self.q.len() + 32 - self.threshold
    }
    fn frames_drop(&mut self) {
        let keep = if self.started { self.q.pop_front() } else { None };
        self.q.clear();
        if let Some(k) = keep {
            self.q.push_back(k);
        }
        self.log.push(json!({"e": "drop", "cmds": [], "surf": []}));
    }
    fn dyn_ref(&mut self) -> &mut dyn Terminal {
        self
    }
    fn capabilities(&self) -> &TerminalCaps {
        &self.caps
    }
}

/// c01-loop --h H --w W --n N --seed S --imgs 0|1
pub fn drive_loop(args: &[String]) {
    let h = arg_u64(args, "--h", 1) as usize;
    let w = arg_u64(args, "--w", 4) as usize;
    let n = arg_u64(args, "--n", 100) as usize;
    let seed = arg_u64(args, "--seed", 1);
    let imgs = arg_u64(args, "--imgs", 0) == 1;
    let base = arg_u64(args, "--base", 0);
    let ts = tsize(h, w);
    let env = env(ts);
    let mut rnd = Rng::new(seed ^ 0xabcdef ^ ((h as u64) << 32) ^ ((w as u64) << 40) ^ ((imgs as u64) << 50));
    let mut out = Out::new();
    // text-only alphabet = indices without images
    let text_only: Vec<usize> = vec![0, 1, 2, 3, 4, 5, 11, 12];
    for i in 0..n {
        let steps = 3 + rnd.below(8);
        let script: Vec<(usize, bool, bool)> = (0..steps).map(|_| (if rnd.chance(1, 2) { 0 } else { rnd.below(4) }, rnd.chance(1, 3), rnd.chance(1, 12))).collect();
        let surfs: Vec<(Vec<Vec<usize>>, bool)> = (0..steps + 2)
            .map(|_| {
                let mut s = random_surface(&mut rnd, h, w, false, env.alphabet.len());
                if !imgs {
                    for row in s.iter_mut() {
                        for a in row.iter_mut() {
                            if !text_only.contains(a) {
                                *a = text_only[*a % text_only.len()];
                            }
                        }
                        // keep the domain: a wide character must fit
                        let last = row.len() - 1;
                        if is_wide(row[last]) {
                            row[last] = 1;
                        }
                    }
                }
                (s, rnd.chance(1, 6))
            })
            .collect();
        let res = guarded(|| {
            let mut term = LoopTerm {
                env: &env, size: ts, caps: TerminalCaps::default(), cur: vec![], q: Default::default(), started: false,
                threshold: 1 + rnd.below(2), log: vec![], script: script.clone(), step: 0, pending_frame: None,
            };
            let mut k = 0usize;
            let quit: TerminalEvent = TerminalEvent::Key("q".parse().unwrap());
            let r: Result<(), Error> = term.run_render(|term, event, mut view| {
                if event.as_ref() == Some(&quit) {
                    // run_render renders one more frame for a Quit action: the untouched (blank) surface
                    term.pending_frame = Some(json!(vec![vec![0usize; w]; h]));
                    return Ok(TerminalAction::Quit(()));
                }
                let (surf, noframe) = &surfs[k % surfs.len()];
                k += 1;
                for (row, line) in surf.iter().enumerate() {
                    for (col, a) in line.iter().enumerate() {
                        view.set(Position::new(row, col), env.alphabet[*a].1.clone());
                    }
                }
                if *noframe {
                    Ok(TerminalAction::WaitNoFrame)
                } else {
                    term.pending_frame = Some(json!(surf));
                    Ok(TerminalAction::Wait)
                }
            });
            r.unwrap();
            term.flush_log();
            term.log.push(json!({"e": "drain", "cmds": [], "surf": []}));
            term.log
        });
        let rec = match res {
            Ok(log) => json!({"id": base + i as u64, "h": h, "w": w, "imgs": imgs, "alpha": env.alpha_json(), "ev": log, "panic": ""}),
            Err(m) => json!({"id": base + i as u64, "h": h, "w": w, "imgs": imgs, "alpha": env.alpha_json(), "ev": [], "panic": m}),
        };
        out.rec(&rec);
    }
}

/// c01-pairs --n N --seed S: stdin = TLC-generated surfaces {h,w,surf}; every
/// ordered pair (or a seeded sample of N pairs) becomes the history
/// frame a; frame b, plus frame a; clear; frame a  and  frame a; recreate; frame b.
pub fn pairs(args: &[String]) {
    let n = arg_u64(args, "--n", 0) as usize;
    let seed = arg_u64(args, "--seed", 1);
    let base = arg_u64(args, "--base", 0);
    let surfs: Vec<Value> = stdin_records().collect();
    if surfs.is_empty() {
        return;
    }
    let (h, w) = (surfs[0]["h"].as_u64().unwrap() as usize, surfs[0]["w"].as_u64().unwrap() as usize);
    let ts = tsize(h, w);
    let env = env(ts);
    let mut rnd = Rng::new(seed ^ 0x5151);
    let mut out = Out::new();
    let total = surfs.len() * surfs.len();
    let mut id = base;
    let mut emit = |script: Value, out: &mut Out, id: &mut u64| {
        let mut r2 = Rng::new(1);
        let res = guarded(|| run_history(&env, ts, &mut r2, false, 0, Some(&script)));
        let rec = match res {
            Ok(ops) => json!({"id": *id, "h": h, "w": w, "amb": false, "alpha": env.alpha_json(), "ops": ops, "panic": ""}),
            Err(m) => json!({"id": *id, "h": h, "w": w, "amb": false, "alpha": env.alpha_json(), "ops": [], "panic": m}),
        };
        *id += 1;
        out.rec(&rec);
    };
    let pair = |a: &Value, b: &Value| json!([{"op": "frame", "surf": a["surf"]}, {"op": "frame", "surf": b["surf"]}]);
    if n == 0 || n >= total {
        for a in &surfs {
            for b in &surfs {
                emit(pair(a, b), &mut out, &mut id);
            }
        }
    } else {
        for _ in 0..n {
            let a = &surfs[rnd.below(surfs.len())];
            let b = &surfs[rnd.below(surfs.len())];
            emit(pair(a, b), &mut out, &mut id);
        }
    }
    for a in &surfs {
        let b = &surfs[rnd.below(surfs.len())];
        emit(json!([{"op": "frame", "surf": a["surf"]}, {"op": "clear"}, {"op": "frame", "surf": a["surf"]}]), &mut out, &mut id);
        emit(json!([{"op": "frame", "surf": a["surf"]}, {"op": "recreate"}, {"op": "frame", "surf": b["surf"]}]), &mut out, &mut id);
    }
}
