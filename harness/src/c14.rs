//! C14: streaming base64 under write partitions, read-size schedules and
//! destination buffer sizes.
use crate::util::*;
use serde_json::json;
use std::io::{Read, Write};
use surf_n_term::decoder::Base64Decoder;
use surf_n_term::encoder::Base64Encoder;

/// reader that returns at most `sched[i % len]` bytes per call (0 = as many as asked)
struct Sched<'a> {
    data: &'a [u8],
    pos: usize,
    sched: Vec<usize>,
    call: usize,
}
impl Read for Sched<'_> {
    fn read(&mut self, buf: &mut [u8]) -> std::io::Result<usize> {
        let lim = self.sched[self.call % self.sched.len()];
        self.call += 1;
        let n = buf.len().min(self.data.len() - self.pos).min(if lim == 0 { usize::MAX } else { lim });
        buf[..n].copy_from_slice(&self.data[self.pos..self.pos + n]);
        self.pos += n;
        Ok(n)
    }
}

fn decode_all(text: &[u8], sched: &[usize], dst: usize) -> (Vec<u8>, bool) {
    let mut dec = Base64Decoder::new(Sched { data: text, pos: 0, sched: sched.to_vec(), call: 0 });
    let mut out = Vec::new();
    let mut buf = vec![0u8; dst];
    let mut guard = 0usize;
    loop {
        guard += 1;
        assert!(guard < 1_000_000, "decoder does not terminate");
        match dec.read(&mut buf) {
            Ok(0) => return (out, false),
            Ok(n) => out.extend_from_slice(&buf[..n]),
            Err(_) => return (out, true),
        }
    }
}

/// c14-drive --n N --seed S
pub fn drive(args: &[String]) {
    let n = arg_u64(args, "--n", 300) as usize;
    let seed = arg_u64(args, "--seed", 1);
    let mut rnd = Rng::new(seed ^ 0xb64);
    let mut out = Out::new();
    let mut lens: Vec<usize> = (0..=70).collect();
    lens.extend([94, 95, 96, 97, 98, 99, 100, 125, 126, 127, 128, 129, 190, 191, 192, 193, 194, 195, 196, 253, 254, 255, 256, 257, 767, 768, 769, 4095, 4096, 4097]);
    let scheds: Vec<Vec<usize>> = vec![vec![1], vec![2], vec![3], vec![4], vec![5], vec![7], vec![64], vec![0], vec![1, 3], vec![3, 1, 2], vec![4, 1], vec![2, 2, 1]];
    let dsts = [1usize, 2, 3, 4, 5, 7, 16, 62, 63, 64, 65, 100, 1024, 4096];
    let mut id = 0u64;
    for round in 0..n {
        let len = if round < lens.len() { lens[round] } else { *rnd.pick(&lens) };
        let data: Vec<u8> = (0..len).map(|_| if rnd.chance(1, 8) { *rnd.pick(&[0u8, 255, b'=', b'A']) } else { rnd.below(256) as u8 }).collect();
        // encoder under a random partition (with empty and 1-byte writes)
        let mut parts = Vec::new();
        let mut left = len;
        while left > 0 {
            let k = match rnd.below(6) { 0 => 0, 1 => 1, 2 => 2, 3 => 3, 4 => 1 + rnd.below(8), _ => 1 + rnd.below(left.min(300)) }.min(left);
            parts.push(k);
            left -= k;
        }
        if rnd.chance(1, 2) {
            parts.push(0);
        }
        let flushes = round % 3 == 2;
        let res = guarded(|| {
            let mut enc = Base64Encoder::new(Vec::new());
            let mut off = 0;
            for k in &parts {
                let w = enc.write(&data[off..off + k]).unwrap();
                assert!(w == *k, "encoder accepted fewer bytes than offered");
                off += k;
                // every third round flushes after each write: flushing a writer never changes the stream it produces
                if flushes {
                    enc.flush().unwrap();
                }
            }
            enc.finish().unwrap()
        });
        let text = match res {
            Ok(t) => {
                out.rec(&json!({"id": id, "t": "enc", "data": data, "parts": parts, "flushes": flushes, "out": t, "text": [], "reads": [], "dst": 0, "err": false, "panic": ""}));
                t
            }
            Err(m) => {
                out.rec(&json!({"id": id, "t": "enc", "data": data, "parts": parts, "flushes": flushes, "out": [], "text": [], "reads": [], "dst": 0, "err": false, "panic": m}));
                Vec::new()
            }
        };
        id += 1;
        // decoder on the canonical text, on the text cut by 1..3 characters, and on hostile variants
        let mut texts: Vec<Vec<u8>> = vec![text.clone()];
        for cut in 1..=3 {
            if text.len() >= cut {
                texts.push(text[..text.len() - cut].to_vec());
            }
        }
        // arbitrary bytes and padding-heavy groups
        let mut arb: Vec<u8> = (0..rnd.below(24)).map(|_| rnd.below(256) as u8).collect();
        if rnd.chance(1, 2) {
            for b in arb.iter_mut() {
                if rnd.chance(1, 3) {
                    *b = b'=';
                }
            }
        }
        texts.push(arb);
        texts.push([&text[..], b"===="].concat());
        texts.push(b"====".to_vec());
        for t in texts {
            for _ in 0..3 {
                let sched = rnd.pick(&scheds).clone();
                let dst = *rnd.pick(&dsts);
                let res = guarded(|| decode_all(&t, &sched, dst));
                match res {
                    Ok((o, err)) => out.rec(&json!({"id": id, "t": "dec", "data": [], "parts": [], "out": o, "text": t, "reads": sched, "dst": dst, "err": err, "panic": ""})),
                    Err(m) => out.rec(&json!({"id": id, "t": "dec", "data": [], "parts": [], "out": [], "text": t, "reads": sched, "dst": dst, "err": false, "panic": m})),
                }
                id += 1;
            }
        }
    }
}

/// c14-replay: re-run recorded operations (replay files) on the current code
pub fn replay() {
    let mut out = Out::new();
    for v in stdin_records() {
        let b = |k: &str| -> Vec<u8> { v[k].as_array().unwrap().iter().map(|x| x.as_u64().unwrap() as u8).collect() };
        let u = |k: &str| -> Vec<usize> { v[k].as_array().unwrap().iter().map(|x| x.as_u64().unwrap() as usize).collect() };
        if v["t"] == "enc" {
            let (data, parts) = (b("data"), u("parts"));
            let res = guarded(|| {
                let mut enc = Base64Encoder::new(Vec::new());
                let mut off = 0;
                for k in &parts {
                    enc.write(&data[off..off + k]).unwrap();
                    off += k;
                    if v["flushes"].as_bool().unwrap_or(false) {
                        enc.flush().unwrap();
                    }
                }
                enc.finish().unwrap()
            });
            match res {
                Ok(t) => out.rec(&json!({"id": v["id"], "t": "enc", "data": data, "parts": parts, "out": t, "text": [], "reads": [], "dst": 0, "err": false, "panic": ""})),
                Err(m) => out.rec(&json!({"id": v["id"], "t": "enc", "data": data, "parts": parts, "out": [], "text": [], "reads": [], "dst": 0, "err": false, "panic": m})),
            }
        } else {
            let (t, sched, dst) = (b("text"), u("reads"), v["dst"].as_u64().unwrap() as usize);
            match guarded(|| decode_all(&t, &sched, dst)) {
                Ok((o, err)) => out.rec(&json!({"id": v["id"], "t": "dec", "data": [], "parts": [], "out": o, "text": t, "reads": sched, "dst": dst, "err": err, "panic": ""})),
                Err(m) => out.rec(&json!({"id": v["id"], "t": "dec", "data": [], "parts": [], "out": [], "text": t, "reads": sched, "dst": dst, "err": false, "panic": m})),
            }
        }
    }
}
