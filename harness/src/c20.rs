//! C20: colours reduced for 256-colour and grey terminals, all roles.
use crate::util::*;
use serde_json::json;
use surf_n_term::encoder::{ColorDepth, Encoder, TTYEncoder};
use surf_n_term::{Face, FaceAttrs, FaceModify, TerminalCaps, TerminalCommand, RGBA};

/// parameters of the single SGR sequence `bytes` (split on ';' and ':'), None if it is not one
fn sgr_params(bytes: &[u8]) -> Option<Vec<u32>> {
    let body = bytes.strip_prefix(b"\x1b[")?.strip_suffix(b"m")?;
    body.split(|b| *b == b';' || *b == b':').map(|p| std::str::from_utf8(p).ok()?.parse().ok()).collect()
}

fn enc(depth: ColorDepth, cmd: TerminalCommand) -> Vec<u8> {
    let mut e = TTYEncoder::new(TerminalCaps { depth, ..TerminalCaps::default() });
    let mut out = Vec::new();
    e.encode(&mut out, cmd).unwrap();
    out
}

/// c20-drive --mode quick|all --shard I --of N
pub fn drive(args: &[String]) {
    let mode = arg_str(args, "--mode", "quick");
    let shard = arg_u64(args, "--shard", 0);
    let of = arg_u64(args, "--of", 1);
    let mut out = Out::new();
    let mut id = shard;
    let mut rgs: Vec<(u8, u8, Vec<u8>)> = Vec::new();
    if mode == "all" {
        for r in 0..=255u8 {
            for g in 0..=255u8 {
                rgs.push((r, g, (0..=255).collect()));
            }
        }
    } else {
        // lattice with step 8 (+255) in r and g, every b
        let lat: Vec<u8> = (0..=255u16).filter(|v| v % 8 == 0 || *v == 255).map(|v| v as u8).collect();
        for r in &lat {
            for g in &lat {
                rgs.push((*r, *g, (0..=255).collect()));
            }
        }
        // near-neutral colours: every r, g and b within 4 of it
        for r in 0..=255i32 {
            for g in (r - 4).max(0)..=(r + 4).min(255) {
                let bs: Vec<u8> = ((r - 4).max(0)..=(r + 4).min(255)).map(|b| b as u8).collect();
                rgs.push((r as u8, g as u8, bs));
            }
        }
        // around every cube level boundary (midpoints in sRGB ~ 48, 115, 155, 195, 235) on each axis pair
        for r in [44u8, 47, 48, 49, 52, 112, 115, 116, 118, 152, 155, 156, 158, 192, 195, 196, 198, 232, 235, 236, 238] {
            for g in (0..=255u16).step_by(5) {
                rgs.push((r, g as u8, (0..=255).collect()));
            }
        }
    }
    for (k, (r, g, bs)) in rgs.into_iter().enumerate() {
        if k as u64 % of != shard {
            continue;
        }
        let res = guarded(|| {
            let (mut e8f, mut e8b, mut e8u, mut gf, mut gb, mut tcf) = (vec![], vec![], vec![], vec![], vec![], vec![]);
            let mut ok = true;
            for b in &bs {
                let c = RGBA::new(r, g, *b, 255);
                let p = sgr_params(&enc(ColorDepth::EightBit, TerminalCommand::Face(Face::new(Some(c), None, FaceAttrs::EMPTY)))).unwrap_or_default();
                ok &= p.len() == 4 && p[..3] == [0, 38, 5];
                e8f.push(*p.last().unwrap_or(&0));
                let p = sgr_params(&enc(ColorDepth::EightBit, TerminalCommand::Face(Face::new(None, Some(c), FaceAttrs::EMPTY)))).unwrap_or_default();
                ok &= p.len() == 4 && p[..3] == [0, 48, 5];
                e8b.push(*p.last().unwrap_or(&0));
                let m = FaceModify { underline_color: Some(c), ..FaceModify::default() };
                let p = sgr_params(&enc(ColorDepth::EightBit, TerminalCommand::FaceModify(m))).unwrap_or_default();
                ok &= p.len() == 3 && p[..2] == [58, 5];
                e8u.push(*p.last().unwrap_or(&0));
                let p = sgr_params(&enc(ColorDepth::Gray, TerminalCommand::Face(Face::new(Some(c), None, FaceAttrs::EMPTY)))).unwrap_or_default();
                ok &= p.len() == 2 && p[0] == 0;
                gf.push(*p.last().unwrap_or(&0));
                let p = sgr_params(&enc(ColorDepth::Gray, TerminalCommand::Face(Face::new(None, Some(c), FaceAttrs::EMPTY)))).unwrap_or_default();
                ok &= p.len() == 2 && p[0] == 0;
                gb.push(*p.last().unwrap_or(&0));
                // true colour: all three roles carry exactly r, g, b
                let pf = sgr_params(&enc(ColorDepth::TrueColor, TerminalCommand::Face(Face::new(Some(c), Some(c), FaceAttrs::EMPTY)))).unwrap_or_default();
                ok &= pf == vec![0, 38, 2, r as u32, g as u32, *b as u32, 48, 2, r as u32, g as u32, *b as u32];
                let pu = sgr_params(&enc(ColorDepth::TrueColor, TerminalCommand::FaceModify(m))).unwrap_or_default();
                ok &= pu.len() == 5 && pu[..4] == [58, 2, r as u32, g as u32];
                tcf.push(*pu.last().unwrap_or(&999));
            }
            (e8f, e8b, e8u, gf, gb, tcf, ok)
        });
        match res {
            Ok((e8f, e8b, e8u, gf, gb, tcf, ok)) => out.rec(&json!({"id": id, "r": r, "g": g, "bs": bs, "e8f": e8f, "e8b": e8b, "e8u": e8u, "gf": gf, "gb": gb, "tcf": tcf, "ok": ok, "panic": ""})),
            Err(m) => out.rec(&json!({"id": id, "r": r, "g": g, "bs": bs, "e8f": [], "e8b": [], "e8u": [], "gf": [], "gb": [], "tcf": [], "ok": false, "panic": m})),
        }
        id += of;
    }
}
