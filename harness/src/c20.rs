//! C20: colours reduced for 256-colour and grey terminals, all roles.
use crate::util::*;
use serde_json::json;
use surf_n_term::encoder::{ColorDepth, Encoder, TTYEncoder};
use surf_n_term::{Face, FaceAttrs, FaceModify, TerminalCaps, TerminalCommand, RGBA};

/// parameters of the single SGR sequence `bytes` (split on ';' and ':'), None if it is not one
fn sgr_params(bytes: &[u8]) -> Option<Vec<u32>> {
    let body = bytes.strip_prefix(b"\x1b[")?.strip_suffix(b"m")?;
    body.split(|b| *b == b';' || *b == b':').map(|p| std::str::from_utf8(p).ok()?.parse().ok()).collect()
}

fn enc(depth: ColorDepth, cmd: TerminalCommand) -> Vec<u8> {
    let mut e = TTYEncoder::new(TerminalCaps { depth, ..TerminalCaps::default() });
    let mut out = Vec::new();
    e.encode(&mut out, cmd).unwrap();
    out
}

/// c20-drive --mode quick|all --shard I --of N
pub fn drive(args: &[String]) {
    let mode = arg_str(args, "--mode", "quick");
    let shard = arg_u64(args, "--shard", 0);
    let of = arg_u64(args, "--of", 1);
    let mut out = Out::new();
    let mut id = shard;
    let mut rgs: Vec<(u8, u8, Vec<u8>)> = Vec::new();
    if mode == "all" {
        for r in 0..=255u8 {
            for g in 0..=255u8 {
                rgs.push((r, g, (0..=255).collect()));
            }
        }
    } else {
        // lattice with step 8 (+255) in r and g, every b
        let lat: Vec<u8> = (0..=255u16).filter(|v| v % 8 == 0 || *v == 255).map(|v| v as u8).collect();
        for r in &lat {
            for g in &lat {
                rgs.push((*r, *g, (0..=255).collect()));
            }
        }
        // near-neutral colours: every r, g and b within 4 of it
        for r in 0..=255i32 {
            for g in (r - 4).max(0)..=(r + 4).min(255) {
                let bs: Vec<u8> = ((r - 4).max(0)..=(r + 4).min(255)).map(|b| b as u8).collect();
                rgs.push((r as u8, g as u8, bs));
            }
        }
        // around every cube level boundary (midpoints in sRGB ~ 48, 115, 155, 195, 235) on each axis pair
        for r in [44u8, 47, 48, 49, 52, 112, 115, 116, 118, 152, 155, 156, 158, 192, 195, 196, 198, 232, 235, 236, 238] {
            for g in (0..=255u16).step_by(5) {
                rgs.push((r, g as u8, (0..=255).collect()));
            }
        }
    }
    // encoders that live through the whole run: what a command is encoded to must not depend on what the encoder
    // resolved before (each colour is sent in every role, in changing order, and compared with a fresh encoder)
    let mut pers: Vec<(ColorDepth, TTYEncoder)> = [ColorDepth::EightBit, ColorDepth::Gray, ColorDepth::TrueColor]
        .into_iter()
        .map(|d| (d, TTYEncoder::new(TerminalCaps { depth: d, ..TerminalCaps::default() })))
        .collect();
    for (k, (r, g, bs)) in rgs.into_iter().enumerate() {
        if k as u64 % of != shard {
            continue;
        }
        let res = guarded(|| {
            let (mut e8f, mut e8b, mut e8u, mut gf, mut gb, mut tcf) = (vec![], vec![], vec![], vec![], vec![], vec![]);
            let mut ok = true;
            let mut hist = true;
            for b in &bs {
                let c = RGBA::new(r, g, *b, 255);
                if *b % 4 == (r ^ g) % 4 {
                    let c2 = RGBA::new(*b, r, g, 255);
                    let um = |x: RGBA| TerminalCommand::FaceModify(FaceModify { underline_color: Some(x), ..FaceModify::default() });
                    let cmds = [
                        TerminalCommand::Face(Face::new(Some(c), Some(c2), FaceAttrs::EMPTY)),
                        TerminalCommand::Face(Face::new(Some(c2), Some(c), FaceAttrs::EMPTY)),
                        um(c),
                        TerminalCommand::FaceModify(FaceModify { fg: Some(c2), bg: Some(c2), ..FaceModify::default() }),
                        um(c2),
                        TerminalCommand::Face(Face::new(Some(c), Some(c), FaceAttrs::EMPTY)),
                    ];
                    for (d, e) in pers.iter_mut() {
                        for i in 0..cmds.len() {
                            let cmd = cmds[(i + *b as usize) % cmds.len()].clone();
                            let mut o = Vec::new();
                            e.encode(&mut o, cmd.clone()).unwrap();
                            hist &= o == enc(*d, cmd);
                        }
                    }
                }
                let p = sgr_params(&enc(ColorDepth::EightBit, TerminalCommand::Face(Face::new(Some(c), None, FaceAttrs::EMPTY)))).unwrap_or_default();
                ok &= p.len() == 4 && p[..3] == [0, 38, 5];
                e8f.push(*p.last().unwrap_or(&0));
                let p = sgr_params(&enc(ColorDepth::EightBit, TerminalCommand::Face(Face::new(None, Some(c), FaceAttrs::EMPTY)))).unwrap_or_default();
                ok &= p.len() == 4 && p[..3] == [0, 48, 5];
                e8b.push(*p.last().unwrap_or(&0));
                let m = FaceModify { underline_color: Some(c), ..FaceModify::default() };
                let p = sgr_params(&enc(ColorDepth::EightBit, TerminalCommand::FaceModify(m))).unwrap_or_default();
                ok &= p.len() == 3 && p[..2] == [58, 5];
                e8u.push(*p.last().unwrap_or(&0));
                let p = sgr_params(&enc(ColorDepth::Gray, TerminalCommand::Face(Face::new(Some(c), None, FaceAttrs::EMPTY)))).unwrap_or_default();
                ok &= p.len() == 2 && p[0] == 0;
                gf.push(*p.last().unwrap_or(&0));
                let p = sgr_params(&enc(ColorDepth::Gray, TerminalCommand::Face(Face::new(None, Some(c), FaceAttrs::EMPTY)))).unwrap_or_default();
                ok &= p.len() == 2 && p[0] == 0;
                gb.push(*p.last().unwrap_or(&0));
                // true colour: all three roles carry exactly r, g, b
                let pf = sgr_params(&enc(ColorDepth::TrueColor, TerminalCommand::Face(Face::new(Some(c), Some(c), FaceAttrs::EMPTY)))).unwrap_or_default();
                ok &= pf == vec![0, 38, 2, r as u32, g as u32, *b as u32, 48, 2, r as u32, g as u32, *b as u32];
                let pu = sgr_params(&enc(ColorDepth::TrueColor, TerminalCommand::FaceModify(m))).unwrap_or_default();
                ok &= pu.len() == 5 && pu[..4] == [58, 2, r as u32, g as u32];
                tcf.push(*pu.last().unwrap_or(&999));
                // all roles in ONE command (reset, fg, bg, underline style and colour: the longest parameter list the
                // encoder produces): every role still carries its colour - exactly in true colour, and in 256-colour
                // mode the same entries as when the role is sent alone
                if *b % 16 == (r ^ g) % 16 {
                    let (c2, c3) = (RGBA::new(g, *b, r, 255), RGBA::new(*b, r, g, 255));
                    let all = FaceModify { reset: true, fg: Some(c), bg: Some(c2), underline: Some(surf_n_term::UnderlineStyle::Curly), underline_color: Some(c3),
                                           bold: Some(true), italic: Some(false), ..FaceModify::default() };
                    let has = |p: &[u32], grp: &[u32]| p.windows(grp.len()).any(|w| w == grp);
                    let p = sgr_params(&enc(ColorDepth::TrueColor, TerminalCommand::FaceModify(all))).unwrap_or_default();
                    ok &= has(&p, &[38, 2, r as u32, g as u32, *b as u32]) && has(&p, &[48, 2, g as u32, *b as u32, r as u32]) && has(&p, &[58, 2, *b as u32, r as u32, g as u32]);
                    let p8 = sgr_params(&enc(ColorDepth::EightBit, TerminalCommand::FaceModify(all))).unwrap_or_default();
                    let alone = |m: FaceModify| sgr_params(&enc(ColorDepth::EightBit, TerminalCommand::FaceModify(m))).unwrap_or_default();
                    let f1 = alone(FaceModify { fg: Some(c), ..FaceModify::default() });
                    let b1 = alone(FaceModify { bg: Some(c2), ..FaceModify::default() });
                    let u1 = alone(FaceModify { underline_color: Some(c3), ..FaceModify::default() });
                    ok &= f1.len() == 3 && b1.len() == 3 && u1.len() == 3 && has(&p8, &f1) && has(&p8, &b1) && has(&p8, &u1);
                    // the underline colour is terminal state of its own: it is transmitted with every underline style,
                    // also with the one that switches the underline off
                    for style in [surf_n_term::UnderlineStyle::None, surf_n_term::UnderlineStyle::Straight, surf_n_term::UnderlineStyle::Double, surf_n_term::UnderlineStyle::Dotted, surf_n_term::UnderlineStyle::Dashed] {
                        let m = FaceModify { underline: Some(style), underline_color: Some(c3), ..FaceModify::default() };
                        let p = sgr_params(&enc(ColorDepth::TrueColor, TerminalCommand::FaceModify(m))).unwrap_or_default();
                        ok &= has(&p, &[58, 2, *b as u32, r as u32, g as u32]);
                        let p = sgr_params(&enc(ColorDepth::EightBit, TerminalCommand::FaceModify(m))).unwrap_or_default();
                        ok &= has(&p, &u1);
                    }
                }
            }
            (e8f, e8b, e8u, gf, gb, tcf, ok, hist)
        });
        match res {
            Ok((e8f, e8b, e8u, gf, gb, tcf, ok, hist)) => out.rec(&json!({"id": id, "r": r, "g": g, "bs": bs, "e8f": e8f, "e8b": e8b, "e8u": e8u, "gf": gf, "gb": gb, "tcf": tcf, "ok": ok, "hist": hist, "panic": ""})),
            Err(m) => out.rec(&json!({"id": id, "r": r, "g": g, "bs": bs, "e8f": [], "e8b": [], "e8u": [], "gf": [], "gb": [], "tcf": [], "ok": false, "hist": true, "panic": m})),
        }
        id += of;
    }
}
