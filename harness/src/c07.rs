//! C07: view programs (chains of view / transpose) through the real Surface
//! and SurfaceMut implementations over several ownership routes.
use crate::util::*;
use serde_json::{json, Value};
use surf_n_term::surface::ViewBounds;
use surf_n_term::{Position, Size, Surface, SurfaceMut, SurfaceOwned};

#[derive(Clone)]
pub struct SelV {
    form: String,
    a: i64,
    b: i64,
}
const POS_INF: i64 = 2_000_000_000; // ViewBounds!PosInf: any bound of magnitude >= 2^31
const NEG_INF: i64 = -2_000_000_000;
impl ViewBounds for SelV {
    fn view_bounds(self, size: usize) -> Option<(usize, usize)> {
        let (a, b) = (self.a, self.b);
        let big = |x: i64| x >= POS_INF;
        let lo = |x: i64| if x <= NEG_INF { i64::MIN } else { x };
        // extreme bounds are instantiated with the unsigned maxima (u64 on even, usize on odd axes) where the
        // other bound allows an unsigned range, with i64::MAX / i64::MIN otherwise
        let even = size % 2 == 0;
        // non-negative ordinary bounds go through the unsigned implementations on odd axes (type by a % 4)
        let small = |x: i64| (0..=255).contains(&x);
        if !even {
            macro_rules! unsigned {
                ($t:ty) => {
                    match self.form.as_str() {
                        "idx" if small(a) => return (a as $t).view_bounds(size),
                        "range" if small(a) && small(b) => return (a as $t..b as $t).view_bounds(size),
                        "from" if small(a) => return (a as $t..).view_bounds(size),
                        "to" if small(b) => return (..b as $t).view_bounds(size),
                        "incl" if small(a) && small(b) => return (a as $t..=b as $t).view_bounds(size),
                        "toincl" if small(b) => return (..=b as $t).view_bounds(size),
                        _ => {}
                    }
                };
            }
            match (a + b).rem_euclid(4) {
                0 => unsigned!(u8),
                1 => unsigned!(u16),
                2 => unsigned!(u32),
                _ => unsigned!(usize),
            }
        }
        match self.form.as_str() {
            "idx" if big(a) => if even { u64::MAX.view_bounds(size) } else { usize::MAX.view_bounds(size) },
            "idx" => lo(a).view_bounds(size),
            "range" if big(b) && a >= 0 && !big(a) => if even { (a as u64..u64::MAX).view_bounds(size) } else { (a as usize..usize::MAX - 1).view_bounds(size) },
            "range" if big(a) && big(b) => (u64::MAX - 1..u64::MAX).view_bounds(size),
            "range" if big(a) && b >= 0 => (u64::MAX..b as u64).view_bounds(size),
            "range" => ((if big(a) { i64::MAX } else { lo(a) })..(if big(b) { i64::MAX } else { lo(b) })).view_bounds(size),
            "from" if big(a) => if even { (u64::MAX..).view_bounds(size) } else { ((1usize << 63)..).view_bounds(size) },
            "from" => (lo(a)..).view_bounds(size),
            "to" if big(b) => if even { (..u64::MAX).view_bounds(size) } else { (..usize::MAX).view_bounds(size) },
            "to" => (..lo(b)).view_bounds(size),
            "incl" if big(b) && a >= 0 && !big(a) => if even { (a as u64..=u64::MAX - 1).view_bounds(size) } else { (a as usize..=usize::MAX).view_bounds(size) },
            "incl" if big(a) && big(b) => (u64::MAX..=u64::MAX).view_bounds(size),
            "incl" if big(a) && b >= 0 => (u64::MAX..=b as u64).view_bounds(size),
            "incl" => ((if big(a) { i64::MAX } else { lo(a) })..=(if big(b) { i64::MAX } else { lo(b) })).view_bounds(size),
            "toincl" if big(b) => if even { (..=u64::MAX - 1).view_bounds(size) } else { (..=(1usize << 63)).view_bounds(size) },
            "toincl" => (..=lo(b)).view_bounds(size),
            _ => (..).view_bounds(size),
        }
    }
}
#[derive(Clone)]
pub enum StepV {
    Tr,
    View(SelV, SelV),
}
fn sel(v: &Value) -> SelV {
    SelV { form: v["form"].as_str().unwrap().into(), a: v["a"].as_i64().unwrap(), b: v["b"].as_i64().unwrap() }
}
fn chain_of(v: &Value) -> Vec<StepV> {
    v.as_array().unwrap().iter().map(|s| if s["t"] == "tr" { StepV::Tr } else { StepV::View(sel(&s["rs"]), sel(&s["cs"])) }).collect()
}

#[derive(Clone, Copy, PartialEq)]
enum Op {
    Read,
    Addrs(usize),
    Fill,
    Clear,
    FillWith,
    Insert(usize, usize, usize),
    Set,
}

fn probe_ro<S: Surface<Item = i64>>(s: &S) -> Value {
    let (h, w) = (s.height(), s.width());
    let iter: Vec<i64> = s.iter().copied().collect();
    let gets: Vec<i64> = (0..(h + 1) * (w + 1)).map(|n| s.get(Position::new(n / (w + 1), n % (w + 1))).copied().unwrap_or(-1)).collect();
    let map: Vec<i64> = s.map(|_, x| 2 * *x + 1).iter().copied().collect();
    // an iterator advanced by k single steps and then consumed by internal iteration (for_each / count / last are
    // built on fold), and nth(k) on a fresh one
    let ks: Vec<usize> = (0..=iter.len().min(13)).collect();
    let mut rest = Vec::new();
    let mut counts = Vec::new();
    let mut lasts = Vec::new();
    let mut nths = Vec::new();
    for k in ks.iter().copied() {
        let adv = |k: usize| {
            let mut it = s.iter();
            for _ in 0..k {
                it.next();
            }
            it
        };
        let mut r: Vec<i64> = Vec::new();
        adv(k).for_each(|x| r.push(*x));
        rest.push(r);
        counts.push(adv(k).count());
        lasts.push(adv(k).last().copied().unwrap_or(-1));
        nths.push(s.iter().nth(k).copied().unwrap_or(-1));
    }
    json!({"h": h, "w": w, "iter": iter, "gets": gets, "map": map, "rest": rest, "counts": counts, "lasts": lasts, "nths": nths})
}

fn probe_mut<S: SurfaceMut<Item = i64>>(s: &mut S, op: Op) -> Value {
    match op {
        Op::Read => probe_ro(s),
        Op::Addrs(base) => {
            let addrs: Vec<i64> = s.iter_mut().map(|r| ((r as *mut i64 as usize).wrapping_sub(base) / std::mem::size_of::<i64>()) as i64).collect();
            json!(addrs)
        }
        Op::Fill => {
            s.fill(99);
            Value::Null
        }
        Op::Clear => {
            s.clear();
            Value::Null
        }
        Op::FillWith => {
            s.fill_with(|pos, _| 1000 + 10 * pos.row as i64 + pos.col as i64);
            Value::Null
        }
        Op::Insert(r, c, k) => {
            s.insert(Position::new(r, c), (0..k as i64).map(|i| 500 + i));
            Value::Null
        }
        Op::Set => {
            // set returns the previous item inside the window; outside it nothing may change
            let (h, w) = (s.height(), s.width());
            let olds: Vec<i64> = (0..(h + 1) * (w + 1))
                .map(|n| {
                    let pos = Position::new(n / (w + 1), n % (w + 1));
                    let inside = pos.row < h && pos.col < w;
                    // `set` outside the view is a contract violation (debug assertion), not exercised
                    if !inside {
                        return -1;
                    }
                    let cur = s.get(pos).copied();
                    s.set(pos, cur.unwrap_or(-7777))
                })
                .collect();
            json!(olds)
        }
    }
}

fn m0<S: SurfaceMut<Item = i64>>(mut s: S, _c: &[StepV], op: Op) -> Value {
    probe_mut(&mut s, op)
}
fn m1<S: SurfaceMut<Item = i64>>(s: S, c: &[StepV], op: Op) -> Value {
    match c.split_first() {
        None => m0(s, c, op),
        Some((StepV::Tr, rest)) => m0(s.transpose(), rest, op),
        Some((StepV::View(r, cs), rest)) => m0(s.view_owned(r.clone(), cs.clone()), rest, op),
    }
}
fn m2<S: SurfaceMut<Item = i64>>(s: S, c: &[StepV], op: Op) -> Value {
    match c.split_first() {
        None => m0(s, c, op),
        Some((StepV::Tr, rest)) => m1(s.transpose(), rest, op),
        Some((StepV::View(r, cs), rest)) => m1(s.view_owned(r.clone(), cs.clone()), rest, op),
    }
}
fn m3<S: SurfaceMut<Item = i64>>(s: S, c: &[StepV], op: Op) -> Value {
    match c.split_first() {
        None => m0(s, c, op),
        Some((StepV::Tr, rest)) => m2(s.transpose(), rest, op),
        Some((StepV::View(r, cs), rest)) => m2(s.view_owned(r.clone(), cs.clone()), rest, op),
    }
}
fn r0<S: Surface<Item = i64>>(s: S, _c: &[StepV]) -> Value {
    probe_ro(&s)
}
fn r1<S: Surface<Item = i64>>(s: S, c: &[StepV]) -> Value {
    match c.split_first() {
        None => r0(s, c),
        Some((StepV::Tr, rest)) => r0(s.transpose(), rest),
        Some((StepV::View(r, cs), rest)) => r0(s.view_owned(r.clone(), cs.clone()), rest),
    }
}
fn r2<S: Surface<Item = i64>>(s: S, c: &[StepV]) -> Value {
    match c.split_first() {
        None => r0(s, c),
        Some((StepV::Tr, rest)) => r1(s.transpose(), rest),
        Some((StepV::View(r, cs), rest)) => r1(s.view_owned(r.clone(), cs.clone()), rest),
    }
}
fn r3<S: Surface<Item = i64>>(s: S, c: &[StepV]) -> Value {
    match c.split_first() {
        None => r0(s, c),
        Some((StepV::Tr, rest)) => r2(s.transpose(), rest),
        Some((StepV::View(r, cs), rest)) => r2(s.view_owned(r.clone(), cs.clone()), rest),
    }
}

fn fresh(hp: usize, wp: usize) -> SurfaceOwned<i64> {
    SurfaceOwned::new_with(Size::new(hp, wp), |p| (p.row * wp + p.col) as i64)
}
fn parent(s: &SurfaceOwned<i64>) -> Vec<i64> {
    s.iter().copied().collect()
}

pub fn replay() {
    let mut out = Out::new();
    let mut id = 0u64;
    for v in stdin_records() {
        let (hp, wp) = (v["hp"].as_u64().unwrap() as usize, v["wp"].as_u64().unwrap() as usize);
        let chain = chain_of(&v["chain"]);
        for route in ["owned", "ref", "mutref", "asmut"] {
            let mutable = route == "mutref" || route == "asmut";
            let res = guarded(|| {
                let mut rec = serde_json::Map::new();
                // read-only probes
                let ro = match route {
                    "owned" => r3(fresh(hp, wp), &chain),
                    "ref" => {
                        let s = fresh(hp, wp);
                        r3(&s, &chain)
                    }
                    "mutref" => {
                        let mut s = fresh(hp, wp);
                        m3(&mut s, &chain, Op::Read)
                    }
                    _ => {
                        let mut s = fresh(hp, wp);
                        m3(s.as_mut(), &chain, Op::Read)
                    }
                };
                for (k, x) in ro.as_object().unwrap() {
                    rec.insert(k.clone(), x.clone());
                }
                if mutable {
                    let run = |op: Op| -> (Value, Vec<i64>) {
                        let mut s = fresh(hp, wp);
                        let base = s.data().as_ptr() as usize;
                        let op = if let Op::Addrs(_) = op { Op::Addrs(base) } else { op };
                        let r = if route == "mutref" { m3(&mut s, &chain, op) } else { m3(s.as_mut(), &chain, op) };
                        (r, parent(&s))
                    };
                    let (addrs, untouched) = run(Op::Addrs(0));
                    assert!(untouched == parent(&fresh(hp, wp)), "iter_mut alone changed the parent");
                    rec.insert("addrs".into(), addrs);
                    rec.insert("fill".into(), json!(run(Op::Fill).1));
                    rec.insert("clear".into(), json!(run(Op::Clear).1));
                    rec.insert("fillwith".into(), json!(run(Op::FillWith).1));
                    let (olds, after_set) = run(Op::Set);
                    assert!(after_set == parent(&fresh(hp, wp)), "set(pos, same value) changed the parent");
                    rec.insert("sets".into(), olds);
                    let (h, w) = (rec["h"].as_u64().unwrap() as usize, rec["w"].as_u64().unwrap() as usize);
                    let mut ins = Vec::new();
                    for (r, c, k) in [(0usize, 0usize, 2usize), (0, w.saturating_sub(1), 3), (h.saturating_sub(1), 0, w + 2), (h, 0, 2), (h + 1, 1.min(w.saturating_sub(1)), 3), (0, 0, h * w + 3)] {
                        if w == 0 || c < w {
                            ins.push(json!({"r": r, "c": c, "k": k, "after": run(Op::Insert(r, c, k)).1}));
                        }
                    }
                    rec.insert("inserts".into(), json!(ins));
                } else {
                    for k in ["addrs", "fill", "clear", "fillwith", "sets", "inserts"] {
                        rec.insert(k.into(), json!([]));
                    }
                }
                rec
            });
            let mut rec = match res {
                Ok(mut r) => {
                    r.insert("panic".into(), json!(""));
                    r
                }
                Err(m) => {
                    let mut r = serde_json::Map::new();
                    for k in ["iter", "gets", "map", "rest", "counts", "lasts", "nths", "addrs", "fill", "clear", "fillwith", "sets", "inserts"] {
                        r.insert(k.into(), json!([]));
                    }
                    r.insert("h".into(), json!(0));
                    r.insert("w".into(), json!(0));
                    r.insert("panic".into(), json!(m));
                    r
                }
            };
            rec.insert("id".into(), json!(id));
            rec.insert("hp".into(), json!(hp));
            rec.insert("wp".into(), json!(wp));
            rec.insert("chain".into(), v["chain"].clone());
            rec.insert("route".into(), json!(route));
            rec.insert("mutable".into(), json!(mutable));
            out.rec(&Value::Object(rec));
            id += 1;
        }
    }
}
