//! C11: histories of draw / erase / error-response events on one
//! KittyImageHandler; raw output bytes are logged and parsed in TLA+.
use crate::util::*;
use serde_json::{json, Value};
use surf_n_term::*;

fn pixels(img: &Image) -> Vec<u8> {
    img.iter().flat_map(|c| c.to_rgba()).collect()
}

/// value of `key=` (decimal) in the last APC command of `bytes` that contains it (lexical scan only)
fn scan_num(bytes: &[u8], key: &[u8]) -> Option<Vec<u8>> {
    let mut found = None;
    for i in 0..bytes.len().saturating_sub(key.len()) {
        if &bytes[i..i + key.len()] == key && (i == 0 || bytes[i - 1] == b',' || bytes[i - 1] == b'G') {
            let ds: Vec<u8> = bytes[i + key.len()..].iter().take_while(|b| b.is_ascii_digit()).copied().collect();
            if !ds.is_empty() {
                found = Some(ds);
            }
        }
    }
    found
}

/// c11-drive --n N --seed S
pub fn drive(args: &[String]) {
    let n = arg_u64(args, "--n", 100) as usize;
    let seed = arg_u64(args, "--seed", 1);
    let mut rnd = Rng::new(seed ^ 0xc11);
    let mut out = Out::new();
    for hid in 0..n {
        let mut r2 = rnd.clone();
        let mut mk = |h: usize, w: usize| Image::from(SurfaceOwned::new_with(Size::new(h, w), |_| RGBA::new(r2.below(256) as u8, r2.below(256) as u8, r2.below(256) as u8, r2.below(256) as u8)));
        let big = mk(5, 7);
        // payload sizes: 1 chunk, exactly 1 / 2 chunks (pixel count multiple of 768), 3 chunks
        let mut pool: Vec<Image> = vec![mk(1, 1), mk(3, 2), big.crop(1..4, 2..5), big.clone(), mk(0, 0), big.crop(.., 1..2), big.crop(2..3, ..)];
        pool.push(Image::new(SurfaceOwned::new_with(Size::new(3, 4), |p| RGBA::new(p.row as u8 * 10, p.col as u8 * 10, 7, 255)).transpose()));
        // equal content in separate allocations (Image equality is pointer identity; the terminal keys images by content id)
        let redo = |img: &Image| { let px: Vec<RGBA> = img.iter().copied().collect(); let w = img.width(); Image::from(SurfaceOwned::new_with(img.size(), |p| px[p.row * w + p.col])) };
        pool.push(redo(&pool[1]));
        pool.push(redo(&pool[2]));
        // the same row-major pixel stream with other dimensions (3x2 -> 2x3 and 6x1): different images
        let stream: Vec<RGBA> = pool[1].iter().copied().collect();
        pool.push(Image::from(SurfaceOwned::new_with(Size::new(2, 3), |p| stream[p.row * 3 + p.col])));
        pool.push(Image::from(SurfaceOwned::new_with(Size::new(6, 1), |p| stream[p.row])));
        match hid % 4 {
            0 => pool.push(mk(24, 32)),
            1 => pool.push(mk(40, 41)),
            2 => pool.push(mk(32, 48)),
            _ => pool.push(mk(2, 0)),
        }
        rnd.next();
        let positions = [(0usize, 0usize), (0, 1), (1, 0), (7, 7), (65535, 0), (0, 65535), (65535, 65535), (24, 79), (0, 0), (1, 1), (65534, 65535)];
        let px: Vec<Vec<u8>> = pool.iter().map(pixels).collect();
        // images are the same image for the terminal iff their content is: histories speak about the first pool entry with that content
        let canon: Vec<usize> = (0..pool.len()).map(|i| (0..=i).find(|j| px[*j] == px[i] && pool[*j].size() == pool[i].size()).unwrap()).collect();
        let steps = 1 + rnd.below(8);
        let script: Vec<(usize, usize, usize)> = (0..steps).map(|_| (rnd.below(pool.len()), rnd.below(positions.len()), rnd.below(10))).collect();
        let res = guarded(|| {
            let mut h = KittyImageHandler::new();
            let mut ops: Vec<Value> = Vec::new();
            // id and placement of the last put of each image, from the handler's own output
            let mut last: Vec<Option<(Vec<u8>, Vec<u8>, (usize, usize))>> = vec![None; pool.len()];
            for (ii, pi, kind) in &script {
                let img = &pool[*ii];
                let (r, c) = positions[*pi];
                let mut buf = Vec::new();
                if *kind < 5 {
                    // every third history draws into a sink that accepts only a few bytes per call (pipes, sockets and
                    // non-blocking descriptors do that)
                    if hid % 3 == 1 {
                        let mut short = crate::c12::Short(Vec::new(), [1usize, 7, 100, 1000][(hid as usize / 3 + ops.len()) % 4]);
                        h.draw(&mut short, img, Position::new(r, c)).unwrap();
                        buf = short.0;
                    } else {
                        h.draw(&mut buf, img, Position::new(r, c)).unwrap();
                    }
                    if let (Some(id), Some(p)) = (scan_num(&buf, b"i="), scan_num(&buf, b"p=")) {
                        last[*ii] = Some((id, p, (r, c)));
                    }
                    ops.push(json!({"op": "draw", "img": canon[*ii], "alloc": ii, "w": img.width(), "h": img.height(), "r": r, "c": c, "bytes": buf, "id": [], "hasp": false}));
                } else if *kind == 6 && *pi % 3 == 0 {
                    // erase without a position: every placement of the image
                    h.erase(&mut buf, img, None).unwrap();
                    ops.push(json!({"op": "eraseall", "img": canon[*ii], "alloc": ii, "w": img.width(), "h": img.height(), "r": r, "c": c, "bytes": buf, "id": [], "hasp": false}));
                } else if *kind < 7 {
                    h.erase(&mut buf, img, Some(Position::new(r, c))).unwrap();
                    ops.push(json!({"op": "erase", "img": canon[*ii], "alloc": ii, "w": img.width(), "h": img.height(), "r": r, "c": c, "bytes": buf, "id": [], "hasp": false}));
                } else if let Some((id, p, (lr, lc))) = last[*ii].clone() {
                    // the terminal answers the last put of this image with an error, with or without placement id
                    let hasp = *kind == 7;
                    let ev = TerminalEvent::KittyImage {
                        id: String::from_utf8(id.clone()).unwrap().parse().unwrap(),
                        placement: if hasp { Some(String::from_utf8(p).unwrap().parse().unwrap()) } else { None },
                        error: Some("ENOENT:image not found".to_string()),
                    };
                    let handled = h.handle(&mut buf, &ev).unwrap();
                    assert!(handled, "kitty handler did not consume its own response");
                    ops.push(json!({"op": "error", "img": canon[*ii], "alloc": ii, "w": img.width(), "h": img.height(), "r": lr, "c": lc, "bytes": buf, "id": id, "hasp": hasp}));
                }
            }
            ops
        });
        match res {
            Ok(ops) => out.rec(&json!({"id": hid, "px": px, "ops": ops, "panic": ""})),
            Err(m) => out.rec(&json!({"id": hid, "px": px, "ops": [], "panic": m})),
        }
    }
}
