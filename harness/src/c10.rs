//! C10: view layout honours constraints, never panics, and draws where it says it does.
//!
//! A tree descriptor is the library's own JSON view format extended with the
//! view kinds that have no JSON form (frame, dynamic, option, either, scrollbar,
//! fill, surface) and with `probe` leaves.  Every leaf carries an id: probes put
//! it into their own layout node (`Layout::with_data`), library leaves are
//! wrapped in a `Tag`.  The id also travels in the colour the leaf paints with,
//! so the canvas tells which leaf painted which cell.
use crate::c01::Rec;
use crate::util::*;
use serde_json::{json, Value};
use std::sync::Arc;
use surf_n_term::view::{
    Align, Axis, BoxConstraint, Container, Dynamic, Either, Flex, FlexChild, FlexRef, Frame, Justify, Layout, Margins, ScrollBar, ScrollBarPosition, Tag, Text, Tree, View, ViewContext,
    ViewDeserializer, ViewLayout, ViewLayoutStore, ViewMutLayout,
};
use surf_n_term::*;

fn ctx_for(glyphs: bool) -> ViewContext {
    let mut t = Rec::new(TerminalSize { cells: Size::new(40, 100), pixels: Size::new(40 * 20, 100 * 10) });
    t.caps.glyphs = glyphs;
    ViewContext::new(&t).unwrap()
}

#[derive(Clone, Copy)]
struct LeafId(i64);

fn id_colour(id: i64) -> RGBA {
    RGBA::new(1 + (id / 250) as u8, 1 + (id % 250) as u8, 7, 255)
}
fn colour_id(c: Option<RGBA>) -> Option<i64> {
    let [r, g, b, a] = c?.to_rgba();
    (b == 7 && a == 255 && r >= 1 && g >= 1).then(|| (r as i64 - 1) * 250 + (g as i64 - 1))
}
fn cell_id(c: &Cell) -> i64 {
    colour_id(c.face().bg).or_else(|| colour_id(c.face().fg)).unwrap_or(-1)
}

/// leaf that takes its preferred size clamped to the constraint and fills what it is given
struct Probe {
    id: i64,
    pref: Size,
}
impl View for Probe {
    fn render(&self, _ctx: &ViewContext, surf: TerminalSurface<'_>, layout: ViewLayout<'_>) -> Result<(), Error> {
        let mut surf = layout.apply_to(surf);
        surf.fill(Cell::new_char(Face::new(None, Some(id_colour(self.id)), FaceAttrs::EMPTY), 'p'));
        Ok(())
    }
    fn layout(&self, _ctx: &ViewContext, ct: BoxConstraint, mut layout: ViewMutLayout<'_>) -> Result<(), Error> {
        *layout = Layout::new().with_size(ct.clamp(self.pref)).with_data(LeafId(self.id));
        Ok(())
    }
}

fn align_of(v: &Value) -> Align {
    match v {
        Value::String(s) => match s.as_str() {
            "start" => Align::Start,
            "center" => Align::Center,
            "end" => Align::End,
            "expand" => Align::Expand,
            _ => Align::Shrink,
        },
        Value::Object(m) => Align::Offset(m.get("offset").and_then(|o| o.as_i64()).unwrap_or(0) as i32),
        _ => Align::default(),
    }
}
fn axis_of(v: Option<&Value>) -> Axis {
    if v.and_then(|v| v.as_str()) == Some("vertical") { Axis::Vertical } else { Axis::Horizontal }
}
fn usize_of(v: Option<&Value>) -> usize {
    v.and_then(|v| v.as_u64()).unwrap_or(0) as usize
}
fn face_of(v: Option<&Value>) -> Option<Face> {
    v.and_then(|v| v.as_str()).and_then(|s| s.parse().ok())
}

/// typed construction of the descriptor
fn build(d: &Value) -> Box<dyn View> {
    let leaf = |id: i64, v: Box<dyn View>| -> Box<dyn View> { Tag::new(LeafId(id), v).boxed() };
    let id = d.get("id").and_then(|v| v.as_i64()).unwrap_or(0);
    match d["type"].as_str().unwrap_or("") {
        "probe" => Probe { id, pref: Size::new(usize_of(d.get("h")), usize_of(d.get("w"))) }.boxed(),
        "text" => {
            let mut t = Text::new();
            if let Some(w) = d.get("wraps").and_then(|w| w.as_bool()) {
                t.set_wraps(w);
            }
            t.set_face(Face::new(Some(id_colour(id)), None, FaceAttrs::EMPTY));
            t.put_fmt(d["text"].as_str().unwrap_or(""), None);
            leaf(id, t.boxed())
        }
        "fill" => leaf(id, id_colour(id).boxed()),
        "nothing" => ().boxed(),
        "scrollbar" => {
            let pos = ScrollBarPosition::from_counts(usize_of(d.get("total")), usize_of(d.get("offset")), usize_of(d.get("visible")));
            leaf(id, ScrollBar::new(axis_of(d.get("direction")), Face::new(Some(id_colour(id)), Some(id_colour(id)), FaceAttrs::EMPTY), pos).boxed())
        }
        "surface" => {
            let cell = Cell::new_char(Face::new(None, Some(id_colour(id)), FaceAttrs::EMPTY), 's');
            let surf: Arc<SurfaceOwned<Cell>> = Arc::new(SurfaceOwned::new_with(Size::new(usize_of(d.get("h")), usize_of(d.get("w"))), |_| cell.clone()));
            leaf(id, SurfArc(surf).boxed())
        }
        "image" => {
            let (h, w) = (usize_of(d.get("h")), usize_of(d.get("w")));
            Image::from(SurfaceOwned::new_with(Size::new(h, w), |_| RGBA::new(9, 8, 7, 255))).boxed()
        }
        "glyph" => {
            let path: Path = "M0,0 L1,0 L1,1 Z".parse().unwrap();
            Glyph::new(path, FillRule::NonZero, None, Size::new(usize_of(d.get("h")), usize_of(d.get("w"))), d["fallback"].as_str().unwrap_or("").to_string(), None).boxed()
        }
        "flex" => {
            let mut f = Flex::new(axis_of(d.get("direction"))).justify(match d.get("justify").and_then(|j| j.as_str()).unwrap_or("start") {
                "center" => Justify::Center,
                "end" => Justify::End,
                "space-between" => Justify::SpaceBetween,
                "space-around" => Justify::SpaceAround,
                "space-evenly" => Justify::SpaceEvenly,
                _ => Justify::Start,
            });
            let kids = d["children"].as_array().map(|a| a.as_slice()).unwrap_or(&[]);
            // the statically typed flex (FlexRef over a Vec, an array or a tuple of children) shares the layout code but has
            // its own child containers; `"ref": 1..3` selects one of them (positive flex factors only: Flex drops the others)
            let refkind = d.get("ref").and_then(|r| r.as_u64()).unwrap_or(0);
            let positive = kids.iter().all(|c| c.get("flex").and_then(|x| x.as_f64()).map(|x| x > 0.0).unwrap_or(true));
            if refkind > 0 && positive && kids.len() <= 3 {
                let axis = axis_of(d.get("direction"));
                let justify = match d.get("justify").and_then(|j| j.as_str()).unwrap_or("start") {
                    "center" => Justify::Center,
                    "end" => Justify::End,
                    "space-between" => Justify::SpaceBetween,
                    "space-around" => Justify::SpaceAround,
                    "space-evenly" => Justify::SpaceEvenly,
                    _ => Justify::Start,
                };
                let mut cs: Vec<FlexChild<Box<dyn View>>> = kids
                    .iter()
                    .map(|c| {
                        if c.get("type").is_some() {
                            FlexChild::new(build(c)).align(Align::default())
                        } else {
                            let mut fc = FlexChild::new(build(&c["view"])).align(c.get("align").map(align_of).unwrap_or_default());
                            if let Some(x) = c.get("flex").and_then(|x| x.as_f64()) {
                                fc = fc.flex(x);
                            }
                            if let Some(face) = face_of(c.get("face")) {
                                fc = fc.face(face);
                            }
                            fc
                        }
                    })
                    .collect();
                return match (refkind, cs.len()) {
                    (1, _) => FlexRef::new(cs).direction(axis).justify(justify).boxed(),
                    (2, 1) => { let a = cs.remove(0); FlexRef::new([a]).direction(axis).justify(justify).boxed() }
                    (2, 2) => { let b = cs.remove(1); let a = cs.remove(0); FlexRef::new([a, b]).direction(axis).justify(justify).boxed() }
                    (2, 3) => { let c = cs.remove(2); let b = cs.remove(1); let a = cs.remove(0); FlexRef::new([a, b, c]).direction(axis).justify(justify).boxed() }
                    (_, 1) => { let a = cs.remove(0); FlexRef::new((a,)).direction(axis).justify(justify).boxed() }
                    (_, 2) => { let b = cs.remove(1); let a = cs.remove(0); FlexRef::new((a, b)).direction(axis).justify(justify).boxed() }
                    (_, 3) => { let c = cs.remove(2); let b = cs.remove(1); let a = cs.remove(0); FlexRef::new((a, b, c)).direction(axis).justify(justify).boxed() }
                    _ => FlexRef::new(cs).direction(axis).justify(justify).boxed(),
                };
            }
            for c in kids {
                if c.get("type").is_some() {
                    // the JSON form gives such a child the default alignment
                    f.push_child_ext(build(c), None, None, Align::default());
                } else {
                    f.push_child_ext(build(&c["view"]), c.get("flex").and_then(|x| x.as_f64()), face_of(c.get("face")), c.get("align").map(align_of).unwrap_or_default());
                }
            }
            f.boxed()
        }
        "container" => {
            let mut c = Container::new(build(&d["child"]));
            if let Some(s) = d.get("size") {
                c = c.with_size(Size::new(usize_of(s.get("height")), usize_of(s.get("width"))));
            }
            if let Some(a) = d.get("vertical") {
                c = c.with_vertical(align_of(a));
            }
            if let Some(a) = d.get("horizontal") {
                c = c.with_horizontal(align_of(a));
            }
            if let Some(m) = d.get("margins") {
                c = c.with_margins(Margins { left: usize_of(m.get("left")), right: usize_of(m.get("right")), top: usize_of(m.get("top")), bottom: usize_of(m.get("bottom")) });
            }
            if let Some(f) = face_of(d.get("face")) {
                c = c.with_face(f);
            }
            c.boxed()
        }
        "tag" => Tag::new(d["tag"].clone(), build(&d["view"])).boxed(),
        "frame" => Frame::new(build(&d["view"]), RGBA::new(20, 20, 20, 255), RGBA::new(200, 200, 200, 255), 0.2, 0.5).boxed(),
        "dynamic" => {
            let inner = d["view"].clone();
            Dynamic::new(move |_ctx: &ViewContext, _ct: BoxConstraint| build(&inner)).boxed()
        }
        "option" => (if d["view"].is_null() { None } else { Some(build(&d["view"])) }).boxed(),
        "either" => {
            let e: Either<Box<dyn View>, Box<dyn View>> = if d["left"].as_bool().unwrap_or(true) { Either::Left(build(&d["view"])) } else { Either::Right(build(&d["view"])) };
            e.boxed()
        }
        other => panic!("harness: unknown view kind {other}"),
    }
}

/// a surface view that owns its cells (SurfaceView borrows)
struct SurfArc(Arc<SurfaceOwned<Cell>>);
impl View for SurfArc {
    fn render(&self, ctx: &ViewContext, surf: TerminalSurface<'_>, layout: ViewLayout<'_>) -> Result<(), Error> {
        Surface::view(&*self.0, .., ..).render(ctx, surf, layout)
    }
    fn layout(&self, ctx: &ViewContext, ct: BoxConstraint, layout: ViewMutLayout<'_>) -> Result<(), Error> {
        Surface::view(&*self.0, .., ..).layout(ctx, ct, layout)
    }
}

/// the descriptor as a document of the library's JSON view format (None when a kind has no JSON form)
fn to_json(d: &Value) -> Option<Value> {
    let id = d.get("id").and_then(|v| v.as_i64()).unwrap_or(0);
    let [r, g, b, _] = id_colour(id).to_rgba();
    let tagged = |v: Value| json!({"type": "tag", "tag": {"leaf": id}, "view": v});
    Some(match d["type"].as_str()? {
        "probe" => d.clone(),
        "text" => {
            let mut t = json!({"type": "text", "face": format!("fg=#{r:02x}{g:02x}{b:02x}"), "text": d["text"]});
            if let Some(w) = d.get("wraps") {
                t["wraps"] = w.clone();
            }
            tagged(t)
        }
        "flex" => {
            let mut f = d.clone();
            let mut kids = Vec::new();
            for c in d["children"].as_array()? {
                if c.get("type").is_some() {
                    kids.push(to_json(c)?);
                } else {
                    let mut k = c.clone();
                    k["view"] = to_json(&c["view"])?;
                    kids.push(k);
                }
            }
            f["children"] = Value::Array(kids);
            f
        }
        "container" => {
            let mut c = d.clone();
            c["child"] = to_json(&d["child"])?;
            c
        }
        "tag" => {
            let mut t = d.clone();
            t["view"] = to_json(&d["view"])?;
            t
        }
        _ => return None,
    })
}

fn node_id(l: &Layout) -> i64 {
    if let Some(LeafId(i)) = l.data::<LeafId>() {
        return *i;
    }
    if let Some(v) = l.data::<Value>() {
        if let Some(i) = v.get("leaf").and_then(|i| i.as_i64()) {
            return i;
        }
    }
    -1
}

fn dump(l: ViewLayout<'_>) -> Value {
    let kids: Vec<Value> = l.children().map(dump).collect();
    // TLC integers are 32 bit: anything beyond 10^6 is outside every canvas used here anyway
    let c = |x: usize| x.min(1_000_000);
    json!({"pos": [c(l.position().row), c(l.position().col)], "size": [c(l.size().height), c(l.size().width)], "probe": node_id(&l), "kids": kids})
}

fn sentinel() -> Cell {
    Cell::new_char(Face::new(None, Some(RGBA::new(9, 9, 9, 255)), FaceAttrs::EMPTY), '#')
}

/// does the tree contain views that paint without carrying a leaf id
fn pure(d: &Value, glyphs: bool) -> bool {
    match d["type"].as_str().unwrap_or("") {
        "image" | "glyph" => false,
        "frame" => !glyphs && pure(&d["view"], glyphs),
        "container" => d.get("face").is_none() && pure(&d["child"], glyphs),
        "flex" => d["children"].as_array().map(|a| a.iter().all(|c| if c.get("type").is_some() { pure(c, glyphs) } else { c.get("face").is_none() && pure(&c["view"], glyphs) })).unwrap_or(true),
        "tag" | "dynamic" | "either" => pure(&d["view"], glyphs),
        "option" => d["view"].is_null() || pure(&d["view"], glyphs),
        _ => true,
    }
}
/// leaves that fill their whole rectangle
fn full_ids(d: &Value, out: &mut Vec<i64>) {
    match d["type"].as_str().unwrap_or("") {
        "probe" | "fill" => out.push(d["id"].as_i64().unwrap_or(0)),
        "flex" => {
            for c in d["children"].as_array().map(|a| a.as_slice()).unwrap_or(&[]) {
                full_ids(if c.get("type").is_some() { c } else { &c["view"] }, out)
            }
        }
        "container" => full_ids(&d["child"], out),
        "tag" | "dynamic" | "either" | "frame" => full_ids(&d["view"], out),
        "option" if !d["view"].is_null() => full_ids(&d["view"], out),
        _ => {}
    }
}

fn run_one(id: u64, rec: &Value, route: &str, out: &mut Out) {
    let tree = &rec["tree"];
    let ct = &rec["ct"]; // [min h, min w, max h, max w]
    // negative entries are markers for bounds beyond TLC's integers (ViewTreeGen family N5)
    let cts: Vec<usize> = ct
        .as_array()
        .unwrap()
        .iter()
        .map(|v| match v.as_i64() {
            Some(-1) => usize::MAX,
            Some(-2) => 1 << 40,
            Some(-3) => usize::MAX - 1,
            Some(-4) => 1 << 20,
            _ => v.as_u64().unwrap() as usize,
        })
        .collect();
    let glyphs = rec["glyphs"].as_bool().unwrap_or(false);
    let surf_mode = rec["surf"].as_str().unwrap_or("max");
    let ctx = ctx_for(glyphs);
    let mut full = Vec::new();
    full_ids(tree, &mut full);
    let root_kind = tree["type"].as_str().unwrap_or("").to_string();
    let bounded = matches!(root_kind.as_str(), "probe" | "text" | "flex" | "container" | "image" | "glyph" | "fill" | "surface" | "nothing");
    let ct_clamped: Vec<usize> = cts.iter().map(|x| (*x).min(1_000_000)).collect();
    let base = json!({"id": id, "tree": tree, "ct": ct_clamped, "ctraw": ct, "glyphs": glyphs, "route": route, "surfmode": surf_mode, "bounded": bounded, "pure": pure(tree, glyphs), "full": full});
    let res = guarded(|| -> Result<Value, String> {
        let view: Box<dyn View> = if route == "json" {
            let mut de = ViewDeserializer::new(None, None);
            de.register("probe", |_, v| Probe { id: v["id"].as_i64().unwrap_or(0), pref: Size::new(usize_of(v.get("h")), usize_of(v.get("w"))) }.arc());
            let doc = to_json(tree).expect("harness: tree has no JSON form");
            use serde::de::DeserializeSeed;
            match (&de).deserialize(doc) {
                Ok(v) => v.boxed(),
                Err(e) => return Err(format!("deserialize: {e}")),
            }
        } else {
            build(tree)
        };
        let bc = BoxConstraint::new(Size::new(cts[0], cts[1]), Size::new(cts[2], cts[3]));
        let mut store = ViewLayoutStore::new();
        let layout = view.layout_new(&ctx, bc, &mut store).map_err(|e| format!("layout: {e}"))?;
        let root = layout.size();
        let surf = match surf_mode {
            "max" => Size::new(cts[2], cts[3]),
            "root" => root,
            "fixed" => Size::new(9, 11),
            _ => Size::new(root.height.saturating_sub(1), root.width.saturating_sub(1).max(root.width / 2)),
        };
        if surf.height > 4000 || surf.width > 4000 {
            // nothing this large can be rendered here; the layout alone is judged
            return Ok(json!({"layout": dump(layout.view()), "surf": [0, 0], "canvas": [], "outside": 0, "beyond": 0, "hits": []}));
        }
        let mut canvas: SurfaceOwned<Cell> = SurfaceOwned::new_with(Size::new(surf.height + 4, surf.width + 4), |_| sentinel());
        let rr = {
            let mut view_mut = canvas.view_mut(2..2 + surf.height as i64, 2..2 + surf.width as i64);
            view.render(&ctx, view_mut.as_mut(), layout.view())
        };
        rr.map_err(|e| format!("render: {e}"))?;
        let s = sentinel();
        let mut ids = Vec::new();
        let mut outside = 0;
        let mut touched_outside_root = 0;
        for row in 0..canvas.height() {
            for col in 0..canvas.width() {
                let c = canvas.get(Position::new(row, col)).unwrap();
                let inside = row >= 2 && row < 2 + surf.height && col >= 2 && col < 2 + surf.width;
                if inside {
                    ids.push(cell_id(c));
                    if c != &s && (row - 2 >= root.height || col - 2 >= root.width) {
                        touched_outside_root += 1;
                    }
                } else if c != &s {
                    outside += 1;
                }
            }
        }
        let mut hits = Vec::new();
        for row in 0..surf.height.min(root.height) {
            for col in 0..surf.width.min(root.width) {
                let mut last = -1;
                for l in layout.find_path(Position::new(row, col)) {
                    let i = node_id(l);
                    if i >= 0 {
                        last = i;
                    }
                }
                hits.push(json!([row, col, last]));
            }
        }
        Ok(json!({"layout": dump(layout.view()), "surf": [surf.height, surf.width], "canvas": ids, "outside": outside, "beyond": touched_outside_root, "hits": hits}))
    });
    let mut o = base;
    let empty = json!({"layout": {"pos": [0, 0], "size": [0, 0], "probe": -1, "kids": []}, "surf": [0, 0], "canvas": [], "outside": 0, "beyond": 0, "hits": []});
    let (body, panic, err) = match res {
        Ok(Ok(v)) => (v, String::new(), String::new()),
        Ok(Err(e)) => (empty, String::new(), e),
        Err(p) => (empty, if p.is_empty() { "panic".into() } else { p }, String::new()),
    };
    for (k, v) in body.as_object().unwrap() {
        o[k] = v.clone();
    }
    o["panic"] = json!(panic);
    o["err"] = json!(err);
    out.rec(&o);
}

// ---------------------------------------------------------------- generator
struct TreeGen<'a> {
    rnd: &'a mut Rng,
    next_id: i64,
    json_only: bool,
}
impl TreeGen<'_> {
    fn dim(&mut self) -> usize {
        *self.rnd.pick(&[0usize, 1, 1, 2, 3, 5, 8, 13, 1000][..])
    }
    fn align(&mut self) -> Value {
        match self.rnd.below(8) {
            0 => json!("start"),
            1 => json!("center"),
            2 => json!("end"),
            3 => json!("expand"),
            4 => json!("shrink"),
            5 => json!({"offset": self.rnd.range(-4, 4)}),
            6 => json!({"offset": *self.rnd.pick(&[i32::MIN as i64, -1000, 1000, i32::MAX as i64][..])}),
            _ => json!("center"),
        }
    }
    fn leaf(&mut self) -> Value {
        let id = self.next_id;
        self.next_id += 1;
        let kinds: &[&str] = if self.json_only { &["probe", "probe", "probe", "text"] } else { &["probe", "probe", "probe", "probe", "text", "fill", "scrollbar", "surface", "image", "glyph", "nothing"] };
        match *self.rnd.pick(kinds) {
            "probe" => json!({"type": "probe", "id": id, "h": self.dim(), "w": self.dim()}),
            "text" => {
                let texts = ["", "a", "hello", "two\nlines", "日本語 wide", "tab\there", "a long line of text that wraps around", "\u{200b}", "x\n\n"];
                json!({"type": "text", "id": id, "text": *self.rnd.pick(&texts[..]), "wraps": self.rnd.chance(2, 3)})
            }
            "fill" => json!({"type": "fill", "id": id}),
            "scrollbar" => json!({"type": "scrollbar", "id": id, "direction": if self.rnd.chance(1, 2) { "vertical" } else { "horizontal" },
                                  "total": self.rnd.below(12), "offset": self.rnd.below(12), "visible": self.rnd.below(12)}),
            "surface" => json!({"type": "surface", "id": id, "h": self.rnd.below(5), "w": self.rnd.below(7)}),
            "image" => json!({"type": "image", "h": 1 + self.rnd.below(50), "w": 1 + self.rnd.below(40)}),
            "glyph" => json!({"type": "glyph", "h": self.rnd.below(3), "w": self.rnd.below(4), "fallback": *self.rnd.pick(&["", "g", "ab", "日"][..])}),
            _ => json!({"type": "nothing"}),
        }
    }
    fn tree(&mut self, depth: usize) -> Value {
        if depth == 0 || self.rnd.chance(1, 4) {
            return self.leaf();
        }
        let kinds: &[&str] = if self.json_only { &["flex", "flex", "container", "container", "tag"] } else { &["flex", "flex", "flex", "container", "container", "container", "frame", "tag", "dynamic", "option", "either"] };
        match *self.rnd.pick(kinds) {
            "flex" => {
                let n = *self.rnd.pick(&[0usize, 1, 2, 2, 3, 3, 4, 6][..]);
                let mut kids = Vec::new();
                for _ in 0..n {
                    let v = self.tree(depth - 1);
                    if self.rnd.chance(1, 5) {
                        kids.push(v);
                    } else {
                        let mut k = json!({"view": v, "align": self.align()});
                        if self.rnd.chance(1, 2) {
                            k["flex"] = json!(*self.rnd.pick(&[0.0, 0.5, 1.0, 1.0, 2.0, 3.0, 1e-9, 1e9, -1.0, -2.5][..]));
                        }
                        if self.rnd.chance(1, 8) {
                            k["face"] = json!("bg=#303030");
                        }
                        kids.push(k);
                    }
                }
                let justify = *self.rnd.pick(&["start", "center", "end", "space-between", "space-around", "space-evenly"][..]);
                let mut f = json!({"type": "flex", "direction": if self.rnd.chance(1, 2) { "vertical" } else { "horizontal" }, "justify": justify, "children": kids});
                if !self.json_only && self.rnd.chance(1, 3) {
                    f["ref"] = json!(1 + self.rnd.below(3));
                }
                f
            }
            "container" => {
                let mut c = json!({"type": "container", "child": self.tree(depth - 1), "vertical": self.align(), "horizontal": self.align()});
                if self.rnd.chance(2, 3) {
                    c["size"] = json!({"height": self.dim(), "width": self.dim()});
                }
                if self.rnd.chance(1, 2) {
                    let m = |r: &mut Rng| *r.pick(&[0usize, 0, 1, 1, 2, 5, 1000, usize::MAX][..]);
                    c["margins"] = json!({"left": m(self.rnd), "right": m(self.rnd), "top": m(self.rnd), "bottom": m(self.rnd)});
                }
                if self.rnd.chance(1, 8) {
                    c["face"] = json!("bg=#404040");
                }
                c
            }
            "frame" => json!({"type": "frame", "view": self.tree(depth - 1)}),
            "tag" => json!({"type": "tag", "tag": {"name": "t"}, "view": self.tree(depth - 1)}),
            "dynamic" => {
                // Dynamic stores the built view in the layout data of its child's node, replacing a tag or probe id there
                let inner = self.tree(depth - 1);
                let inner = if matches!(inner["type"].as_str().unwrap(), "flex" | "container") { inner } else { json!({"type": "flex", "children": [{"view": inner, "align": "start"}]}) };
                json!({"type": "dynamic", "view": inner})
            }
            "option" => json!({"type": "option", "view": if self.rnd.chance(1, 3) { Value::Null } else { self.tree(depth - 1) }}),
            _ => json!({"type": "either", "left": self.rnd.chance(1, 2), "view": self.tree(depth - 1)}),
        }
    }
}

fn gen_ct(rnd: &mut Rng) -> [usize; 4] {
    let dims = [0usize, 0, 1, 1, 2, 3, 5, 8, 12];
    let pair = |rnd: &mut Rng| {
        let (a, b) = (*rnd.pick(&dims[..]), *rnd.pick(&dims[..]));
        match rnd.below(3) {
            0 => (0, a.max(b)),
            1 => (a.max(b), a.max(b)),
            _ => (a.min(b), a.max(b)),
        }
    };
    let (h0, h1) = pair(rnd);
    let (w0, w1) = pair(rnd);
    [h0, w0, h1, w1]
}

/// c10-gen --n N --seed S [--first ID]: seeded random vectors {id, tree, ct, glyphs, surf, route}
pub fn vectors(args: &[String]) {
    let n = arg_u64(args, "--n", 100) as usize;
    let seed = arg_u64(args, "--seed", 1);
    let first = arg_u64(args, "--first", 0);
    let mut out = Out::new();
    let mut rnd = Rng::new(seed ^ 0xc10);
    for round in 0..n {
        let json_only = round % 4 == 3;
        let tree = {
            let mut g = TreeGen { rnd: &mut rnd, next_id: 0, json_only };
            let depth = 1 + g.rnd.below(4);
            g.tree(depth)
        };
        let mut ct = gen_ct(&mut rnd);
        let mut surf = ["max", "max", "root", "small"][rnd.below(4)];
        if round % 10 == 9 {
            // unbounded constraints, rendered into a fixed window
            surf = "fixed";
            for i in 2..4 {
                if rnd.chance(2, 3) {
                    ct[i] = *rnd.pick(&[1usize << 20, 1 << 40, usize::MAX - 1, usize::MAX][..]);
                }
            }
            if rnd.chance(1, 6) {
                ct[0] = ct[2];
            }
        }
        out.rec(&json!({"id": first + round as u64, "tree": tree, "ct": ct, "glyphs": if round % 10 == 9 { (round / 10) % 2 == 0 } else { round % 2 == 0 }, "surf": surf, "route": if json_only { "json" } else { "typed" }}));
    }
}

/// c10-drive: read {id, tree, ct, glyphs, surf, route} vectors from stdin, one recording per vector
pub fn drive(_args: &[String]) {
    let mut out = Out::new();
    for (i, rec) in stdin_records().enumerate() {
        let id = rec.get("id").and_then(|v| v.as_u64()).unwrap_or(i as u64);
        let route = rec.get("route").and_then(|v| v.as_str()).unwrap_or("typed").to_string();
        run_one(id, &rec, &route, &mut out);
    }
}
