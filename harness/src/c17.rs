//! C16 (b) / C17: the real terminal object on a pseudo-terminal, driven by a
//! seeded session script; hook events (feature verif-hooks) and harness events
//! share one atomic sequence and are written as one trace per session.
use crate::util::*;
use serde_json::{json, Value};
use std::io::{Read, Write};
use std::os::fd::{AsRawFd, FromRawFd};
use std::sync::atomic::{AtomicBool, AtomicU64, Ordering};
use std::sync::{Arc, Mutex};
use std::time::Duration;
use surf_n_term::verif;
use surf_n_term::{KeyName, Position, SystemTerminal, Terminal, TerminalCommand, TerminalEvent};

fn open_pty() -> (std::fs::File, String) {
    unsafe {
        let m = libc::posix_openpt(libc::O_RDWR | libc::O_NOCTTY);
        assert!(m >= 0, "posix_openpt failed");
        assert_eq!(libc::grantpt(m), 0);
        assert_eq!(libc::unlockpt(m), 0);
        let mut buf = [0 as libc::c_char; 128];
        assert_eq!(libc::ptsname_r(m, buf.as_mut_ptr(), buf.len()), 0);
        let name = std::ffi::CStr::from_ptr(buf.as_ptr()).to_string_lossy().to_string();
        (std::fs::File::from_raw_fd(m), name)
    }
}

fn termios_of(fd: i32) -> Vec<u64> {
    unsafe {
        let mut t: libc::termios = std::mem::zeroed();
        assert_eq!(libc::tcgetattr(fd, &mut t), 0);
        let mut v = vec![t.c_iflag as u64, t.c_oflag as u64, t.c_cflag as u64, t.c_lflag as u64];
        v.extend(t.c_cc.iter().map(|c| *c as u64));
        v
    }
}

fn ev(body: String) {
    verif::emit(|| body);
}

fn poll_kind(r: &Result<Option<TerminalEvent>, surf_n_term::Error>) -> (String, u32) {
    match r {
        Ok(None) => ("none".into(), 0),
        Ok(Some(TerminalEvent::Wake)) => ("wake".into(), 0),
        Ok(Some(TerminalEvent::Resize(sz))) => ("resize".into(), (sz.cells.height * 1000 + sz.cells.width) as u32),
        Ok(Some(TerminalEvent::Key(k))) => match k.name {
            KeyName::Char(c) => ("key".into(), c as u32),
            _ => ("key".into(), 0),
        },
        Ok(Some(_)) => ("other".into(), 0),
        Err(surf_n_term::Error::Quit) => ("quit".into(), 0),
        Err(_) => ("error".into(), 0),
    }
}

/// one session; returns the ordered event list
fn session(seed: u64, scenario: &str) -> Vec<Value> {
    let log: Arc<Mutex<Vec<(u64, String)>>> = Arc::new(Mutex::new(Vec::new()));
    let l2 = log.clone();
    verif::install(Some(Box::new(move |seq, body| {
        l2.lock().unwrap().push((seq, body));
    })));
    let mut rnd = Rng::new(seed ^ 0xc17);
    let (master, slave) = open_pty();
    unsafe {
        // "escsize": the kernel reports no pixel size, so the library falls back to asking the terminal (CSI 18 t, CSI 14 t)
        let px = if scenario == "escsize" { 0 } else { 1 };
        let ws = libc::winsize { ws_row: 24, ws_col: 80, ws_xpixel: 800 * px, ws_ypixel: 480 * px };
        libc::ioctl(master.as_raw_fd(), libc::TIOCSWINSZ, &ws);
    }
    // the size the emulated terminal reports when asked: rows * 1000 + columns
    let reported = Arc::new(AtomicU64::new(24 * 1000 + 80));
    // keep the slave open so that the peer never sees EIO
    let keep = std::fs::OpenOptions::new().read(true).write(true).open(&slave).unwrap();
    let saved = termios_of(keep.as_raw_fd());
    let stop = Arc::new(AtomicBool::new(false));
    let master_w = Arc::new(Mutex::new(master.try_clone().unwrap()));
    // ---- peer: drains the master side at a seeded rate, answers DA1, records what it saw
    let slow = rnd.below(3); // 0 fast, 1 slow, 2 very slow
    let peer = {
        let mut mr = master.try_clone().unwrap();
        let mw = master_w.clone();
        let stop = stop.clone();
        let reported2 = reported.clone();
        std::thread::spawn(move || {
            let mut buf = vec![0u8; if slow == 2 { 512 } else { 4096 }];
            let mut tail: Vec<u8> = Vec::new();
            let mut rle: Vec<(u8, u64)> = Vec::new();
            let fd = mr.as_raw_fd();
            loop {
                let mut pfd = libc::pollfd { fd, events: libc::POLLIN, revents: 0 };
                let n = unsafe { libc::poll(&mut pfd, 1, 60) };
                if n <= 0 {
                    if stop.load(Ordering::SeqCst) {
                        break;
                    }
                    continue;
                }
                match mr.read(&mut buf) {
                    Ok(0) | Err(_) => break,
                    Ok(n) => {
                        ev(format!(r#"{{"ev":"peer_recv","n":{}}}"#, n));
                        for b in &buf[..n] {
                            if *b >= 0x80 {
                                match rle.last_mut() {
                                    Some((v, c)) if *v == *b => *c += 1,
                                    _ => rle.push((*b, 1)),
                                }
                            }
                        }
                        tail.extend_from_slice(&buf[..n]);
                        let text: Vec<u8> = tail.iter().copied().filter(|b| *b < 0x80).collect();
                        // requests in the order they were written: DA1 (CSI c) and the size query (CSI 18 t CSI 14 t,
                        // answered when its second half is seen)
                        let mut replies: Vec<u8> = Vec::new();
                        let mut last_end = 0;
                        for i in 0..text.len() {
                            if text[i..].starts_with(b"\x1b[c") {
                                replies.push(b'c');
                                last_end = i + 3;
                            } else if text[i..].starts_with(b"\x1b[14t") {
                                replies.push(b't');
                                last_end = i + 5;
                            }
                        }
                        if text.windows(6).any(|w| w == b"\x1b[?25h") {
                            ev(r#"{"ev":"peer_saw","what":"cursor_on"}"#.to_string());
                        }
                        if text.windows(8).any(|w| w == b"\x1b[?1000l") {
                            ev(r#"{"ev":"peer_saw","what":"mouse_off"}"#.to_string());
                        }
                        // keep only a short low-byte tail behind the last answered request so that split sequences are
                        // still found once
                        tail = text[last_end.max(text.len().saturating_sub(7))..].to_vec();
                        for r in replies {
                            let mut w = mw.lock().unwrap();
                            if r == b'c' {
                                ev(r#"{"ev":"peer_send","kind":"da1","id":0,"n":7}"#.to_string());
                                let _ = w.write_all(b"\x1b[?62;c");
                            } else {
                                let sz = reported2.load(Ordering::SeqCst);
                                let msg = format!("\x1b[8;{};{}t\x1b[4;{};{}t", sz / 1000, sz % 1000, sz / 1000 * 20, sz % 1000 * 10);
                                ev(format!(r#"{{"ev":"peer_send","kind":"size","id":{},"n":{}}}"#, sz, msg.len()));
                                let _ = w.write_all(msg.as_bytes());
                            }
                        }
                        match slow {
                            1 => std::thread::sleep(Duration::from_micros(300)),
                            2 => std::thread::sleep(Duration::from_millis(2)),
                            _ => {}
                        }
                    }
                }
            }
            let r: Vec<Value> = rle.iter().map(|(v, c)| json!([v, c])).collect();
            ev(format!(r#"{{"ev":"peer_rle","rle":{}}}"#, Value::Array(r)));
        })
    };
    let mut term = SystemTerminal::open(&slave).expect("open terminal on pty");
    // every third session mirrors its output into a file (duplicate_output): the tee must not change what reaches the tty
    let tee = std::env::temp_dir().join(format!("snt-tee-{}-{}", std::process::id(), seed));
    if seed % 3 == 0 {
        term.duplicate_output(&tee).expect("tee file");
    }
    ev(format!(r#"{{"ev":"session_start","esc":{}}}"#, scenario == "escsize"));
    let mut threads = Vec::new();
    let mut frame_no = 0u64;
    let mut pending_wakes = false;
    let mut winch_no = 0usize;
    let steps = 6 + rnd.below(10);
    let sizes = [1usize, 3, 10, 200, 1000, 5000, 20000, 70000, 300000];
    let do_poll = |term: &mut SystemTerminal, tmo: Option<Duration>| -> (String, u32) {
        let r = term.poll(tmo);
        let (kind, id) = poll_kind(&r);
        ev(format!(r#"{{"ev":"poll_ret","kind":"{}","id":{},"eof":false}}"#, kind, id));
        (kind, id)
    };
    if scenario == "big" {
        // several window changes while one poll is busy sending a large frame: every signal the poll sees queues its own
        // Resize behind the ones that are still waiting
        let v = 0x80 + (frame_no % 100) as u8;
        frame_no += 1;
        ev(format!(r#"{{"ev":"app_write","v":{},"n":{}}}"#, v, 300000));
        term.write_all(&vec![v; 300000]).unwrap();
        term.flush().unwrap();
        let raiser = std::thread::spawn(|| {
            for gap in [1u64, 2, 3] {
                std::thread::sleep(Duration::from_millis(gap));
                ev(r#"{"ev":"sig_raise","sig":28}"#.to_string());
                unsafe { libc::raise(libc::SIGWINCH) };
            }
        });
        do_poll(&mut term, Some(Duration::from_millis(400)));
        raiser.join().unwrap();
    }
    if scenario == "escsize" {
        // a window change while a large frame is in flight, the size request queues up behind it; then the application
        // drops its stale frames: the request must survive (or be issued again), or the change is never reported
        let v = 0x80 + (frame_no % 100) as u8;
        frame_no += 1;
        ev(format!(r#"{{"ev":"app_write","v":{},"n":{}}}"#, v, 200000));
        term.write_all(&vec![v; 200000]).unwrap();
        term.flush().unwrap();
        do_poll(&mut term, Some(Duration::from_millis(0)));
        reported.store(30 * 1000 + 100, Ordering::SeqCst);
        ev(r#"{"ev":"sig_raise","sig":28}"#.to_string());
        unsafe { libc::raise(libc::SIGWINCH) };
        do_poll(&mut term, Some(Duration::from_millis(0)));
        let v = 0x80 + (frame_no % 100) as u8;
        frame_no += 1;
        ev(format!(r#"{{"ev":"app_write","v":{},"n":{}}}"#, v, 50));
        term.write_all(&vec![v; 50]).unwrap();
        term.flush().unwrap();
        if seed / 8 % 2 == 0 {
            term.frames_drop();
        }
        // once everything is out: a window change met by a poll without a timeout that starts with nothing to send;
        // the signal alone must bring the poll back (request written, answer read, Resize delivered)
        let mut idle = 0;
        let mut guard = 0;
        while idle < 2 && guard < 2000 {
            guard += 1;
            let (kind, _) = do_poll(&mut term, Some(Duration::from_millis(40)));
            idle = if kind == "none" && term.frames_pending() == 0 { idle + 1 } else { 0 };
        }
        reported.store(40 * 1000 + 120, Ordering::SeqCst);
        ev(r#"{"ev":"sig_raise","sig":28}"#.to_string());
        unsafe { libc::raise(libc::SIGWINCH) };
        do_poll(&mut term, None);
    }
    for _ in 0..steps {
        let step = rnd.below(12);
        match if scenario == "escsize" && (step == 4 || step == 5) { 8 } else { step } {
            0..=3 => {
                // a numbered frame: payload bytes are >= 0x80, one value per frame
                let n = if scenario == "big" { sizes[3 + rnd.below(6)] } else { sizes[rnd.below(7)] };
                let v = 0x80 + (frame_no % 100) as u8;
                frame_no += 1;
                ev(format!(r#"{{"ev":"app_write","v":{},"n":{}}}"#, v, n));
                term.write_all(&vec![v; n]).unwrap();
                if rnd.chance(2, 3) {
                    term.flush().unwrap();
                }
            }
            4 => {
                term.execute(TerminalCommand::CursorTo(Position::new(rnd.below(20), rnd.below(70)))).unwrap();
            }
            5 => term.flush().unwrap(),
            6 => term.frames_drop(),
            7 => {
                // concurrent wake calls
                let waker = term.waker();
                let k = 1 + rnd.below(3);
                let delay = rnd.below(4) as u64;
                pending_wakes = true;
                threads.push(std::thread::spawn(move || {
                    for i in 0..k {
                        std::thread::sleep(Duration::from_millis(delay * (i as u64 + 1)));
                        ev(r#"{"ev":"wake_start"}"#.to_string());
                        waker.wake().unwrap();
                        ev(r#"{"ev":"wake_end"}"#.to_string());
                    }
                }));
            }
            10 | 11 if scenario == "burst" => {
                // many wake requests between two polls: they may coalesce, at buffer-size multiples too
                let counts = [2usize, 63, 64, 65, 128, 192, 256, 1000, 1024, 1025];
                let k = counts[rnd.below(counts.len())];
                let waker = term.waker();
                for _ in 0..k {
                    ev(r#"{"ev":"wake_start"}"#.to_string());
                    waker.wake().unwrap();
                    ev(r#"{"ev":"wake_end"}"#.to_string());
                }
                pending_wakes = true;
                let (kind, _) = do_poll(&mut term, Some(Duration::from_millis(30)));
                if kind == "wake" {
                    pending_wakes = false;
                }
            }
            8 => {
                if scenario == "escsize" {
                    // the window alternates between three sizes, so that going back to an earlier one occurs
                    let sizes = [24 * 1000 + 80, 30 * 1000 + 100, 40 * 1000 + 120];
                    winch_no += 1;
                    reported.store(sizes[(winch_no + rnd.below(2)) % 3], Ordering::SeqCst);
                }
                ev(r#"{"ev":"sig_raise","sig":28}"#.to_string());
                unsafe { libc::raise(libc::SIGWINCH) };
                if scenario == "escsize" && rnd.chance(1, 2) {
                    // a poll without a timeout: the signal alone must bring it back (request, answer, Resize)
                    let (kind, _) = do_poll(&mut term, None);
                    if kind == "wake" {
                        pending_wakes = false;
                    }
                } else if rnd.chance(1, 2) {
                    // a wake in the same round as the signal
                    ev(r#"{"ev":"wake_start"}"#.to_string());
                    term.waker().wake().unwrap();
                    ev(r#"{"ev":"wake_end"}"#.to_string());
                }
            }
            9 => {
                // the peer types one or two keys
                for _ in 0..1 + rnd.below(2) {
                    let c = b'a' + rnd.below(26) as u8;
                    let mut w = master_w.lock().unwrap();
                    ev(format!(r#"{{"ev":"peer_send","kind":"key","id":{}}}"#, c));
                    w.write_all(&[c]).unwrap();
                }
            }
            _ => {
                let tmo = match rnd.below(5) {
                    0 => Some(Duration::from_millis(0)),
                    1 | 2 => Some(Duration::from_millis(1 + rnd.below(15) as u64)),
                    3 if pending_wakes => None,
                    _ => Some(Duration::from_millis(30)),
                };
                let (kind, _) = do_poll(&mut term, tmo);
                if kind == "wake" {
                    pending_wakes = false;
                }
            }
        }
    }
    if scenario == "hammer" {
        // four threads issue wake requests back to back while this thread polls: requests may coalesce, none may be lost
        let running = Arc::new(AtomicU64::new(4));
        for t in 0..4u64 {
            let waker = term.waker();
            let running = running.clone();
            let mut r = Rng::new(seed ^ (t + 1));
            threads.push(std::thread::spawn(move || {
                for _ in 0..150 {
                    ev(r#"{"ev":"wake_start"}"#.to_string());
                    waker.wake().unwrap();
                    ev(r#"{"ev":"wake_end"}"#.to_string());
                    if r.chance(1, 4) {
                        std::thread::sleep(Duration::from_micros(r.below(200) as u64));
                    }
                }
                running.fetch_sub(1, Ordering::SeqCst);
            }));
        }
        while running.load(Ordering::SeqCst) > 0 {
            do_poll(&mut term, Some(Duration::from_millis(20)));
        }
    }
    for t in threads {
        t.join().unwrap();
    }
    // poll until nothing is left (bounded): every request must have been served by now
    let mut idle = 0;
    let mut guard = 0;
    while idle < 2 && guard < 2000 {
        guard += 1;
        let (kind, _) = do_poll(&mut term, Some(Duration::from_millis(40)));
        if kind == "none" && term.frames_pending() == 0 {
            idle += 1;
        } else {
            idle = 0;
        }
    }
    assert!(guard < 2000, "session did not become quiet");
    ev(r#"{"ev":"quiet"}"#.to_string());
    match scenario {
        "quit" | "quit2" => {
            // half of the sessions have output queued when the signal arrives and poll with a zero timeout
            let busy = seed % 2 == 1;
            if busy {
                let v = 0x80 + (frame_no % 100) as u8;
                let n = [5usize, 3000, 200000][(seed / 2 % 3) as usize];
                ev(format!(r#"{{"ev":"app_write","v":{},"n":{}}}"#, v, n));
                term.write_all(&vec![v; n]).unwrap();
                term.flush().unwrap();
            }
            ev(r#"{"ev":"sig_raise","sig":15}"#.to_string());
            unsafe { libc::raise(libc::SIGTERM) };
            if busy {
                for _ in 0..3 {
                    let (kind, _) = do_poll(&mut term, Some(Duration::from_millis(0)));
                    if kind == "quit" {
                        break;
                    }
                }
            } else if seed / 8 % 2 == 1 {
                // the signal is met by a cursor-position query (its inner polls must let the quit error through)
                let r = term.position();
                let kind = match &r {
                    Err(surf_n_term::Error::Quit) => "quit",
                    Err(_) => "error",
                    Ok(_) => "other",
                };
                ev(format!(r#"{{"ev":"poll_ret","kind":"{}","id":0,"eof":false}}"#, kind));
            } else {
                do_poll(&mut term, Some(Duration::from_millis(200)));
            }
            if scenario == "quit2" {
                // a second termination signal arrives while the object is being released
                ev(r#"{"ev":"sig_raise","sig":15}"#.to_string());
                unsafe { libc::raise(libc::SIGTERM) };
            }
        }
        "pending" => {
            // released with output and frames still pending
            let v = 0x80 + (frame_no % 100) as u8;
            ev(format!(r#"{{"ev":"app_write","v":{},"n":{}}}"#, v, 30000));
            term.write_all(&vec![v; 30000]).unwrap();
            term.flush().unwrap();
            ev(format!(r#"{{"ev":"app_write","v":{},"n":{}}}"#, v + 1, 10));
            term.write_all(&vec![v + 1; 10]).unwrap();
        }
        _ => {}
    }
    if scenario == "unwind" {
        // the application fails between two polls: the object is released while the thread unwinds
        if seed % 2 == 1 {
            let v = 0x80 + (frame_no % 100) as u8;
            ev(format!(r#"{{"ev":"app_write","v":{},"n":{}}}"#, v, 700));
            term.write_all(&vec![v; 700]).unwrap();
            term.flush().unwrap();
        }
        ev(r#"{"ev":"note","what":"application panics, the terminal object is dropped by the unwinding"}"#.to_string());
        let r = std::panic::catch_unwind(std::panic::AssertUnwindSafe(move || {
            let _owned = term;
            panic!("application failure between polls");
        }));
        assert!(r.is_err());
    } else {
        drop(term);
    }
    let _ = std::fs::remove_file(&tee);
    let after = termios_of(keep.as_raw_fd());
    // let the peer drain what is left, then stop it
    std::thread::sleep(Duration::from_millis(30));
    stop.store(true, Ordering::SeqCst);
    peer.join().unwrap();
    ev(format!(r#"{{"ev":"post_drop","termios_equal":{}}}"#, after == saved));
    verif::install(None);
    drop(keep);
    drop(master);
    let mut evs = log.lock().unwrap().clone();
    evs.sort_by_key(|e| e.0);
    evs.iter().map(|(_, body)| serde_json::from_str::<Value>(body).unwrap()).collect()
}

/// c17-pty: stdin records {id, seed, scenario}; one output record per session
pub fn pty() {
    let mut out = Out::new();
    for v in stdin_records() {
        let id = v["id"].as_u64().unwrap();
        let seed = v["seed"].as_u64().unwrap();
        let scenario = v["scenario"].as_str().unwrap().to_string();
        match guarded(|| session(seed, &scenario)) {
            Ok(events) => out.rec(&json!({"id": id, "seed": seed, "scenario": scenario, "events": events, "panic": ""})),
            Err(m) => {
                verif::install(None);
                out.rec(&json!({"id": id, "seed": seed, "scenario": scenario, "events": [], "panic": m}))
            }
        }
    }
}
