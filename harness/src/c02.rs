//! C02: totality and well-formedness of the three decoders on hostile input.
//! One output line per input line (runs under `isolate`).
use crate::c03::{bytes_of, chunking};
use crate::util::*;
use serde_json::{json, Value};
use std::io::Cursor;
use surf_n_term::decoder::{Decoder, TTYCommandDecoder, TTYEventDecoder, Utf8Decoder};
use surf_n_term::{Color, KeyName, TerminalColor, TerminalCommand, TerminalEvent};

fn digits<T: ToString>(v: T) -> Value {
    Value::Array(v.to_string().bytes().map(|b| json!(b - b'0')).collect())
}

fn cmd_proj(c: &TerminalCommand) -> Value {
    match c {
        TerminalCommand::Raw(b) => json!({"k": "raw", "d": "", "b": b, "f": "", "n": []}),
        TerminalCommand::FaceModify(m) => {
            let n: Vec<Value> = match m.fg {
                Some(c) => c.to_rgba().iter().take(3).map(|x| digits(*x)).collect(),
                None => vec![],
            };
            json!({"k": "ev", "d": format!("{:?}", c), "b": [], "f": "sgr", "n": n})
        }
        TerminalCommand::Char(ch) => json!({"k": "ev", "d": format!("{:?}", c), "b": [], "f": "char", "n": [digits(*ch as u32)]}),
        other => json!({"k": "ev", "d": format!("{:?}", other), "b": [], "f": "", "n": []}),
    }
}

fn mod_bits(m: surf_n_term::KeyMod) -> u32 {
    use surf_n_term::KeyMod as M;
    [M::SHIFT, M::ALT, M::CTRL, M::SUPER, M::HYPER, M::META, M::CAPSLOCK, M::NUMLOCK, M::PRESS].iter().enumerate().map(|(i, b)| if m.contains(*b) { 1u32 << i } else { 0 }).sum()
}

fn ev_proj(e: &TerminalEvent) -> Value {
    let (f, n): (&str, Vec<Value>) = match e {
        TerminalEvent::Raw(b) => return json!({"k": "raw", "d": "", "b": b, "f": "", "n": []}),
        TerminalEvent::CursorPosition(p) => ("cpr", vec![digits(p.row), digits(p.col)]),
        TerminalEvent::Mouse(m) => ("mouse", vec![digits(m.pos.col), digits(m.pos.row)]),
        TerminalEvent::KittyImage { id, placement, .. } => ("kittyimg", vec![digits(*id), placement.map(digits).unwrap_or(json!([]))]),
        TerminalEvent::KeyboardLevel(n) => ("kbdlevel", vec![digits(*n)]),
        TerminalEvent::Size(s) | TerminalEvent::Resize(s) => ("size", vec![digits(s.cells.height), digits(s.cells.width), digits(s.pixels.height), digits(s.pixels.width)]),
        TerminalEvent::DeviceAttrs(set) => ("da1", set.iter().map(|x| digits(*x)).collect()),
        TerminalEvent::Color { name: TerminalColor::Palette(n), .. } => ("osc4", vec![digits(*n)]),
        TerminalEvent::Key(k) => match k.name {
            // key code and the modifier set (as the union of the bits it contains)
            KeyName::Char(c) => ("key", vec![digits(c as u32), digits(mod_bits(k.mode))]),
            KeyName::F(n) => ("fkey", vec![digits(n)]),
            _ => ("", vec![]),
        },
        TerminalEvent::Command(c) => return cmd_proj(c),
        _ => ("", vec![]),
    };
    json!({"k": "ev", "d": format!("{:?}", e), "b": [], "f": f, "n": n})
}

fn run_dec(dec: &str, input: &[u8], sizes: &[usize], into: bool) -> Value {
    let mut off = 0;
    let mut got: Vec<Value> = Vec::new();
    let tail;
    let mut calls = 0usize;
    if dec == "event" {
        let mut d = TTYEventDecoder::new();
        for s in sizes {
            let mut cur = Cursor::new(&input[off..off + s]);
            if into {
                // the bulk entry point: everything the read yields, in one call
                let mut items = Vec::new();
                d.decode_into(&mut cur, &mut items).unwrap();
                got.extend(items.iter().map(ev_proj));
            } else {
                while let Some(e) = d.decode(&mut cur).unwrap() {
                    got.push(ev_proj(&e));
                    calls += 1;
                    assert!(calls < 100_000, "decoder does not terminate");
                }
            }
            off += s;
        }
        // once the input is exhausted nothing more may be available, through either entry point
        let mut more = Vec::new();
        while let Some(e) = d.decode(&mut Cursor::new(&[][..])).unwrap() {
            more.push(ev_proj(&e));
            assert!(more.len() < 100_000, "decoder does not terminate");
        }
        d.decode_into(&[][..], &mut Vec::new()).unwrap();
        tail = more.len();
    } else {
        let mut d = TTYCommandDecoder::new();
        for s in sizes {
            let mut cur = Cursor::new(&input[off..off + s]);
            if into {
                // the bulk entry point: everything the read yields, in one call
                let mut items = Vec::new();
                d.decode_into(&mut cur, &mut items).unwrap();
                got.extend(items.iter().map(cmd_proj));
            } else {
                while let Some(e) = d.decode(&mut cur).unwrap() {
                    got.push(cmd_proj(&e));
                    calls += 1;
                    assert!(calls < 100_000, "decoder does not terminate");
                }
            }
            off += s;
        }
        // once the input is exhausted nothing more may be available, through either entry point
        let mut more = Vec::new();
        while let Some(e) = d.decode(&mut Cursor::new(&[][..])).unwrap() {
            more.push(cmd_proj(&e));
            assert!(more.len() < 100_000, "decoder does not terminate");
        }
        d.decode_into(&[][..], &mut Vec::new()).unwrap();
        tail = more.len();
    }
    json!({"dec": dec, "chunks": sizes, "ev": got, "tail": tail, "into": into})
}

fn run_utf8(input: &[u8], sizes: &[usize]) -> Value {
    let mut d = Utf8Decoder::new();
    let mut chars: Vec<u32> = Vec::new();
    let mut errs = 0usize;
    let mut off = 0;
    let mut calls = 0usize;
    for s in sizes {
        let mut cur = Cursor::new(&input[off..off + s]);
        loop {
            calls += 1;
            assert!(calls < 100_000, "decoder does not terminate");
            match d.decode(&mut cur) {
                Ok(Some(c)) => chars.push(c as u32),
                Ok(None) => break,
                Err(_) => errs += 1,
            }
        }
        // all bytes of the read must have been consumed
        assert!(cur.position() as usize == *s, "utf8 decoder left bytes of the read unconsumed");
        off += s;
    }
    let more = matches!(d.decode(&mut Cursor::new(&[][..])), Ok(None));
    json!({"chunks": sizes, "chars": chars, "errs": errs, "tail": if more { 0 } else { 1 }})
}

pub fn run(args: &[String]) {
    let seed = arg_u64(args, "--seed", 1);
    let mut out = Out::new();
    for v in stdin_records() {
        let id = v["id"].as_u64().unwrap();
        let input = bytes_of(&v["input"]);
        let mut rnd = Rng::new(seed ^ id.wrapping_mul(0x2545F491));
        let res = guarded(|| {
            let mut runs = Vec::new();
            let mut utf8 = Vec::new();
            for name in ["whole", "bytes", "random"] {
                let sizes = chunking(name, input.len(), &mut rnd);
                runs.push(run_dec("event", &input, &sizes, false));
                runs.push(run_dec("command", &input, &sizes, false));
                if name != "bytes" {
                    runs.push(run_dec("event", &input, &sizes, true));
                    runs.push(run_dec("command", &input, &sizes, true));
                }
                utf8.push(run_utf8(&input, &sizes));
            }
            (runs, utf8)
        });
        let fam = v.get("fam").cloned().unwrap_or(json!(""));
        let params = v.get("params").cloned().unwrap_or(json!([]));
        match res {
            Ok((runs, utf8)) => out.rec(&json!({"id": id, "fam": fam, "params": params, "input": input, "outcome": "ok", "msg": "", "runs": runs, "utf8": utf8})),
            Err(m) => out.rec(&json!({"id": id, "fam": fam, "params": params, "input": input, "outcome": "panic", "msg": m, "runs": [], "utf8": []})),
        }
    }
}
