//! C06: the library reads back its own SGR output; SGR semantics of the
//! escape-sequence cell writer.
use crate::c03::chunking;
use crate::c05::{all_attrs, col, face_desc, modify_desc, ul, ULS};
use crate::util::*;
use serde_json::{json, Value};
use std::io::Write;
use surf_n_term::decoder::{Decoder, TTYCommandDecoder};
use surf_n_term::encoder::{ColorDepth, Encoder, TTYEncoder};
use surf_n_term::render::CellKind;
use surf_n_term::*;

fn face_json(f: &Face) -> Value {
    let a = f.attrs;
    json!({"fg": col(f.fg), "bg": col(f.bg), "ul": ul(a.underline()), "bold": a.contains(FaceAttrs::BOLD) as i32, "italic": a.contains(FaceAttrs::ITALIC) as i32,
           "blink": a.contains(FaceAttrs::BLINK) as i32, "strike": a.contains(FaceAttrs::STRIKE) as i32})
}

fn encode_tc(cmd: TerminalCommand) -> Vec<u8> {
    let mut e = TTYEncoder::new(TerminalCaps { depth: ColorDepth::TrueColor, ..TerminalCaps::default() });
    let mut out = Vec::new();
    e.encode(&mut out, cmd).unwrap();
    out
}
fn decode_all(bytes: &[u8]) -> Vec<TerminalCommand> {
    let mut d = TTYCommandDecoder::new();
    let mut out = Vec::new();
    d.decode_into(bytes, &mut out).unwrap();
    // an SGR sequence is terminal in the automaton; nothing may be left pending
    out
}

struct RecW {
    face: Face,
    wraps: bool,
    cells: Vec<Cell>,
}
impl CellWrite for RecW {
    fn face(&self) -> Face {
        self.face
    }
    fn set_face(&mut self, face: Face) -> Face {
        std::mem::replace(&mut self.face, face)
    }
    fn wraps(&self) -> bool {
        self.wraps
    }
    fn set_wraps(&mut self, wraps: bool) -> bool {
        std::mem::replace(&mut self.wraps, wraps)
    }
    fn put_cell(&mut self, cell: Cell) -> bool {
        self.cells.push(cell);
        true
    }
}

fn busy_face() -> Face {
    Face::new(Some(RGBA::new(9, 8, 7, 255)), Some(RGBA::new(1, 1, 1, 255)), FaceAttrs::UNDERLINE_CURLY | FaceAttrs::BOLD | FaceAttrs::ITALIC | FaceAttrs::BLINK | FaceAttrs::STRIKE)
}

/// one SGR sequence from the expressible parameter table
fn sgr_seq(rnd: &mut Rng, with_default_colours: bool) -> (String, bool) {
    let n = 1 + rnd.below(6);
    let mut parts: Vec<String> = Vec::new();
    let mut used_default = false;
    for _ in 0..n {
        let p = match rnd.below(26) {
            0 => "0".to_string(),
            1 => "".to_string(),
            2 => "1".to_string(),
            3 => "22".to_string(),
            4 => "3".to_string(),
            5 => "23".to_string(),
            6 => "4".to_string(),
            7 => format!("4:{}", rnd.below(6)),
            8 => "24".to_string(),
            9 => "5".to_string(),
            10 => "25".to_string(),
            11 => "9".to_string(),
            12 => "29".to_string(),
            13 => format!("{}", 30 + rnd.below(8)),
            14 => format!("{}", 90 + rnd.below(8)),
            15 => format!("{}", 40 + rnd.below(8)),
            16 => format!("{}", 100 + rnd.below(8)),
            17 => format!("38;5;{}", rnd.below(256)),
            18 => format!("48;5;{}", rnd.below(256)),
            19 => format!("38;2;{};{};{}", rnd.below(256), rnd.below(256), rnd.below(256)),
            20 => format!("48;2;{};{};{}", rnd.below(256), rnd.below(256), rnd.below(256)),
            21 => format!("38:2::{}:{}:{}", rnd.below(256), rnd.below(256), rnd.below(256)),
            22 => format!("48:2:{}:{}:{}", rnd.below(256), rnd.below(256), rnd.below(256)),
            23 => format!("38:5:{}", rnd.below(256)),
            24 if with_default_colours => {
                used_default = true;
                ["39", "49"][rnd.below(2)].to_string()
            }
            _ => "1".to_string(),
        };
        parts.push(p);
    }
    (format!("\x1b[{}m", parts.join(";")), used_default)
}

/// c06-drive --seed S --n N
pub fn drive(args: &[String]) {
    let seed = arg_u64(args, "--seed", 1);
    let n = arg_u64(args, "--n", 400) as usize;
    let nmods = arg_u64(args, "--mods", 1500) as usize;
    let mut rnd = Rng::new(seed ^ 0xc06);
    let mut out = Out::new();
    let mut id = 0u64;
    let plain = Face::default();
    let busy = busy_face();
    // ---- (a) FaceModify round trip: every field combination (sampled), opaque colours
    let colors = [None, Some(RGBA::new(1, 2, 3, 255)), Some(RGBA::new(105, 200, 7, 255)), Some(RGBA::new(255, 255, 255, 255)), Some(RGBA::new(0, 0, 0, 255)), Some(RGBA::new(209, 100, 109, 255))];
    let tri = [None, Some(true), Some(false)];
    let uls: Vec<Option<UnderlineStyle>> = std::iter::once(None).chain(ULS.iter().map(|u| Some(*u))).collect();
    let mut all = Vec::new();
    for reset in [false, true] {
        for u in &uls {
            for b in tri {
                for it in tri {
                    for bl in tri {
                        for s in tri {
                            all.push(FaceModify { reset, fg: *rnd.pick(&colors), bg: *rnd.pick(&colors), underline: *u, underline_color: *rnd.pick(&colors), bold: b, italic: it, blink: bl, strike: s });
                        }
                    }
                }
            }
        }
    }
    // colour components over the whole byte range (decimal formatting of every value)
    for v in 0..=255u8 {
        all.push(FaceModify { fg: Some(RGBA::new(v, 255 - v, v / 2, 255)), bg: Some(RGBA::new(255 - v, v, v, 255)), underline_color: Some(RGBA::new(v, v, 255 - v, 255)), ..FaceModify::default() });
    }
    let step = (all.len() / nmods).max(1);
    let offset = rnd.below(step);
    for (i, m) in all.iter().enumerate() {
        if i % step != offset && i < 1134 {
            continue;
        }
        let res = guarded(|| {
            let bytes = encode_tc(TerminalCommand::FaceModify(*m));
            let decoded: Vec<Value> = decode_all(&bytes)
                .iter()
                .map(|c| match c {
                    TerminalCommand::FaceModify(d) => modify_desc(d),
                    other => json!({"other": format!("{:?}", other)}),
                })
                .collect();
            // an empty modification is written as nothing and reads back as nothing
            let decoded = if bytes.is_empty() { vec![modify_desc(&FaceModify::default())] } else { decoded };
            (bytes, decoded, vec![face_json(&m.apply(plain)), face_json(&m.apply(busy))])
        });
        match res {
            Ok((bytes, decoded, applied)) => out.rec(&json!({"id": id, "t": "modify", "m": modify_desc(m), "bytes": bytes, "decoded": decoded, "applied": applied, "panic": ""})),
            Err(e) => out.rec(&json!({"id": id, "t": "modify", "m": modify_desc(m), "bytes": [], "decoded": [], "applied": [], "panic": e})),
        }
        id += 1;
    }
    // ---- (a) Face round trip: every attribute set x underline style, opaque colours
    for (i, a) in all_attrs().iter().enumerate() {
        let f = Face::new(colors[i % colors.len()], colors[(i / 7) % colors.len()], *a);
        let res = guarded(|| {
            let bytes = encode_tc(TerminalCommand::Face(f));
            let cmds = decode_all(&bytes);
            let decoded: Vec<Value> = cmds
                .iter()
                .map(|c| match c {
                    TerminalCommand::FaceModify(d) => modify_desc(d),
                    other => json!({"other": format!("{:?}", other)}),
                })
                .collect();
            let applied: Vec<Value> = match cmds.first() {
                Some(TerminalCommand::FaceModify(d)) => vec![face_json(&d.apply(plain)), face_json(&d.apply(busy))],
                _ => vec![],
            };
            (bytes, decoded, applied)
        });
        // reverse cannot be expressed by a modification record: expected face is f without it
        let fexp = Face::new(f.fg, f.bg, f.attrs.remove(FaceAttrs::REVERSE));
        let mut fj = face_json(&fexp);
        fj["cmd"] = face_desc(&f)["cmd"].clone();
        match res {
            Ok((bytes, decoded, applied)) => out.rec(&json!({"id": id, "t": "face", "f": fj, "bytes": bytes, "decoded": decoded, "applied": applied, "panic": ""})),
            Err(e) => out.rec(&json!({"id": id, "t": "face", "f": fj, "bytes": [], "decoded": [], "applied": [], "panic": e})),
        }
        id += 1;
    }
    // ---- (a) face changes after a history on ONE encoder: what is written for the last command alone must read back as it
    //      (face, modification touching one field, the same face again - and face, other face, first face)
    let attrs = all_attrs();
    for i in 0..120usize {
        let f = Face::new(colors[1 + i % 5], colors[(i / 5) % colors.len()], attrs[(i * 7) % attrs.len()]);
        let g = Face::new(colors[(i / 3) % colors.len()], colors[1 + (i / 2) % 5], attrs[(i * 11 + 3) % attrs.len()]);
        let between: TerminalCommand = match i % 6 {
            0 => TerminalCommand::FaceModify(FaceModify { underline_color: Some(RGBA::new(200, 100, 50, 255)), ..FaceModify::default() }),
            1 => TerminalCommand::FaceModify(FaceModify { bold: Some(true), ..FaceModify::default() }),
            2 => TerminalCommand::FaceModify(FaceModify { underline: Some(UnderlineStyle::Curly), ..FaceModify::default() }),
            3 => TerminalCommand::FaceModify(FaceModify { fg: Some(RGBA::new(1, 2, 3, 255)), ..FaceModify::default() }),
            4 => TerminalCommand::Face(g),
            _ => TerminalCommand::Char('x'),
        };
        let res = guarded(|| {
            let mut e = TTYEncoder::new(TerminalCaps { depth: ColorDepth::TrueColor, ..TerminalCaps::default() });
            let mut outb = Vec::new();
            e.encode(&mut outb, TerminalCommand::Face(f)).unwrap();
            e.encode(&mut outb, between.clone()).unwrap();
            let before = outb.len();
            e.encode(&mut outb, TerminalCommand::Face(f)).unwrap();
            let bytes = outb[before..].to_vec();
            let cmds = decode_all(&bytes);
            let decoded: Vec<Value> = cmds
                .iter()
                .map(|c| match c {
                    TerminalCommand::FaceModify(d) => modify_desc(d),
                    other => json!({"other": format!("{:?}", other)}),
                })
                .collect();
            let applied: Vec<Value> = match cmds.first() {
                Some(TerminalCommand::FaceModify(d)) => vec![face_json(&d.apply(plain)), face_json(&d.apply(busy))],
                _ => vec![],
            };
            (bytes, decoded, applied)
        });
        let fexp = Face::new(f.fg, f.bg, f.attrs.remove(FaceAttrs::REVERSE));
        let mut fj = face_json(&fexp);
        fj["cmd"] = face_desc(&f)["cmd"].clone();
        match res {
            Ok((bytes, decoded, applied)) => out.rec(&json!({"id": id, "t": "face", "f": fj, "bytes": bytes, "decoded": decoded, "applied": applied, "history": true, "panic": ""})),
            Err(e) => out.rec(&json!({"id": id, "t": "face", "f": fj, "bytes": [], "decoded": [], "applied": [], "history": true, "panic": e})),
        }
        id += 1;
    }
    // ---- (a) text: every character except ESC reads back as itself
    let mut chars: Vec<char> = (0u32..128).filter(|c| *c != 27).filter_map(char::from_u32).collect();
    chars.extend(['é', 'ß', '€', '日', '🤩', '\u{80}', '\u{7ff}', '\u{800}', '\u{d7ff}', '\u{e000}', '\u{ffff}', '\u{10000}', '\u{10ffff}']);
    for _ in 0..200 {
        chars.push(char::from_u32(rnd.below(0x110000) as u32).filter(|c| *c != '\x1b').unwrap_or('x'));
    }
    for chunk in chars.chunks(16) {
        let res = guarded(|| {
            let mut bytes = Vec::new();
            for c in chunk {
                bytes.extend(encode_tc(TerminalCommand::Char(*c)));
            }
            let back: Vec<u32> = decode_all(&bytes).iter().map(|c| match c { TerminalCommand::Char(ch) => *ch as u32, _ => 0xFFFFFFF }).collect();
            back
        });
        let cps: Vec<u32> = chunk.iter().map(|c| *c as u32).collect();
        match res {
            Ok(back) => out.rec(&json!({"id": id, "t": "text", "chars": cps, "decodedchars": back, "panic": ""})),
            Err(e) => out.rec(&json!({"id": id, "t": "text", "chars": cps, "decodedchars": [], "panic": e})),
        }
        id += 1;
    }
    // ---- (b) writer: SGR histories interleaved with text, several chunkings
    // named colours 30..37 / 90..97 as the library maps them (its own fixed table)
    let named: Vec<Value> = (0..16)
        .map(|i| {
            let code = if i < 8 { 30 + i } else { 90 + i - 8 };
            match decode_all(format!("\x1b[{}m", code).as_bytes()).first() {
                Some(TerminalCommand::FaceModify(m)) => match m.fg {
                    Some(c) => {
                        let [r, g, b, _] = c.to_rgba();
                        json!([r, g, b])
                    }
                    None => json!([0, 0, 0]),
                },
                _ => json!([0, 0, 0]),
            }
        })
        .collect();
    let texts = ["a", "xy", "é", "日本", "🤩", " ", "\t", "Z9", "~"];
    for h in 0..n {
        let with_default = h % 10 == 9;
        let mut bytes: Vec<u8> = Vec::new();
        let mut used_default = false;
        for _ in 0..1 + rnd.below(8) {
            if rnd.chance(2, 3) {
                let (s, d) = sgr_seq(&mut rnd, with_default);
                used_default |= d;
                bytes.extend(s.as_bytes());
            }
            let t: &&str = rnd.pick(&texts[..]);
            bytes.extend(t.as_bytes());
        }
        let res = guarded(|| {
            let mut runs = Vec::new();
            for name in ["whole", "bytes", "three", "random"] {
                let sizes = chunking(name, bytes.len(), &mut rnd);
                let mut w = RecW { face: Face::default(), wraps: false, cells: vec![] }.tty_writer();
                let mut off = 0;
                for s in &sizes {
                    let wrote = w.write(&bytes[off..off + s]).unwrap();
                    assert!(wrote == *s, "tty_writer accepted fewer bytes than offered");
                    off += s;
                }
                let cells: Vec<Value> = w
                    .parent()
                    .cells
                    .iter()
                    .map(|c| {
                        let cp = match c.kind() {
                            CellKind::Char(ch) => *ch as u32,
                            _ => 0xFFFFFFF,
                        };
                        let f = c.face();
                        let a = f.attrs;
                        json!({"cp": cp, "fg": col(f.fg), "bg": col(f.bg), "ul": ul(a.underline()), "bold": a.contains(FaceAttrs::BOLD), "italic": a.contains(FaceAttrs::ITALIC),
                               "blink": a.contains(FaceAttrs::BLINK), "strike": a.contains(FaceAttrs::STRIKE)})
                    })
                    .collect();
                runs.push(json!({"chunks": sizes, "cells": cells}));
            }
            runs
        });
        match res {
            Ok(runs) => out.rec(&json!({"id": id, "t": "writer", "bytes": bytes, "named": named, "runs": runs, "default_colours": used_default, "panic": ""})),
            Err(e) => out.rec(&json!({"id": id, "t": "writer", "bytes": bytes, "named": named, "runs": [], "default_colours": used_default, "panic": e})),
        }
        id += 1;
    }
}
