//! C04: protocol vectors (TtyProtocol.tla) through TTYEventDecoder, events
//! projected onto the abstract event records of the specification.
use crate::c03::bytes_of;
use crate::c05::{tri, ul};
use crate::util::*;
use serde_json::{json, Value};
use surf_n_term::decoder::{Decoder, TTYEventDecoder};
use surf_n_term::*;

fn bits(m: KeyMod) -> u32 {
    let mut b = 0;
    for (flag, v) in [(KeyMod::SHIFT, 1), (KeyMod::ALT, 2), (KeyMod::CTRL, 4), (KeyMod::SUPER, 8), (KeyMod::HYPER, 16), (KeyMod::META, 32), (KeyMod::CAPSLOCK, 64), (KeyMod::NUMLOCK, 128), (KeyMod::PRESS, 256)] {
        if m.contains(flag) {
            b |= v;
        }
    }
    b
}
fn rgb(c: Option<RGBA>) -> Vec<i64> {
    match c {
        None => vec![-1, -1, -1],
        Some(c) => {
            let [r, g, b, _] = c.to_rgba();
            vec![r as i64, g as i64, b as i64]
        }
    }
}
fn ev(k: &str, s: &str, m: u32, n: Vec<i64>, t: Vec<u8>) -> Value {
    json!({"k": k, "s": s, "m": m, "n": n, "t": t})
}

pub fn project(e: &TerminalEvent) -> Value {
    match e {
        TerminalEvent::Key(k) => match k.name {
            KeyName::Char(c) => ev("key", "char", bits(k.mode), vec![c as i64], vec![]),
            name => ev("key", &format!("{:?}", name), bits(k.mode), vec![], vec![]),
        },
        TerminalEvent::Mouse(m) => ev("mouse", &format!("{:?}", m.name), bits(m.mode), vec![m.pos.row as i64, m.pos.col as i64], vec![]),
        TerminalEvent::CursorPosition(p) => ev("cpr", "", 0, vec![p.row as i64, p.col as i64], vec![]),
        TerminalEvent::Size(s) => ev("size", "", 0, vec![s.cells.height as i64, s.cells.width as i64, s.pixels.height as i64, s.pixels.width as i64], vec![]),
        TerminalEvent::DecMode { mode, status } => ev("decmode", "", 0, vec![*mode as usize as i64, *status as usize as i64], vec![]),
        TerminalEvent::DeviceAttrs(set) => ev("da1", "", 0, set.iter().map(|x| *x as i64).collect(), vec![]),
        TerminalEvent::Color { name, color } => {
            let (s, mut n) = match name {
                TerminalColor::Foreground => ("fg", vec![]),
                TerminalColor::Background => ("bg", vec![]),
                TerminalColor::Palette(i) => ("pal", vec![*i as i64]),
            };
            n.extend(rgb(Some(*color)));
            ev("color", s, 0, n, vec![])
        }
        TerminalEvent::Termcap(map) => match map.iter().next() {
            Some((k, Some(v))) if map.len() == 1 => ev("termcap", "ok", 0, vec![], [k.as_bytes(), b"=", v.as_bytes()].concat()),
            Some((k, None)) if map.len() == 1 => ev("termcap", "fail", 0, vec![], k.as_bytes().to_vec()),
            _ => ev("termcap", "multi", 0, vec![map.len() as i64], vec![]),
        },
        TerminalEvent::KittyImage { id, placement, error } => ev("kittyimg", if error.is_some() { "error" } else { "ok" }, 0,
            vec![*id as i64, placement.map(|p| p as i64).unwrap_or(-1)], error.clone().unwrap_or_default().into_bytes()),
        TerminalEvent::KeyboardLevel(n) => ev("kbdlevel", "", 0, vec![*n as i64], vec![]),
        TerminalEvent::Paste(t) => ev("paste", "", 0, vec![], t.as_bytes().to_vec()),
        TerminalEvent::Command(TerminalCommand::FaceModify(m)) => {
            let mut n = vec![m.reset as i64];
            n.extend(rgb(m.fg));
            n.extend(rgb(m.bg));
            n.push(tri(m.bold) as i64);
            n.push(tri(m.italic) as i64);
            n.push(m.underline.map(|u| ul(u) as i64).unwrap_or(-1));
            ev("sgr", "", 0, n, vec![])
        }
        TerminalEvent::FaceGet(f) => {
            let mut n = rgb(f.fg);
            n.extend(rgb(f.bg));
            n.push(f.attrs.contains(FaceAttrs::BOLD) as i64);
            n.push(f.attrs.contains(FaceAttrs::ITALIC) as i64);
            n.push(ul(f.attrs.underline()) as i64);
            ev("faceget", "", 0, n, vec![])
        }
        TerminalEvent::Raw(b) => ev("raw", "", 0, vec![], b.clone()),
        other => ev("other", &format!("{:?}", other), 0, vec![], vec![]),
    }
}

fn decode(input: &[u8], step: usize) -> Vec<Value> {
    let mut d = TTYEventDecoder::new();
    let mut evs = Vec::new();
    for ch in input.chunks(step.max(1)) {
        d.decode_into(ch, &mut evs).unwrap();
    }
    evs.iter().map(project).collect()
}

pub fn replay() {
    let mut out = Out::new();
    for (id, v) in stdin_records().enumerate() {
        let input = bytes_of(&v["input"]);
        let res = guarded(|| (decode(&input, input.len().max(1)), decode(&input, 1), decode(&input, 3)));
        match res {
            Ok((whole, bytewise, three)) => out.rec(&json!({"id": id, "input": input, "exp": v["exp"], "whole": whole, "bytewise": bytewise, "three": three, "panic": ""})),
            Err(m) => out.rec(&json!({"id": id, "input": input, "exp": v["exp"], "whole": [], "bytewise": [], "three": [], "panic": m})),
        }
    }
}
