//! C05: every terminal command through TTYEncoder under every colour depth and
//! keyboard capability; descriptors + emitted bytes for the EncoderJudge.
use crate::util::*;
use serde_json::{json, Value};
use surf_n_term::encoder::{ColorDepth, Encoder, TTYEncoder};
use surf_n_term::*;

fn digits(n: u128) -> Vec<u8> {
    n.to_string().bytes().collect()
}
pub fn col(c: Option<RGBA>) -> Value {
    match c {
        None => json!({"k": 0, "a": 0, "b": 0, "c": 0}),
        Some(c) => {
            let [r, g, b, _] = c.to_rgba();
            json!({"k": 2, "a": r, "b": g, "c": b})
        }
    }
}
pub fn tri(v: Option<bool>) -> i32 {
    match v {
        None => 0,
        Some(true) => 1,
        Some(false) => 2,
    }
}
pub fn ul(u: UnderlineStyle) -> i32 {
    match u {
        UnderlineStyle::None => 0,
        UnderlineStyle::Straight => 1,
        UnderlineStyle::Double => 2,
        UnderlineStyle::Curly => 3,
        UnderlineStyle::Dotted => 4,
        UnderlineStyle::Dashed => 5,
    }
}
pub const ULS: [UnderlineStyle; 6] = [UnderlineStyle::None, UnderlineStyle::Straight, UnderlineStyle::Double, UnderlineStyle::Curly, UnderlineStyle::Dotted, UnderlineStyle::Dashed];
pub fn ul_attr(u: UnderlineStyle) -> FaceAttrs {
    u.into()
}

fn base(name: &str) -> Value {
    let z = json!({"k": 0, "a": 0, "b": 0, "c": 0});
    json!({"cmd": name, "x": [48], "y": [48], "neg": false, "fg": z, "bg": z, "ulc": z, "ul": 0, "bold": 0, "italic": 0, "blink": 0, "reverse": 0,
           "strike": 0, "reset": false, "en": false, "txt": [], "names": [], "parts": [], "fresh": []})
}

pub fn face_desc(f: &Face) -> Value {
    let a = f.attrs;
    let mut d = base("Face");
    d["fg"] = col(f.fg);
    d["bg"] = col(f.bg);
    d["ul"] = json!(ul(a.underline()));
    d["bold"] = json!(a.contains(FaceAttrs::BOLD) as i32);
    d["italic"] = json!(a.contains(FaceAttrs::ITALIC) as i32);
    d["blink"] = json!(a.contains(FaceAttrs::BLINK) as i32);
    d["reverse"] = json!(a.contains(FaceAttrs::REVERSE) as i32);
    d["strike"] = json!(a.contains(FaceAttrs::STRIKE) as i32);
    d
}
pub fn modify_desc(m: &FaceModify) -> Value {
    let mut d = base("FaceModify");
    d["reset"] = json!(m.reset);
    d["fg"] = col(m.fg);
    d["bg"] = col(m.bg);
    d["ulc"] = col(m.underline_color);
    d["ul"] = json!(match m.underline {
        None => -1,
        Some(x) => ul(x),
    });
    d["bold"] = json!(tri(m.bold));
    d["italic"] = json!(tri(m.italic));
    d["blink"] = json!(tri(m.blink));
    d["strike"] = json!(tri(m.strike));
    d
}

pub fn all_attrs() -> Vec<FaceAttrs> {
    let flags = [FaceAttrs::BOLD, FaceAttrs::ITALIC, FaceAttrs::BLINK, FaceAttrs::REVERSE, FaceAttrs::STRIKE];
    let mut out = Vec::new();
    for mask in 0..32u32 {
        for u in ULS {
            let mut a = ul_attr(u);
            for (i, f) in flags.iter().enumerate() {
                if mask & (1 << i) != 0 {
                    a = a | *f;
                }
            }
            out.push(a);
        }
    }
    out
}

fn commands(rnd: &mut Rng, thorough: bool) -> Vec<(Value, TerminalCommand)> {
    let mut cmds: Vec<(Value, TerminalCommand)> = Vec::new();
    let colors = [None, Some(RGBA::new(1, 2, 3, 255)), Some(RGBA::new(255, 128, 0, 255)), Some(RGBA::new(40, 40, 40, 255)), Some(RGBA::new(105, 200, 7, 255)), Some(RGBA::new(0, 0, 0, 255)), Some(RGBA::new(255, 255, 255, 255)),
                  Some(RGBA::new(200, 100, 50, 0)), Some(RGBA::new(10, 20, 30, 128))];
    let us = [0usize, 1, 2, 9, 10, 99, 100, 255, 256, 65534, 65535, 65536, 4294967295, 4294967296, usize::MAX - 1];
    for r in us {
        for c in [0usize, 1, 79, 65535, usize::MAX - 1] {
            let mut d = base("CursorTo");
            d["x"] = json!(digits(r as u128));
            d["y"] = json!(digits(c as u128));
            cmds.push((d, TerminalCommand::CursorTo(Position::new(r, c))));
        }
    }
    let is = [0i32, 1, -1, 2, -2, 9, -10, 255, -256, 65536, i32::MAX, i32::MAX - 1, i32::MIN + 1, i32::MIN];
    for r in is {
        for c in is {
            let mut d = base("CursorMove");
            d["x"] = json!(digits(r.unsigned_abs() as u128));
            d["y"] = json!(digits(c.unsigned_abs() as u128));
            d["neg"] = json!(r < 0);
            d["en"] = json!(c < 0);
            cmds.push((d, TerminalCommand::CursorMove { row: r, col: c }));
        }
    }
    for n in us {
        let mut d = base("EraseChars");
        d["x"] = json!(digits(n as u128));
        cmds.push((d, TerminalCommand::EraseChars(n)));
    }
    for n in is {
        let mut d = base("Scroll");
        d["x"] = json!(digits(n.unsigned_abs() as u128));
        d["neg"] = json!(n < 0);
        cmds.push((d, TerminalCommand::Scroll(n)));
    }
    for (s, e) in [(0usize, 0usize), (0, 1), (1, 0), (3, 24), (24, 3), (0, 65535), (65535, 65536), (5, 5), (usize::MAX - 2, usize::MAX - 1)] {
        let mut d = base("ScrollRegion");
        d["x"] = json!(digits(s as u128));
        d["y"] = json!(digits(e as u128));
        d["en"] = json!(e > s);
        cmds.push((d, TerminalCommand::ScrollRegion { start: s, end: e }));
    }
    let modes = [(DecMode::VisibleCursor, 25u128), (DecMode::AutoWrap, 7), (DecMode::SixelScrolling, 80), (DecMode::MouseReport, 1000), (DecMode::MouseMotions, 1003),
                 (DecMode::MouseSGR, 1006), (DecMode::AltScreen, 1049), (DecMode::BracketedPaste, 2004), (DecMode::SynchronizedOutput, 2026)];
    for (m, code) in modes {
        for en in [true, false] {
            let mut d = base("DecModeSet");
            d["x"] = json!(digits(code));
            d["en"] = json!(en);
            cmds.push((d, TerminalCommand::DecModeSet { enable: en, mode: m }));
        }
        let mut d = base("DecModeGet");
        d["x"] = json!(digits(code));
        cmds.push((d, TerminalCommand::DecModeGet(m)));
    }
    for (name, c) in [("CursorGet", TerminalCommand::CursorGet), ("CursorSave", TerminalCommand::CursorSave), ("CursorRestore", TerminalCommand::CursorRestore),
                      ("EraseLineRight", TerminalCommand::EraseLineRight), ("EraseLineLeft", TerminalCommand::EraseLineLeft), ("EraseLine", TerminalCommand::EraseLine),
                      ("EraseScreen", TerminalCommand::EraseScreen), ("Reset", TerminalCommand::Reset), ("DeviceAttrs", TerminalCommand::DeviceAttrs), ("FaceGet", TerminalCommand::FaceGet)] {
        cmds.push((base(name), c));
    }
    for lvl in [0usize, 1, 5, 31, 255] {
        let mut d = base("KeyboardLevel");
        d["x"] = json!(digits(lvl as u128));
        cmds.push((d, TerminalCommand::KeyboardLevel(lvl)));
    }
    for t in ["", "a", "hello world", "tïtle ✓ 日本", "semi;colon", "a]b[c"] {
        let mut d = base("Title");
        d["txt"] = json!(t.as_bytes());
        cmds.push((d, TerminalCommand::Title(t.to_string())));
    }
    for (name, osc, idx) in [(TerminalColor::Foreground, 10u128, None), (TerminalColor::Background, 11, None), (TerminalColor::Palette(0), 4, Some(0u128)),
                             (TerminalColor::Palette(255), 4, Some(255)), (TerminalColor::Palette(16), 4, Some(16))] {
        for color in [None, Some(RGBA::new(1, 2, 3, 255)), Some(RGBA::new(255, 0, 171, 255))] {
            let mut d = base("Color");
            d["x"] = json!(digits(osc));
            d["en"] = json!(idx.is_some());
            d["y"] = json!(digits(idx.unwrap_or(0)));
            d["txt"] = json!(match color {
                None => "?".to_string(),
                Some(c) => {
                    let [r, g, b, _] = c.to_rgba();
                    format!("#{:02x}{:02x}{:02x}", r, g, b)
                }
            }
            .as_bytes());
            cmds.push((d, TerminalCommand::Color { name, color }));
        }
    }
    for names in [vec!["TN"], vec!["TN", "Co", "RGB"], vec!["colors"], vec![]] {
        let mut d = base("Termcap");
        d["names"] = json!(names.iter().map(|n| n.as_bytes().to_vec()).collect::<Vec<_>>());
        cmds.push((d, TerminalCommand::Termcap(names.iter().map(|s| s.to_string()).collect())));
    }
    for raw in [&b""[..], b"abc", b"\x1b[5n"] {
        let mut d = base("Raw");
        d["txt"] = json!(raw);
        cmds.push((d, TerminalCommand::Raw(raw.to_vec())));
    }
    let img = Image::from(SurfaceOwned::new_with(Size::new(2, 2), |_| RGBA::new(1, 2, 3, 255)));
    cmds.push((base("Image"), TerminalCommand::Image(img.clone(), Position::new(1, 1))));
    cmds.push((base("ImageErase"), TerminalCommand::ImageErase(img, None)));
    for ch in ['a', ' ', '~', 'é', '€', '🤩', '\u{80}', '\u{7ff}', '\u{800}', '\u{ffff}', '\u{10000}', '\u{10ffff}', '\t'] {
        let mut d = base("Char");
        d["x"] = json!(digits(ch as u128));
        cmds.push((d, TerminalCommand::Char(ch)));
    }
    // faces: every attribute set x underline style, colours sampled (all pairs in the thorough tier)
    let attrs = all_attrs();
    for (i, a) in attrs.iter().enumerate() {
        let pairs: Vec<(Option<RGBA>, Option<RGBA>)> = if thorough {
            colors.iter().flat_map(|f| colors.iter().map(move |b| (*f, *b))).collect()
        } else {
            vec![(colors[i % colors.len()], colors[(i / 3) % colors.len()]), (*rnd.pick(&colors), *rnd.pick(&colors))]
        };
        for (fg, bg) in pairs {
            let f = Face::new(fg, bg, *a);
            cmds.push((face_desc(&f), TerminalCommand::Face(f)));
        }
    }
    // face modifications
    let tri_vals = [None, Some(true), Some(false)];
    let uls: Vec<Option<UnderlineStyle>> = std::iter::once(None).chain(ULS.iter().map(|u| Some(*u))).collect();
    let n_mod = if thorough { 9072 } else { 1500 };
    let mut all = Vec::new();
    for reset in [false, true] {
        for fg in [None, colors[1]] {
            for bg in [None, colors[4]] {
                for ulc in [None, colors[2]] {
                    for u in &uls {
                        for b in tri_vals {
                            for it in tri_vals {
                                for bl in tri_vals {
                                    for s in tri_vals {
                                        all.push(FaceModify { reset, fg, bg, underline: *u, underline_color: ulc, bold: b, italic: it, blink: bl, strike: s });
                                    }
                                }
                            }
                        }
                    }
                }
            }
        }
    }
    let step = (all.len() / n_mod).max(1);
    for (i, m) in all.iter().enumerate() {
        if i % step == (rnd.0 as usize) % step {
            cmds.push((modify_desc(m), TerminalCommand::FaceModify(*m)));
        }
    }
    cmds
}

/// c05-drive --seed S --thorough 0|1
pub fn drive(args: &[String]) {
    let seed = arg_u64(args, "--seed", 1);
    let thorough = arg_u64(args, "--thorough", 0) == 1;
    let mut rnd = Rng::new(seed ^ 0xc05);
    let cmds = commands(&mut rnd, thorough);
    let mut out = Out::new();
    let mut id = 0u64;
    let depths = [(ColorDepth::TrueColor, 24), (ColorDepth::EightBit, 8), (ColorDepth::Gray, 2)];
    for (depth, dn) in depths {
        for kitty in [false, true] {
            for (d, c) in cmds.iter() {
                // kitty only matters for keyboard-level related commands
                let name = d["cmd"].as_str().unwrap();
                if kitty && !(name == "DecModeSet" || name == "KeyboardLevel") {
                    continue;
                }
                if dn != 24 && !(name == "Face" || name == "FaceModify") {
                    continue;
                }
                let mut enc = TTYEncoder::new(TerminalCaps { depth, glyphs: false, kitty_keyboard: kitty });
                let c2 = c.clone();
                let r = guarded(|| {
                    let mut b = Vec::new();
                    enc.encode(&mut b, c2).map(|_| b)
                });
                let mut rec = d.clone();
                rec["id"] = json!(id);
                rec["depth"] = json!(dn);
                rec["kitty"] = json!(kitty);
                match r {
                    Ok(Ok(b)) => {
                        rec["bytes"] = json!(b);
                        rec["out"] = json!("ok");
                    }
                    Ok(Err(e)) => {
                        rec["bytes"] = json!([]);
                        rec["out"] = json!(format!("err: {e:?}"));
                    }
                    Err(m) => {
                        rec["bytes"] = json!([]);
                        rec["out"] = json!(format!("panic: {m}"));
                    }
                }
                out.rec(&rec);
                id += 1;
            }
        }
    }
    // streams: 2-5 commands through ONE encoder; each must stay self-contained and must not
    // depend on what the encoder emitted before
    let mut plans: Vec<(Vec<usize>, bool, (ColorDepth, i32))> = Vec::new();
    let nstreams = if thorough { 6000 } else { 600 };
    for _ in 0..nstreams {
        let k = 2 + rnd.below(4);
        plans.push(((0..k).map(|_| rnd.below(cmds.len())).collect(), rnd.chance(1, 2), *rnd.pick(&depths)));
    }
    // repetition templates: c c / c Reset c / AltScreen-on c, for one command of every kind and all keyboard commands
    let reset_ix = cmds.iter().position(|c| c.0["cmd"] == "Reset").unwrap();
    let alt_ix = cmds.iter().position(|c| c.0["cmd"] == "DecModeSet" && c.0["x"] == json!(digits(1049)) && c.0["en"] == json!(true)).unwrap();
    let mut seen_kind = std::collections::BTreeSet::new();
    for (i, c) in cmds.iter().enumerate() {
        let kind = c.0["cmd"].as_str().unwrap().to_string();
        let keyboard = kind == "KeyboardLevel" || kind == "DecModeSet";
        if keyboard || seen_kind.insert(kind) {
            for kitty in [false, true] {
                plans.push((vec![i, i], kitty, depths[0]));
                plans.push((vec![i, reset_ix, i], kitty, depths[0]));
                plans.push((vec![alt_ix, i, i], kitty, depths[0]));
            }
        }
    }
    for (picks, kitty, (depth, dn)) in plans {
        let r = guarded(|| {
            let mut enc = TTYEncoder::new(TerminalCaps { depth, glyphs: false, kitty_keyboard: kitty });
            let mut parts = Vec::new();
            for p in &picks {
                let mut b = Vec::new();
                enc.encode(&mut b, cmds[*p].1.clone()).unwrap();
                parts.push(b);
            }
            parts
        });
        // what a fresh encoder emits for each command on its own
        let fresh: Vec<Vec<u8>> = picks
            .iter()
            .map(|p| {
                let mut enc = TTYEncoder::new(TerminalCaps { depth, glyphs: false, kitty_keyboard: kitty });
                let mut b = Vec::new();
                let _ = guarded(|| enc.encode(&mut b, cmds[*p].1.clone()));
                b
            })
            .collect();
        let mut rec = base("stream");
        rec["fresh"] = json!(fresh);
        rec["id"] = json!(id);
        rec["depth"] = json!(dn);
        rec["kitty"] = json!(kitty);
        rec["names"] = json!(picks.iter().map(|p| cmds[*p].0["cmd"].as_str().unwrap().as_bytes().to_vec()).collect::<Vec<_>>());
        match r {
            Ok(parts) => {
                rec["bytes"] = json!(parts.concat());
                rec["parts"] = json!(parts);
                rec["out"] = json!("ok");
            }
            Err(m) => {
                rec["bytes"] = json!([]);
                rec["out"] = json!(format!("panic: {m}"));
            }
        }
        out.rec(&rec);
        id += 1;
    }
}
