//! C13: nearest-colour lookup and quantisation of the real library.
use crate::util::*;
use serde_json::{json, Value};
use surf_n_term::*;

fn c3(c: RGBA) -> Vec<u8> {
    let [r, g, b] = c.to_rgb();
    vec![r, g, b]
}

fn palette_of(rnd: &mut Rng, kind: usize, n: usize) -> Vec<RGBA> {
    let mut v: Vec<RGBA> = Vec::new();
    match kind {
        0 => {
            for _ in 0..n {
                v.push(RGBA::new(rnd.below(256) as u8, rnd.below(256) as u8, rnd.below(256) as u8, 255));
            }
        }
        1 => {
            // duplicates and collinear clusters
            let base = [rnd.below(256) as u8, rnd.below(256) as u8, rnd.below(256) as u8];
            for i in 0..n {
                let d = (i % 5) as u8;
                v.push(match i % 4 {
                    0 => RGBA::new(base[0], base[1], base[2], 255),
                    1 => RGBA::new(base[0].wrapping_add(d), base[1], base[2], 255),
                    2 => RGBA::new(base[0], base[1].wrapping_add(d), base[2].wrapping_sub(d), 255),
                    _ => RGBA::new(rnd.below(4) as u8 * 85, rnd.below(4) as u8 * 85, rnd.below(4) as u8 * 85, 255),
                });
            }
        }
        2 => {
            // tiny grid palettes (the model's shapes lifted to RGB)
            for _ in 0..n {
                v.push(RGBA::new(rnd.below(3) as u8, rnd.below(3) as u8, rnd.below(3) as u8, 255));
            }
        }
        _ => {
            // the LCG palette of the crate's own test
            let mut s: u32 = 127;
            for _ in 0..n {
                s = s.wrapping_mul(1103515245).wrapping_add(12345);
                v.push(RGBA::new((s >> 16) as u8, (s >> 8) as u8, s as u8, 255));
            }
        }
    }
    v
}

/// c13-drive --n N --seed S
pub fn drive(args: &[String]) {
    let n = arg_u64(args, "--n", 60) as usize;
    let seed = arg_u64(args, "--seed", 1);
    let nq = arg_u64(args, "--queries", 60) as usize;
    let mut rnd = Rng::new(seed ^ 0xc13);
    let mut out = Out::new();
    let mut id = 0u64;
    let sizes = [1usize, 2, 3, 5, 8, 9, 16, 17, 100, 255, 256, 257, 300, 384, 511, 512];
    // ---- lookup structure
    for round in 0..n {
        let size = if round < sizes.len() { sizes[round] } else { sizes[rnd.below(sizes.len())] };
        let pal = palette_of(&mut rnd, round % 4, size);
        let mut qs: Vec<RGBA> = (0..nq).map(|_| RGBA::new(rnd.below(256) as u8, rnd.below(256) as u8, rnd.below(256) as u8, 255)).collect();
        for _ in 0..nq / 3 {
            // around palette points (ties, exact hits)
            let [r, g, b] = pal[rnd.below(pal.len())].to_rgb();
            qs.push(RGBA::new(r.wrapping_add(rnd.below(3) as u8).wrapping_sub(1), g, b.wrapping_add(rnd.below(3) as u8).wrapping_sub(1), 255));
        }
        let res = guarded(|| {
            let p = ColorPalette::new(pal.clone()).unwrap();
            qs.iter()
                .map(|q| {
                    let (i, c) = p.find(*q);
                    let [r, g, b] = c.to_rgb();
                    json!([i, r, g, b])
                })
                .collect::<Vec<Value>>()
        });
        let palj: Vec<Vec<u8>> = pal.iter().map(|c| c3(*c)).collect();
        let qsj: Vec<Vec<u8>> = qs.iter().map(|c| c3(*c)).collect();
        match res {
            Ok(r) => out.rec(&json!({"id": id, "t": "find", "pal": palj, "qs": qsj, "res": r, "panic": ""})),
            Err(m) => out.rec(&json!({"id": id, "t": "find", "pal": palj, "qs": qsj, "res": [], "panic": m})),
        }
        id += 1;
    }
    // ---- quantisation
    let ks = [1usize, 2, 7, 8, 9, 16, 255, 256, 1000];
    for round in 0..n {
        let k = ks[round % ks.len()];
        let dither = round % 2 == 0;
        let bg = if round % 3 == 0 { None } else { Some(RGBA::new(250, 240, 230, 255)) };
        let ncol = [1usize, 2, 5, 9, 16, 40, 400][rnd.below(7)];
        // every fourth round: "ink" images - few RGB values, each at several alpha levels (glyph-like coverage), so that
        // pixels with equal RGB and different alpha composite to different colours
        let ink = round % 4 == 1;
        let bases: Vec<(u8, u8, u8)> = (0..2).map(|_| (rnd.below(256) as u8, rnd.below(256) as u8, rnd.below(256) as u8)).collect();
        let colors: Vec<RGBA> = (0..ncol)
            .map(|i| {
                if ink {
                    let (r, g, b) = bases[i % 2];
                    return RGBA::new(r, g, b, [255u8, 0, 128, 60, 200, 254, 1, 30][(i / 2) % 8]);
                }
                let a = match rnd.below(6) {
                    0 => 0,
                    1 => 128,
                    _ => 255,
                };
                RGBA::new(rnd.below(256) as u8, rnd.below(256) as u8, rnd.below(256) as u8, a)
            })
            .collect();
        // some rounds: a small crop of a large parent (the view is below the sampling threshold, the parent is not)
        let crop_of_large = round % 5 == 4;
        // every sixth round: the pixel count lies in the upper half of the not-subsampled range (100 k .. 200 k) and all
        // colours but one occur exactly once (the first pixel among them): a sampler that skips pixels loses them
        let rare = round % 6 == 5 && !crop_of_large && k >= 2 && k <= 16;
        let (h, w) = if crop_of_large {
            (1 + rnd.below(6), 1 + rnd.below(6))
        } else if rare {
            let side = ((k * (110 + rnd.below(80))) as f64).sqrt() as usize;
            (side, (k * (110 + rnd.below(80))) / side)
        } else {
            (1 + rnd.below(18), 1 + rnd.below(18))
        };
        let ncol = if rare { ncol.min(k) } else { ncol };
        let rare_at: Vec<usize> = (0..ncol).map(|j| if j == 0 { usize::MAX } else if j == 1 { 0 } else { rnd.below(h * w) }).collect();
        let (ph, pw) = if crop_of_large { (h + 80, w + 80) } else { (h + 2, w + 1) };
        let mut i = 0usize;
        let parent = Image::from(SurfaceOwned::new_with(Size::new(ph, pw), |p| {
            i += 1;
            if rare {
                // position inside the cropped window (which starts at (1, 1))
                let inside = p.row >= 1 && p.col >= 1 && p.row <= h && p.col <= w;
                let n = if inside { (p.row - 1) * w + (p.col - 1) } else { usize::MAX - 1 };
                return colors[rare_at.iter().position(|at| *at == n).unwrap_or(0)];
            }
            colors[(i * 7 + rnd.below(3)) % ncol]
        }));
        let img = parent.crop(1..h + 1, 1..w + 1);
        let res = guarded(|| img.quantize(k, dither, bg));
        // composited source pixels: the rasterize crate's own blend, logged as data
        let bgc = bg.unwrap_or(RGBA::new(0, 0, 0, 255));
        let px: Vec<Vec<u8>> = img.iter().map(|c| if c.to_rgba()[3] < 255 { c3(bgc.blend_over(*c)) } else { c3(*c) }).collect();
        let small = h * w < 200 * k;
        match res {
            Ok(Some((pal, qimg))) => {
                let palj: Vec<Vec<u8>> = pal.colors().iter().map(|c| c3(*c)).collect();
                let idx: Vec<usize> = qimg.iter().copied().collect();
                out.rec(&json!({"id": id, "t": "quantize", "px": px, "w": w, "h": h, "k": k, "dither": dither, "small": small, "some": true,
                                "pal": palj, "idx": idx, "iw": qimg.width(), "ih": qimg.height(), "panic": ""}));
            }
            Ok(None) => out.rec(&json!({"id": id, "t": "quantize", "px": px, "w": w, "h": h, "k": k, "dither": dither, "small": small, "some": false, "pal": [], "idx": [], "iw": 0, "ih": 0, "panic": ""})),
            Err(m) => out.rec(&json!({"id": id, "t": "quantize", "px": px, "w": w, "h": h, "k": k, "dither": dither, "small": small, "some": false, "pal": [], "idx": [], "iw": 0, "ih": 0, "panic": m})),
        }
        id += 1;
    }
    // ---- large flat areas: one colour on tens of thousands of pixels, the palette large enough for the image not to be
    // subsampled.  Too large to hand to TLC pixel by pixel: the record carries the distinct source colours with their
    // counts and, for each, the set of palette colours its pixels were mapped to.
    let flats: [(usize, usize, usize, [u8; 3], usize); 4] = [
        (240, 300, 512, [255, 255, 255], 65795),
        (400, 340, 1000, [127, 254, 60], 134000),
        (260, 260, 400, [255, 0, 255], 66500),
        (250, 280, 700, [254, 253, 129], 69000),
    ];
    for (fi, (h, w, k, main, nmain)) in flats.iter().copied().enumerate() {
        for dither in [false, true] {
            let others = [RGBA::new(0, 0, 0, 255), RGBA::new(1, 2, 3, 255), RGBA::new(200, 10, 90, 255)];
            let mainc = RGBA::new(main[0], main[1], main[2], 255);
            let mut i = 0usize;
            let img = Image::from(SurfaceOwned::new_with(Size::new(h, w), |_| {
                i += 1;
                if i <= nmain {
                    mainc
                } else {
                    others[(i + fi) % (1 + fi % 3)]
                }
            }));
            let res = guarded(|| img.quantize(k, dither, None));
            let mut cols: std::collections::BTreeMap<Vec<u8>, usize> = Default::default();
            for c in img.iter() {
                *cols.entry(c3(*c)).or_default() += 1;
            }
            let colsj: Vec<Vec<usize>> = cols.iter().map(|(c, n)| vec![c[0] as usize, c[1] as usize, c[2] as usize, *n]).collect();
            match res {
                Ok(Some((pal, qimg))) => {
                    let mut maps: std::collections::BTreeMap<Vec<u8>, std::collections::BTreeSet<Vec<u8>>> = Default::default();
                    let mut inside = true;
                    for (src, ix) in img.iter().zip(qimg.iter()) {
                        match pal.colors().get(*ix) {
                            Some(c) => {
                                maps.entry(c3(*src)).or_default().insert(c3(*c));
                            }
                            None => inside = false,
                        }
                    }
                    let mapsj: Vec<Vec<Vec<u8>>> = cols.keys().map(|c| maps.get(c).map(|s| s.iter().cloned().collect()).unwrap_or_default()).collect();
                    out.rec(&json!({"id": id, "t": "flat", "w": w, "h": h, "k": k, "dither": dither, "some": true, "cols": colsj, "maps": mapsj, "np": pal.colors().len(),
                                    "inside": inside, "iw": qimg.width(), "ih": qimg.height(), "panic": ""}));
                }
                Ok(None) => out.rec(&json!({"id": id, "t": "flat", "w": w, "h": h, "k": k, "dither": dither, "some": false, "cols": colsj, "maps": [], "np": 0, "inside": true, "iw": 0, "ih": 0, "panic": ""})),
                Err(m) => out.rec(&json!({"id": id, "t": "flat", "w": w, "h": h, "k": k, "dither": dither, "some": false, "cols": colsj, "maps": [], "np": 0, "inside": true, "iw": 0, "ih": 0, "panic": m})),
            }
            id += 1;
        }
    }
}
