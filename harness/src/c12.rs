//! C12: images through the real SixelImageHandler; raw bytes + source pixels
//! (after compositing over the configured background) for the sixel judge.
use crate::util::*;
use serde_json::json;
use surf_n_term::*;

fn source_pixels(img: &Image, bg: Option<RGBA>) -> Vec<Vec<u8>> {
    img.iter()
        .map(|c| {
            let [r, g, b, a] = c.to_rgba();
            if a == 255 {
                vec![r, g, b]
            } else if a == 0 {
                let [r, g, b, _] = bg.unwrap_or(RGBA::new(0, 0, 0, 255)).to_rgba();
                vec![r, g, b]
            } else {
                // translucent: composited over the background with the library's own blend (judged with a tolerance of one level)
                let [r, g, b, _] = bg.unwrap_or(RGBA::new(0, 0, 0, 255)).blend_over(*c).to_rgba();
                vec![r, g, b]
            }
        })
        .collect()
}

/// a writer that accepts at most `1` bytes per call (pipes and non-blocking descriptors do that)
pub struct Short(pub Vec<u8>, pub usize);
impl std::io::Write for Short {
    fn write(&mut self, buf: &[u8]) -> std::io::Result<usize> {
        let n = buf.len().min(self.1);
        self.0.extend_from_slice(&buf[..n]);
        Ok(n)
    }
    fn flush(&mut self) -> std::io::Result<()> {
        Ok(())
    }
}

/// a writer that accepts `1` bytes in total and then reports that it would block
struct Failing(Vec<u8>, usize);
impl std::io::Write for Failing {
    fn write(&mut self, buf: &[u8]) -> std::io::Result<usize> {
        if self.1 == 0 {
            return Err(std::io::ErrorKind::WouldBlock.into());
        }
        let n = buf.len().min(self.1);
        self.1 -= n;
        self.0.extend_from_slice(&buf[..n]);
        Ok(n)
    }
    fn flush(&mut self) -> std::io::Result<()> {
        Ok(())
    }
}

/// c12-drive --n N --seed S
pub fn drive(args: &[String]) {
    let n = arg_u64(args, "--n", 100) as usize;
    let seed = arg_u64(args, "--seed", 1);
    let mut rnd = Rng::new(seed ^ 0xc12);
    let mut out = Out::new();
    let mut id = 0u64;
    for round in 0..n {
        // sizes: mostly small, some wide images with long runs
        let (w, h) = match round % 10 {
            0 => (256 + rnd.below(60), 6 + rnd.below(7)),
            1 => (510 + rnd.below(200), 6),
            _ => (1 + rnd.below(24), 6 + rnd.below(15)),
        };
        let ncol = [1usize, 2, 3, 17, 200, 255, 256, 257, 1000][rnd.below(9)];
        // colours distinct at the 0..100 resolution: built from levels
        let mut palette: Vec<RGBA> = Vec::new();
        let mut seen = std::collections::BTreeSet::new();
        while palette.len() < ncol {
            let lv = (rnd.below(101), rnd.below(101), rnd.below(101));
            if seen.insert(lv) {
                let up = |l: usize| ((l as f32) * 2.55).round() as u8;
                palette.push(RGBA::new(up(lv.0), up(lv.1), up(lv.2), 255));
            }
        }
        let bg = if rnd.chance(1, 2) { Some(RGBA::new(10, 200, 30, 255)) } else { None };
        let transparent = bg.is_some() && rnd.chance(1, 2);
        // every 7th small image has translucent pixels (few colours, so that the composites stay below 256 levels)
        let soft = round % 7 == 6 && w <= 24;
        let ncol = if soft { ncol.min(3) } else { ncol };
        let runs = rnd.chance(1, 2) || w > 200;
        let mut last = palette[0];
        let mut k = 0usize;
        let parent = Image::from(SurfaceOwned::new_with(Size::new(h + 7, w + 3), |_| {
            k += 1;
            if k <= ncol {
                // make sure every palette colour occurs
                last = palette[k - 1];
            } else if !runs || rnd.below(if w > 200 { 400 } else { 4 }) == 0 {
                last = palette[rnd.below(ncol)];
                if transparent && rnd.chance(1, 9) {
                    let [r, g, b, _] = last.to_rgba();
                    return RGBA::new(r, g, b, 0);
                }
                if soft && rnd.chance(1, 2) {
                    let [r, g, b, _] = last.to_rgba();
                    return RGBA::new(r, g, b, [1u8, 4, 14, 64, 128, 200, 254][rnd.below(7)]);
                }
            }
            last
        }));
        // the image proper and a second crop of the same size at another offset (same handler)
        // (same handler), two full-width row crops (rows back to back in memory, different start) and the parent
        let mut imgs = vec![parent.crop(0..h, 0..w), parent.crop(6..h + 6, 2..w + 2), parent.crop(0..h, ..), parent.crop(6..h + 6, ..), parent.clone()];
        if w <= 24 {
            // shapes whose column stride is not one: the transposed crop (w rows of h pixels), and every second
            // column of the parent addressed through a hand-made shape
            // (the property speaks of images at least six pixels high)
            if w >= 6 {
                imgs.push(Image::new(parent.crop(0..h, 0..w).transpose()));
            }
            let ps = parent.shape();
            let half = Shape { width: (ps.width + 1) / 2, col_stride: 2 * ps.col_stride, ..ps };
            imgs.push(Image::from_parts(parent.data().to_vec().into(), half));
        }
        let res = guarded(|| {
            let mut hnd = SixelImageHandler::new(bg);
            if round % 3 == 1 {
                // a draw that fails half way (a non-blocking descriptor that would block) must leave nothing behind in the
                // handler: the draws below are judged as usual
                let other = Image::from(SurfaceOwned::new_with(Size::new(12, 9), |p| palette[(p.row + p.col) % palette.len()]));
                let mut failing = Failing(Vec::new(), 40);
                let _ = hnd.draw(&mut failing, &other, Position::new(0, 0));
            }
            let mut recs = Vec::new();
            for img in imgs.iter() {
                let mut b1 = Vec::new();
                hnd.draw(&mut b1, img, Position::new(0, 0)).unwrap();
                // the repeated draw goes into a writer that makes short writes
                let mut b2 = Short(Vec::new(), [1usize, 7, 64, 4096][recs.len() % 4]);
                hnd.draw(&mut b2, img, Position::new(3, 3)).unwrap();
                let b2 = b2.0;
                recs.push((img.width(), img.height(), source_pixels(img, bg), b1.clone(), b1 == b2, soft));
            }
            recs
        });
        match res {
            Ok(recs) => {
                for (w, h, px, bytes, same, soft) in recs {
                    out.rec(&json!({"id": id, "t": "img", "w": w, "h": h, "px": px, "bytes": bytes, "same": same, "ncol": ncol, "tol": if soft { 1 } else { 0 }, "panic": ""}));
                    id += 1;
                }
            }
            Err(m) => {
                out.rec(&json!({"id": id, "t": "img", "w": w, "h": h, "px": [], "bytes": [], "same": true, "ncol": ncol, "tol": 0, "panic": m}));
                id += 1;
            }
        }
    }
    // ---- images large enough for the palette to be built from a SAMPLE of the pixels (>= 51200 pixels after the
    // height is cut to a multiple of six).  Interpreting 50 000 pixels in TLA+ is too slow: only the control items
    // (raster attributes, colour definitions, colour selections) are extracted here by a lexical scan and judged.
    let nbig = arg_u64(args, "--big", 2) as usize;
    // ---- and images in the upper half of the range that is NOT subsampled (25 600 .. 51 200 pixels) whose colours fit
    // the palette, most of them occurring in a single pixel: every source colour must be a defined and selected register
    let nmid = arg_u64(args, "--mid", 2) as usize;
    for k in 0..nbig + nmid {
        let mid = k >= nbig;
        let (w, h) = if mid { (200 + rnd.below(50), 132 + rnd.below(48)) } else { (300 + rnd.below(10), 171 + rnd.below(12)) };
        let ncol = if mid { 60 + rnd.below(190) } else { [300usize, 1000, 5000, 40000][k % 4] };
        let up = |l: usize| ((l as f32) * 2.55).round() as u8;
        let speck: std::collections::BTreeMap<usize, usize> = (1..ncol).map(|c| (if c == 1 { 0 } else { rnd.below(w * (h / 6) * 6) }, c)).collect();
        let img = Image::from(SurfaceOwned::new_with(Size::new(h, w), |p| {
            if mid {
                // colour c has the levels (c % 101, c / 101 * 50, 7): distinct at the 0..100 resolution
                let c = speck.get(&(p.row * w + p.col)).copied().unwrap_or(0);
                return RGBA::new(up(c % 101), up(c / 101 * 50), up(7), 255);
            }
            let v = (p.row * w + p.col) % ncol;
            RGBA::new((v % 101) as u8 * 2, ((v / 101) % 101) as u8 * 2, ((v / 10201) % 101) as u8 * 2 + (rnd.below(2) as u8), 255)
        }));
        let levels: Vec<Vec<usize>> = if mid {
            let mut l: std::collections::BTreeSet<Vec<usize>> = Default::default();
            l.insert(vec![0, 0, 7]);
            for c in speck.values() {
                l.insert(vec![c % 101, c / 101 * 50, 7]);
            }
            l.into_iter().collect()
        } else {
            Vec::new()
        };
        let res = guarded(|| {
            let mut hnd = SixelImageHandler::new(None);
            let mut b1 = Vec::new();
            hnd.draw(&mut b1, &img, Position::new(0, 0)).unwrap();
            let mut b2 = Vec::new();
            hnd.draw(&mut b2, &img, Position::new(1, 1)).unwrap();
            (b1.clone(), b1 == b2)
        });
        match res {
            Ok((bytes, same)) => {
                // lexical scan: "Pan;Pad;Ph;Pv  and  #n  /  #n;2;r;g;b
                let mut raster: Vec<u64> = Vec::new();
                let mut defs: Vec<Vec<u64>> = Vec::new();
                let mut selected: std::collections::BTreeSet<u64> = Default::default();
                let mut i = 0;
                let nums = |i: &mut usize| -> Vec<u64> {
                    let mut out = Vec::new();
                    loop {
                        let st = *i;
                        let mut v = 0u64;
                        while *i < bytes.len() && bytes[*i].is_ascii_digit() {
                            v = v.saturating_mul(10).saturating_add((bytes[*i] - b'0') as u64);
                            *i += 1;
                        }
                        if *i == st {
                            break;
                        }
                        out.push(v.min(1_000_000));
                        if *i < bytes.len() && bytes[*i] == b';' {
                            *i += 1;
                        } else {
                            break;
                        }
                    }
                    out
                };
                while i < bytes.len() {
                    match bytes[i] {
                        b'"' => {
                            i += 1;
                            raster = nums(&mut i);
                        }
                        b'#' => {
                            i += 1;
                            let v = nums(&mut i);
                            if v.len() == 1 {
                                selected.insert(v[0]);
                            } else {
                                defs.push(v);
                            }
                        }
                        _ => i += 1,
                    }
                }
                let well_framed = bytes.starts_with(b"\x1bPq") && bytes.ends_with(b"\x1b\\");
                out.rec(&json!({"id": id, "t": "big", "w": w, "h": h, "px": [], "bytes": [], "same": same, "ncol": ncol, "panic": "",
                                 "raster": raster, "defs": defs, "selected": selected.into_iter().collect::<Vec<_>>(), "framed": well_framed, "levels": levels}));
            }
            Err(m) => out.rec(&json!({"id": id, "t": "big", "w": w, "h": h, "px": [], "bytes": [], "same": true, "ncol": ncol, "panic": m, "raster": [], "defs": [], "selected": [], "framed": true, "levels": []})),
        }
        id += 1;
    }
}
