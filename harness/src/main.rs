//! Conformance harness binding the TLA+ specifications under /verif/spec to the
//! real surf-n-term code.  Sub-commands read ndjson vectors on stdin (generated
//! by TLC) or drive the library from a seeded generator, and write ndjson
//! recordings on stdout which the TLA+ judges read back.
#![allow(clippy::all)]
mod util;
mod isolate;
mod c01;
mod c02;
mod c03;
mod c04;
mod c05;
mod c06;
mod c07;
mod c08;
mod c09;
mod c10;
mod c11;
mod c12;
mod c13;
mod c14;
mod c15;
mod c16;
mod c16r;
mod c17;
mod c18;
mod c19;
mod c20;

fn main() {
    // panics of the code under test are data, not noise
    std::panic::set_hook(Box::new(|info| {
        if let Some(l) = info.location() {
            *util::LAST_PANIC_AT.lock().unwrap() = format!("{}:{}", l.file(), l.line());
        }
    }));
    let args: Vec<String> = std::env::args().skip(1).collect();
    let cmd = args.first().map(|s| s.as_str()).unwrap_or("");
    let rest = &args[args.len().min(1)..];
    match cmd {
        "isolate" => isolate::run(rest),
        "c01-drive" => c01::drive(rest),
        "c01-replay" => c01::replay(),
        "c01-loop" => c01::drive_loop(rest),
        "c01-pairs" => c01::pairs(rest),
        "c02-run" => c02::run(rest),
        "c03-tok" => c03::tok(rest),
        "c03-gen" => c03::corpus(rest),
        "c03-prod" => c03::prod(rest),
        "c03-long" => c03::long(rest),
        "c17-pty" => c17::pty(),
        "c20-drive" => c20::drive(rest),
        "c18-replay" => c18::replay(rest),
        "c18-parse" => c18::parse(rest),
        "c19-run" => c19::run(rest),
        "c16-queue" => c16::queue(rest),
        "c16-render" => c16r::render(),
        "c09-drive" => c09::drive(rest),
        "c10-drive" => c10::drive(rest),
        "c10-gen" => c10::vectors(rest),
        "c11-drive" => c11::drive(rest),
        "c12-drive" => c12::drive(rest),
        "c13-drive" => c13::drive(rest),
        "c14-drive" => c14::drive(rest),
        "c14-replay" => c14::replay(),
        "c15-replay" => c15::replay(rest),
        "c04-replay" => c04::replay(),
        "c05-drive" => c05::drive(rest),
        "c06-drive" => c06::drive(rest),
        "c07-replay" => c07::replay(),
        "c08-replay" => c08::replay(),
        _ => {
            eprintln!("unknown sub-command {cmd:?} {rest:?}");
            std::process::exit(2);
        }
    }
}
