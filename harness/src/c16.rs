//! C16 (a): seeded random operation scripts on the real IOQueue; every return
//! value and the observable projection (len, chunks_count, as_slice) logged
//! after every step.
use crate::util::*;
use serde_json::{json, Value};
use std::io::{Read, Write};
use surf_n_term::common::IOQueue;

fn obs(q: &IOQueue, o: &mut serde_json::Map<String, Value>) {
    o.insert("len".into(), json!(q.len()));
    o.insert("count".into(), json!(q.chunks_count()));
    o.insert("slice".into(), json!(q.as_slice()));
}

fn op(t: &str, n: usize, bs: &[u32], got: &[u8]) -> serde_json::Map<String, Value> {
    let mut m = serde_json::Map::new();
    m.insert("t".into(), json!(t));
    m.insert("n".into(), json!(n));
    m.insert("bs".into(), json!(bs));
    m.insert("got".into(), json!(got));
    m
}

/// c16-queue --n N --seed S --maxops K
pub fn queue(args: &[String]) {
    let n = arg_u64(args, "--n", 100) as usize;
    let seed = arg_u64(args, "--seed", 1);
    let maxops = arg_u64(args, "--maxops", 24) as usize;
    let mut rnd = Rng::new(seed ^ 0x10c16);
    let mut out = Out::new();
    for id in 0..n {
        let steps = 3 + rnd.below(maxops);
        let script: Vec<(usize, usize)> = (0..steps).map(|_| (rnd.below(12), rnd.below(9))).collect();
        let res = guarded(|| {
            let mut q = IOQueue::new();
            let mut ops = Vec::new();
            let mut next: u32 = 1;
            for (k, arg) in &script {
                let mut o = match k {
                    0..=3 => {
                        // payload bytes are numbered (mod 251, never repeating within the queue's lifetime in practice)
                        let len = if *arg == 8 { 40 } else { *arg };
                        let bs: Vec<u32> = (0..len).map(|i| (next + i as u32) % 251).collect();
                        next += len as u32;
                        let bytes: Vec<u8> = bs.iter().map(|b| *b as u8).collect();
                        let written = q.write(&bytes).unwrap();
                        assert!(written == bytes.len(), "IOQueue::write accepted fewer bytes than offered");
                        op("w", len, &bs, &[])
                    }
                    4 | 5 => {
                        q.flush().unwrap();
                        op("f", 0, &[], &[])
                    }
                    6..=8 => {
                        let want = if *arg == 8 { 64 } else { *arg };
                        let mut buf = vec![0u8; want];
                        let got = q.read(&mut buf).unwrap();
                        op("r", want, &[], &buf[..got])
                    }
                    9 | 10 => {
                        // consume at most what the front slice holds (the BufRead contract)
                        let amt = (*arg).min(q.as_slice().len());
                        q.consume(amt);
                        op("c", amt, &[], &[])
                    }
                    _ => {
                        q.clear_but_last();
                        op("d", 0, &[], &[])
                    }
                };
                obs(&q, &mut o);
                // is_empty must agree with the chunk count
                assert!(q.is_empty() == (q.chunks_count() == 0), "is_empty disagrees with chunks_count");
                ops.push(Value::Object(o));
            }
            ops
        });
        match res {
            Ok(ops) => out.rec(&json!({"id": id, "ops": ops, "panic": ""})),
            Err(m) => out.rec(&json!({"id": id, "ops": [], "panic": m, "script": script})),
        }
    }
}
