//! C19: serialised forms round trip; no JSON document crashes deserialisation.
//! `c19-run` reads the vectors of spec/serde/SerdeGen.tla and HostileJson.tla
//! (one recording per vector, meant to run under `isolate`).
use crate::c01::Rec;
use crate::util::*;
use serde::de::DeserializeSeed;
use serde_json::{json, Value};
use std::str::FromStr;
use surf_n_term::view::{BoxConstraint, Text, Tree, View, ViewContext, ViewDeserializer, ViewLayoutStore};
use surf_n_term::*;

fn ctx_for(glyphs: bool) -> ViewContext {
    let mut t = Rec::new(TerminalSize { cells: Size::new(40, 100), pixels: Size::new(40 * 20, 100 * 10) });
    t.caps.glyphs = glyphs;
    ViewContext::new(&t).unwrap()
}

fn colour(c: Option<RGBA>) -> Value {
    match c {
        None => json!([]),
        Some(c) => json!(c.to_rgba()),
    }
}
/// abstract face of FaceSyntax.tla
fn face_rec(f: &Face) -> Value {
    let under = [FaceAttrs::UNDERLINE, FaceAttrs::UNDERLINE_DOUBLE, FaceAttrs::UNDERLINE_CURLY, FaceAttrs::UNDERLINE_DOTTED, FaceAttrs::UNDERLINE_DASHED];
    let u = under.iter().position(|x| f.attrs.contains(*x)).map(|p| p + 1).unwrap_or(0);
    let flags: Vec<&str> = [(FaceAttrs::BOLD, "bold"), (FaceAttrs::ITALIC, "italic"), (FaceAttrs::BLINK, "blink"), (FaceAttrs::REVERSE, "reverse"), (FaceAttrs::STRIKE, "strike")]
        .iter()
        .filter(|(a, _)| f.attrs.contains(*a))
        .map(|(_, n)| *n)
        .collect();
    json!({"ok": true, "fg": colour(f.fg), "bg": colour(f.bg), "under": u, "flags": flags})
}
fn no_face() -> Value {
    json!({"ok": false, "fg": [], "bg": [], "under": 0, "flags": []})
}

fn bits_of(m: KeyMod) -> u32 {
    let mut b = 0;
    for (flag, v) in [
        (KeyMod::SHIFT, 1), (KeyMod::ALT, 2), (KeyMod::CTRL, 4), (KeyMod::SUPER, 8), (KeyMod::HYPER, 16), (KeyMod::META, 32),
        (KeyMod::CAPSLOCK, 64), (KeyMod::NUMLOCK, 128), (KeyMod::PRESS, 256),
    ] {
        if m.contains(flag) {
            b |= v;
        }
    }
    b
}
fn chord_rec(c: &KeyChord) -> Value {
    Value::Array(c.keys().iter().map(|k| json!({"name": format!("{:?}", k.name), "bits": bits_of(k.mode)})).collect())
}

fn pixels(img: &Image) -> Vec<Value> {
    img.iter().map(|p| json!(p.to_rgba())).collect()
}
fn codes(s: &str) -> Vec<u32> {
    s.bytes().map(|b| b as u32).collect()
}

fn sentinel() -> Cell {
    Cell::new_char(Face::new(None, Some(RGBA::new(9, 9, 9, 255)), FaceAttrs::EMPTY), '#')
}

/// lay out and render a deserialised view under a few constraints; returns (outcomes, cells changed outside)
fn exercise(view: &dyn View) -> (Vec<String>, usize) {
    let mut outcomes = Vec::new();
    let mut outside = 0;
    let cts = [
        BoxConstraint::loose(Size::new(5, 10)),
        BoxConstraint::tight(Size::new(3, 3)),
        BoxConstraint::loose(Size::new(1, 1)),
        BoxConstraint::tight(Size::new(0, 0)),
        BoxConstraint::new(Size::new(0, 4), Size::new(2, 30)),
    ];
    for glyphs in [true, false] {
        let ctx = ctx_for(glyphs);
        for ct in cts {
            let r = guarded(|| -> Result<usize, String> {
                let mut store = ViewLayoutStore::new();
                let layout = view.layout_new(&ctx, ct, &mut store).map_err(|e| format!("layout: {e}"))?;
                let max = ct.max();
                let mut canvas: SurfaceOwned<Cell> = SurfaceOwned::new_with(Size::new(max.height + 2, max.width + 2), |_| sentinel());
                {
                    let mut v = canvas.view_mut(1..1 + max.height as i64, 1..1 + max.width as i64);
                    view.render(&ctx, v.as_mut(), layout.view()).map_err(|e| format!("render: {e}"))?;
                }
                let s = sentinel();
                let mut out = 0;
                for row in 0..canvas.height() {
                    for col in 0..canvas.width() {
                        let inside = row >= 1 && row < 1 + max.height && col >= 1 && col < 1 + max.width;
                        if !inside && canvas.get(Position::new(row, col)) != Some(&s) {
                            out += 1;
                        }
                    }
                }
                Ok(out)
            });
            match r {
                Ok(Ok(o)) => {
                    outside += o;
                    outcomes.push("ok".to_string());
                }
                Ok(Err(e)) => outcomes.push(format!("err {e}")),
                Err(p) => outcomes.push(format!("panic {p}")),
            }
        }
    }
    (outcomes, outside)
}

fn run_one(id: u64, v: &Value) -> Value {
    let kind = v["kind"].as_str().unwrap_or("").to_string();
    let res = guarded(|| -> Value {
        match kind.as_str() {
            "face" => {
                let text = v["text"].as_str().unwrap();
                let parsed = Face::from_str(text);
                let Ok(face) = parsed else { return json!({"parsed": no_face(), "printed": "", "reparsed": no_face(), "json": "", "back": no_face(), "same": false}) };
                let printed = face.to_string();
                let re = Face::from_str(&printed).ok();
                let js = serde_json::to_value(&face).unwrap();
                let back: Option<Face> = serde_json::from_value(js.clone()).ok();
                // through text as well (a different deserializer: borrowed / owned strings)
                let back2: Option<Face> = serde_json::from_str(&serde_json::to_string(&face).unwrap()).ok();
                json!({"parsed": face_rec(&face), "printed": printed, "reparsed": re.as_ref().map(face_rec).unwrap_or(no_face()), "json": js.as_str().unwrap_or("<not a string>"),
                       "back": back.as_ref().map(face_rec).unwrap_or(no_face()), "same": re == Some(face) && back == Some(face) && back2 == Some(face)})
            }
            "chord" => {
                let text = v["text"].as_str().unwrap();
                let Ok(chord) = KeyChord::from_str(text) else { return json!({"ok": false, "parsed": [], "printed": "", "json": "", "back": [], "same": false}) };
                let printed = chord.to_string();
                let js = serde_json::to_value(&chord).unwrap();
                let back: Option<KeyChord> = serde_json::from_value(js.clone()).ok();
                let back2: Option<KeyChord> = serde_json::from_str(&serde_json::to_string(&chord).unwrap()).ok();
                json!({"ok": true, "parsed": chord_rec(&chord), "printed": printed, "json": js.as_str().unwrap_or("<not a string>"), "back": back.as_ref().map(chord_rec).unwrap_or(json!([])),
                       "same": back.as_ref() == Some(&chord) && back2.as_ref() == Some(&chord)})
            }
            "size" => {
                let (h, w): (usize, usize) = (v["h"].as_str().unwrap().parse().unwrap(), v["w"].as_str().unwrap().parse().unwrap());
                let size = Size::new(h, w);
                let js = serde_json::to_value(size).unwrap();
                let back: Option<Size> = serde_json::from_value(js.clone()).ok();
                let back2: Option<Size> = serde_json::from_str(&serde_json::to_string(&size).unwrap()).ok();
                let (bh, bw) = back.map(|s| (s.height.to_string(), s.width.to_string())).unwrap_or_default();
                json!({"jh": js["height"].to_string(), "jw": js["width"].to_string(), "bh": bh, "bw": bw, "same": back == Some(size) && back2 == Some(size)})
            }
            "imgin" => {
                let data: String = v["data"].as_array().unwrap().iter().map(|c| c.as_u64().unwrap() as u8 as char).collect();
                let size = json!({"height": v["h"], "width": v["w"]});
                let n = v["channels"].as_u64().unwrap();
                // the key order of the document varies; channels defaults to 3 when omitted
                let mut fields = vec![("size", size), ("data", json!(data))];
                if !v["defaultch"].as_bool().unwrap() {
                    fields.push(("channels", json!(n)));
                }
                let order = v["order"].as_u64().unwrap() as usize;
                let k = fields.len();
                fields.rotate_left(order % k);
                if order >= 3 {
                    fields.reverse();
                }
                let text = format!("{{{}}}", fields.iter().map(|(k, v)| format!("{}:{}", json!(k), v)).collect::<Vec<_>>().join(","));
                let img: Result<Image, _> = serde_json::from_str(&text);
                match img {
                    Err(e) => json!({"ok": false, "err": e.to_string(), "size": [0, 0], "got": [], "out": {"h": 0, "w": 0, "channels": 0, "data": []}, "back": [], "doc": text}),
                    Ok(img) => {
                        let out = serde_json::to_value(&img).unwrap();
                        let back: Option<Image> = serde_json::from_value(out.clone()).ok();
                        json!({"ok": true, "err": "", "size": [img.height(), img.width()], "got": pixels(&img),
                               "out": {"h": out["size"]["height"], "w": out["size"]["width"], "channels": out["channels"], "data": codes(out["data"].as_str().unwrap_or(""))},
                               "back": back.as_ref().map(pixels).unwrap_or_default(), "backok": back.is_some(), "doc": text})
                    }
                }
            }
            "imgview" => {
                let (h, w) = (v["h"].as_u64().unwrap() as usize, v["w"].as_u64().unwrap() as usize);
                let px: Vec<RGBA> = v["parent"].as_array().unwrap().iter().map(|p| RGBA::new(p[0].as_u64().unwrap() as u8, p[1].as_u64().unwrap() as u8, p[2].as_u64().unwrap() as u8, p[3].as_u64().unwrap() as u8)).collect();
                let parent = Image::from(SurfaceOwned::new_with(Size::new(h, w), |pos| px[pos.row * w + pos.col]));
                let (r0, r1) = (v["rows"][0].as_u64().unwrap() as usize, v["rows"][1].as_u64().unwrap() as usize);
                let (c0, c1) = (v["cols"][0].as_u64().unwrap() as usize, v["cols"][1].as_u64().unwrap() as usize);
                let view = parent.crop(r0..r1, c0..c1);
                // a crop of a crop must behave the same
                let view2 = parent.crop(r0.., c0..).crop(..r1 - r0, ..c1 - c0);
                let out = serde_json::to_value(&view).unwrap();
                let out2 = serde_json::to_value(&view2).unwrap();
                let back: Option<Image> = serde_json::from_str(&serde_json::to_string(&view).unwrap()).ok();
                json!({"size": [view.height(), view.width()], "got": pixels(&view),
                       "out": {"h": out["size"]["height"], "w": out["size"]["width"], "channels": out["channels"], "data": codes(out["data"].as_str().unwrap_or(""))},
                       "same2": out == out2, "backok": back.is_some(), "backsize": back.as_ref().map(|b| vec![b.height(), b.width()]).unwrap_or_default(),
                       "back": back.as_ref().map(pixels).unwrap_or_default()})
            }
            "doc" => {
                let text = v["doc"].as_str().unwrap();
                let target = v["target"].as_str().unwrap();
                let parsed: Result<Value, _> = serde_json::from_str(text);
                let Ok(doc) = parsed else { return json!({"outcome": "syntax", "detail": "", "consistent": true, "render": [], "outside": 0}) };
                match target {
                    "image" => match serde_json::from_value::<Image>(doc) {
                        Ok(img) => {
                            // a value that exists must be usable: iterate and serialise it
                            let n = img.iter().count();
                            let consistent = n == img.height() * img.width();
                            let _ = serde_json::to_value(&img);
                            let (o, out) = exercise(&img);
                            json!({"outcome": "ok", "detail": format!("{}x{}", img.height(), img.width()), "consistent": consistent, "render": o, "outside": out})
                        }
                        Err(e) => json!({"outcome": "err", "detail": e.to_string(), "consistent": true, "render": [], "outside": 0}),
                    },
                    "glyph" => match serde_json::from_value::<Glyph>(doc) {
                        Ok(g) => {
                            let _ = serde_json::to_value(&g);
                            let (o, out) = exercise(&g);
                            json!({"outcome": "ok", "detail": format!("{:?}", g.size()), "consistent": true, "render": o, "outside": out})
                        }
                        Err(e) => json!({"outcome": "err", "detail": e.to_string(), "consistent": true, "render": [], "outside": 0}),
                    },
                    "text" => match serde_json::from_value::<Text>(doc) {
                        Ok(t) => {
                            let t: Text = t;
                            let (o, out) = exercise(&t);
                            json!({"outcome": "ok", "detail": "", "consistent": true, "render": o, "outside": out})
                        }
                        Err(e) => json!({"outcome": "err", "detail": e.to_string(), "consistent": true, "render": [], "outside": 0}),
                    },
                    _ => match (&ViewDeserializer::new(None, None)).deserialize(doc) {
                        Ok(view) => {
                            let (o, out) = exercise(&view);
                            json!({"outcome": "ok", "detail": "", "consistent": true, "render": o, "outside": out})
                        }
                        Err(e) => json!({"outcome": "err", "detail": e.to_string(), "consistent": true, "render": [], "outside": 0}),
                    },
                }
            }
            other => panic!("harness: unknown vector kind {other}"),
        }
    });
    let mut o = v.as_object().unwrap().clone();
    o.insert("id".into(), json!(id));
    match res {
        Ok(Value::Object(m)) => {
            o.insert("obs".into(), Value::Object(m));
            o.insert("panic".into(), json!(""));
        }
        Ok(_) => unreachable!(),
        Err(p) => {
            o.insert("obs".into(), json!({}));
            o.insert("panic".into(), json!(if p.is_empty() { "panic".to_string() } else { p }));
        }
    }
    Value::Object(o)
}

/// c19-run: vectors on stdin, one recording per vector
pub fn run(_args: &[String]) {
    let mut out = Out::new();
    for (i, v) in stdin_records().enumerate() {
        let id = v.get("id").and_then(|x| x.as_u64()).unwrap_or(i as u64);
        out.rec(&run_one(id, &v));
    }
}
