//! C08: replay selector vectors through ViewBounds::view_bounds in the integer
//! type the vector names.
use crate::util::*;
use serde_json::{json, Value};
use surf_n_term::surface::ViewBounds;

pub const NEG_INF: i64 = -2_000_000_000;
pub const POS_INF: i64 = 2_000_000_000;

macro_rules! conv {
    ($t:ty, $v:expr) => {{
        let v: i64 = $v;
        if v == POS_INF {
            <$t>::MAX
        } else if v == POS_INF - 1 {
            <$t>::MAX - 1
        } else if v == NEG_INF {
            <$t>::MIN
        } else if v == NEG_INF + 1 {
            <$t>::MIN + 1
        } else {
            v as $t
        }
    }};
}

macro_rules! resolve {
    ($t:ty, $form:expr, $a:expr, $b:expr, $n:expr) => {{
        let a = conv!($t, $a);
        let b = conv!($t, $b);
        match $form {
            "idx" => a.view_bounds($n),
            "range" => (a..b).view_bounds($n),
            "from" => (a..).view_bounds($n),
            "to" => (..b).view_bounds($n),
            "incl" => (a..=b).view_bounds($n),
            "toincl" => (..=b).view_bounds($n),
            _ => (..).view_bounds($n),
        }
    }};
}

pub fn resolve_ty(ty: &str, form: &str, a: i64, b: i64, n: usize) -> Option<(usize, usize)> {
    match ty {
        "i8" => resolve!(i8, form, a, b, n),
        "u8" => resolve!(u8, form, a, b, n),
        "i16" => resolve!(i16, form, a, b, n),
        "u16" => resolve!(u16, form, a, b, n),
        "i32" => resolve!(i32, form, a, b, n),
        "u32" => resolve!(u32, form, a, b, n),
        "i64" => resolve!(i64, form, a, b, n),
        "u64" => resolve!(u64, form, a, b, n),
        "isize" => resolve!(isize, form, a, b, n),
        _ => resolve!(usize, form, a, b, n),
    }
}

pub fn replay() {
    let mut out = Out::new();
    for (id, mut v) in stdin_records().enumerate() {
        let form = v["form"].as_str().unwrap().to_string();
        let ty = v["ty"].as_str().unwrap().to_string();
        let (a, b, n) = (v["a"].as_i64().unwrap(), v["b"].as_i64().unwrap(), v["n"].as_u64().unwrap() as usize);
        let got = match guarded(|| resolve_ty(&ty, &form, a, b, n)) {
            Ok(Some((s, e))) => {
                // results beyond 31 bits cannot be compared in TLC; they are malformed anyway (> n)
                let cl = |x: usize| x.min(2_000_000_000) as i64;
                json!([cl(s), cl(e)])
            }
            Ok(None) => json!([-1, -1]),
            Err(_) => json!([-2, -2]),
        };
        let o = v.as_object_mut().unwrap();
        o.insert("got".into(), got);
        o.insert("id".into(), Value::from(id as u64));
        out.rec(&v);
    }
}
