//! C09: text writing stays inside its surface, ignores chunking, loses no cell.
use crate::c01::Rec;
use crate::c03::chunking;
use crate::util::*;
use serde_json::{json, Value};
use std::io::Write;
use surf_n_term::render::CellKind;
use surf_n_term::view::{BoxConstraint, Text, Tree, View, ViewContext, ViewLayoutStore};
use surf_n_term::*;

fn ctx_for(glyphs: bool) -> ViewContext {
    let mut t = Rec::new(TerminalSize { cells: Size::new(40, 100), pixels: Size::new(40 * 20, 100 * 10) });
    t.caps.glyphs = glyphs;
    ViewContext::new(&t).unwrap()
}

/// the index of a generated cell travels in its foreground colour
fn face_of(i: usize) -> Face {
    Face::new(Some(RGBA::new(1 + (i / 250) as u8, 1 + (i % 250) as u8, 7, 255)), None, FaceAttrs::EMPTY)
}
fn index_of(c: &Cell, sentinel: &Cell) -> i64 {
    // cells skipped by a tab or newline keep their content and only get the face overlaid:
    // a cell was WRITTEN iff its content differs from the sentinel's
    if c.kind() == sentinel.kind() {
        return -1;
    }
    match c.face().fg {
        Some(fg) => {
            let [r, g, b, _] = fg.to_rgba();
            if b == 7 && r >= 1 && g >= 1 { ((r as i64 - 1) * 250 + (g as i64 - 1)) + 1 } else { -2 }
        }
        None => -2,
    }
}

fn sentinel() -> Cell {
    Cell::new_char(Face::new(None, Some(RGBA::new(9, 9, 9, 255)), FaceAttrs::EMPTY), '#')
}

struct Gen {
    cell: Cell,
    desc: Value,
}

fn gen_cells(rnd: &mut Rng, n: usize, ppc: Size) -> Vec<Gen> {
    let narrow = ['a', 'b', 'x', 'é', 'Ж', '7'];
    let wide = ['日', '本', '🤩'];
    let zero = ['\u{200b}', '\u{301}'];
    let path: Path = "M0,0 L1,0 L1,1 Z".parse().unwrap();
    (0..n)
        .map(|i| {
            let f = face_of(i);
            match rnd.below(16) {
                0..=6 => Gen { cell: Cell::new_char(f, *rnd.pick(&narrow[..])), desc: json!({"k": "ch", "w": 1, "h": 1, "fb": []}) },
                7 | 8 => Gen { cell: Cell::new_char(f, *rnd.pick(&wide[..])), desc: json!({"k": "ch", "w": 2, "h": 1, "fb": []}) },
                9 => Gen { cell: Cell::new_char(f, *rnd.pick(&zero[..])), desc: json!({"k": "ch", "w": 0, "h": 1, "fb": []}) },
                10 => Gen { cell: Cell::new_char(f, '\n'), desc: json!({"k": "nl", "w": 0, "h": 0, "fb": []}) },
                11 => Gen { cell: Cell::new_char(f, '\t'), desc: json!({"k": "tab", "w": 0, "h": 0, "fb": []}) },
                12 | 13 => {
                    let fallbacks = ["", "g", "ab", "日", "a本b", "\u{200b}x"];
                    let fb = *rnd.pick(&fallbacks[..]);
                    let (gh, gw) = (1 + rnd.below(2), 1 + rnd.below(3));
                    let g = Glyph::new(path.clone(), FillRule::NonZero, None, Size::new(gh, gw), fb.to_string(), None);
                    let widths: Vec<usize> = fb.chars().map(|c| unicode_width(c)).collect();
                    Gen { cell: Cell::new_glyph(f, g), desc: json!({"k": "gl", "w": gw, "h": gh, "fb": widths}) }
                }
                _ => {
                    let (ih, iw) = (1 + rnd.below(2), 1 + rnd.below(3));
                    let img = Image::from(SurfaceOwned::new_with(Size::new(ih * ppc.height, iw * ppc.width), |_| RGBA::new(1, 2, 3, 255)));
                    Gen { cell: Cell::new_image(img).with_face(f), desc: json!({"k": "im", "w": iw, "h": ih, "fb": []}) }
                }
            }
        })
        .collect()
}

fn unicode_width(c: char) -> usize {
    // display widths of the fixed character pool used here
    match c {
        '\u{200b}' | '\u{301}' => 0,
        '日' | '本' | '🤩' => 2,
        _ => 1,
    }
}

fn canvas_ids(canvas: &SurfaceOwned<Cell>) -> Vec<i64> {
    canvas
        .iter()
        .map(|c| {
            let ch = match c.kind() {
                CellKind::Char(ch) => *ch as i64,
                CellKind::Image(_) => -10,
                CellKind::Glyph(_) => -11,
            };
            let f = c.face();
            let h = |c: Option<RGBA>| c.map(|c| { let [r, g, b, _] = c.to_rgba(); (r as i64) << 16 | (g as i64) << 8 | b as i64 }).unwrap_or(-1);
            ch * 1_000_003 + h(f.fg) * 31 + h(f.bg) * 7 + if f.attrs.is_empty() { 0 } else { 1 }
        })
        .collect()
}

/// the eight cell kinds of spec/text/FlowGen.tla
fn cells_of_kinds(kinds: &[u64], ppc: Size) -> Vec<Gen> {
    let path: Path = "M0,0 L1,0 L1,1 Z".parse().unwrap();
    kinds
        .iter()
        .enumerate()
        .map(|(i, k)| {
            let f = face_of(i);
            match k {
                1 => Gen { cell: Cell::new_char(f, 'x'), desc: json!({"k": "ch", "w": 1, "h": 1, "fb": []}) },
                2 => Gen { cell: Cell::new_char(f, '日'), desc: json!({"k": "ch", "w": 2, "h": 1, "fb": []}) },
                3 => Gen { cell: Cell::new_char(f, '\u{200b}'), desc: json!({"k": "ch", "w": 0, "h": 1, "fb": []}) },
                4 => Gen { cell: Cell::new_char(f, '\n'), desc: json!({"k": "nl", "w": 0, "h": 0, "fb": []}) },
                5 => Gen { cell: Cell::new_char(f, '\t'), desc: json!({"k": "tab", "w": 0, "h": 0, "fb": []}) },
                6 => Gen { cell: Cell::new_glyph(f, Glyph::new(path.clone(), FillRule::NonZero, None, Size::new(1, 2), "ab".to_string(), None)), desc: json!({"k": "gl", "w": 2, "h": 1, "fb": [1, 1]}) },
                7 => Gen { cell: Cell::new_glyph(f, Glyph::new(path.clone(), FillRule::NonZero, None, Size::new(1, 1), "本".to_string(), None)), desc: json!({"k": "gl", "w": 1, "h": 1, "fb": [2]}) },
                _ => {
                    let img = Image::from(SurfaceOwned::new_with(Size::new(ppc.height, 2 * ppc.width), |_| RGBA::new(1, 2, 3, 255)));
                    Gen { cell: Cell::new_image(img).with_face(f), desc: json!({"k": "im", "w": 2, "h": 1, "fb": []}) }
                }
            }
        })
        .collect()
}

/// lay a Text out for `width`, render it into a surface of the reported size inside a sentinel canvas, log the read-back
fn run_text(id: u64, cells: &[Gen], width: usize, wraps: bool, glyphs: bool, ctx: &ViewContext, out: &mut Out) {
    let descs: Vec<Value> = cells.iter().map(|g| g.desc.clone()).collect();
    let res = guarded(|| {
        let mut text = Text::new();
        text.set_wraps(wraps);
        for g in cells {
            text.put_cell(g.cell.clone());
        }
        let mut store = ViewLayoutStore::new();
        let layout = text.layout_new(ctx, BoxConstraint::loose(Size::new(1000, width)), &mut store).unwrap();
        let size = layout.size();
        // canvas with a sentinel border of 2 cells
        let mut canvas: SurfaceOwned<Cell> = SurfaceOwned::new_with(Size::new(size.height + 4, size.width + 4), |_| sentinel());
        {
            let mut view = canvas.view_mut(2..2 + size.height as i64, 2..2 + size.width as i64);
            // what is inside starts as the sentinel too, so that untouched cells are visible
            text.render(ctx, view.as_mut(), layout.view()).unwrap();
        }
        let s = sentinel();
        let mut read = Vec::new();
        let mut outside = 0;
        for row in 0..canvas.height() {
            for col in 0..canvas.width() {
                let c = canvas.get(Position::new(row, col)).unwrap();
                let inside = row >= 2 && row < 2 + size.height && col >= 2 && col < 2 + size.width;
                if inside {
                    let ix = index_of(c, &s);
                    if ix >= 1 {
                        read.push(ix);
                    }
                } else if c != &s {
                    outside += 1;
                }
            }
        }
        (read, outside, size)
    });
    match res {
        Ok((read, outside, size)) => out.rec(&json!({"id": id, "t": "text", "cells": descs, "width": width, "wraps": wraps, "glyphs": glyphs, "read": read, "outside": outside,
                                                      "size": [size.height, size.width], "runs": [], "panic": ""})),
        Err(m) => out.rec(&json!({"id": id, "t": "text", "cells": descs, "width": width, "wraps": wraps, "glyphs": glyphs, "read": [], "outside": 0, "size": [0, 0], "runs": [], "panic": m})),
    }
}

/// c09-drive --n N --seed S
pub fn drive(args: &[String]) {
    let n = arg_u64(args, "--n", 300) as usize;
    let seed = arg_u64(args, "--seed", 1);
    let mut rnd = Rng::new(seed ^ 0xc09);
    let mut out = Out::new();
    let mut id = 0u64;
    if args.iter().any(|a| a == "--vectors") {
        // TLC-generated small-scope vectors (spec/text/FlowGen.tla): {cells: kind codes, width, wraps, glyphs}
        let base = arg_u64(args, "--base", 0);
        for v in stdin_records() {
            let glyphs = v["glyphs"].as_bool().unwrap();
            let ctx = ctx_for(glyphs);
            let kinds: Vec<u64> = v["cells"].as_array().unwrap().iter().map(|k| k.as_u64().unwrap()).collect();
            let cells = cells_of_kinds(&kinds, ctx.pixels_per_cell());
            run_text(base + id, &cells, v["width"].as_u64().unwrap() as usize, v["wraps"].as_bool().unwrap(), glyphs, &ctx, &mut out);
            id += 1;
        }
        return;
    }
    // ---- Text laid out and rendered into a surface of its own reported size
    for round in 0..n {
        let glyphs = round % 2 == 0;
        let wraps = round % 3 != 0;
        let width = 1 + rnd.below(12);
        let ctx = ctx_for(glyphs);
        let ncells = 1 + rnd.below(24);
        let cells = gen_cells(&mut rnd, ncells, ctx.pixels_per_cell());
        run_text(id, &cells, width, wraps, glyphs, &ctx, &mut out);
        id += 1;
    }
    // ---- writer adapters under chunkings, into sub-views of a sentinel canvas
    let pieces: [&[u8]; 14] = [b"a", b"xyz", "é".as_bytes(), "日本".as_bytes(), "🤩".as_bytes(), b"\n", b"\t", b"\r", b" ", "\u{200b}".as_bytes(),
                               b"\x1b[1m", b"\x1b[38;2;10;20;30m", b"\x1b[0;4:3;48;5;196m", b"\x1b[m"];
    for round in 0..n {
        let adapter = ["writer", "utf8", "tty"][round % 3];
        let shape = ["plain", "offset", "strided", "transposed"][(round / 3) % 4];
        let wraps = round % 5 != 0;
        let mut bytes: Vec<u8> = Vec::new();
        for _ in 0..1 + rnd.below(14) {
            let p: &&[u8] = rnd.pick(&pieces[..if adapter == "tty" { 14 } else { 10 }]);
            bytes.extend_from_slice(p);
        }
        let (ch, cw) = (3 + rnd.below(5), 4 + rnd.below(9));
        let ctx = ctx_for(true);
        let res = guarded(|| {
            let mut runs = Vec::new();
            for name in ["whole", "bytes", "two", "three", "random"] {
                let sizes = chunking(name, bytes.len(), &mut rnd);
                let mut canvas: SurfaceOwned<Cell> = SurfaceOwned::new_with(Size::new(ch + 4, cw + 4), |_| sentinel());
                let window: Vec<(usize, usize)>;
                {
                    let mut view = match shape {
                        "plain" => canvas.view_mut(.., ..),
                        "offset" => canvas.view_mut(2..-2, 2..-2),
                        "strided" => canvas.view_mut(1.., 3..-1),
                        _ => canvas.view_mut(2..-2, 1..-2),
                    };
                    let mut write_all = |w: &mut dyn Write| {
                        let mut off = 0;
                        for s in &sizes {
                            // io::Write contract: loop until the piece is consumed
                            let mut piece = &bytes[off..off + s];
                            let mut guard = 0;
                            while !piece.is_empty() {
                                let k = w.write(piece).unwrap_or(piece.len());
                                piece = &piece[k.max(1).min(piece.len())..];
                                guard += 1;
                                assert!(guard < 10_000, "write made no progress");
                            }
                            off += s;
                        }
                    };
                    if shape == "transposed" {
                        let mut tv = view.as_mut().transpose();
                        match adapter {
                            "writer" => write_all(&mut tv.writer(&ctx).with_wraps(wraps)),
                            "utf8" => write_all(&mut tv.writer(&ctx).with_wraps(wraps).utf8_writer()),
                            _ => write_all(&mut tv.writer(&ctx).with_wraps(wraps).tty_writer()),
                        }
                    } else {
                        match adapter {
                            "writer" => write_all(&mut view.writer(&ctx).with_wraps(wraps)),
                            "utf8" => write_all(&mut view.writer(&ctx).with_wraps(wraps).utf8_writer()),
                            _ => write_all(&mut view.writer(&ctx).with_wraps(wraps).tty_writer()),
                        }
                    }
                    let (h, w) = (ch + 4, cw + 4);
                    window = match shape {
                        "plain" => (0..h).flat_map(|r| (0..w).map(move |c| (r, c))).collect(),
                        "offset" => (2..h - 2).flat_map(|r| (2..w - 2).map(move |c| (r, c))).collect(),
                        "strided" => (1..h).flat_map(|r| (3..w - 1).map(move |c| (r, c))).collect(),
                        _ => (2..h - 2).flat_map(|r| (1..w - 2).map(move |c| (r, c))).collect(),
                    };
                }
                let s = sentinel();
                let mut outside = 0;
                for row in 0..canvas.height() {
                    for col in 0..canvas.width() {
                        if !window.contains(&(row, col)) && canvas.get(Position::new(row, col)).unwrap() != &s {
                            outside += 1;
                        }
                    }
                }
                runs.push(json!({"chunks": sizes, "canvas": canvas_ids(&canvas), "outside": outside}));
            }
            runs
        });
        match res {
            Ok(runs) => out.rec(&json!({"id": id, "t": "writer", "adapter": adapter, "shape": shape, "wraps": wraps, "bytes": bytes, "runs": runs, "cells": [], "read": [], "outside": 0,
                                        "width": 0, "glyphs": true, "size": [0, 0], "panic": ""})),
            Err(m) => out.rec(&json!({"id": id, "t": "writer", "adapter": adapter, "shape": shape, "wraps": wraps, "bytes": bytes, "runs": [], "cells": [], "read": [], "outside": 0,
                                      "width": 0, "glyphs": true, "size": [0, 0], "panic": m})),
        }
        id += 1;
    }
}
