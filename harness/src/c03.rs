//! C03 (and the corpus generator shared with C02): chunk independence and
//! leftmost-longest tokenisation of the incremental decoder.
use crate::util::*;
use serde_json::{json, Value};
use surf_n_term::automata::NFA;
use surf_n_term::decoder::verif::{command_dfa_trace, event_dfa_trace, Tokenizer};
use surf_n_term::decoder::{Decoder, TTYCommandDecoder, TTYEventDecoder};
use surf_n_term::{TerminalCommand, TerminalEvent};

pub fn bytes_of(v: &Value) -> Vec<u8> {
    v.as_array().unwrap().iter().map(|x| x.as_u64().unwrap() as u8).collect()
}

fn pat(bytes: &[u8], id: usize) -> NFA<usize> {
    NFA::sequence(bytes.iter().map(|b| {
        let b = *b;
        NFA::predicate(move |x| x == b)
    }))
    .tag_stop_state(id)
}

/// chunk sizes for a given chunking name
pub fn chunking(name: &str, n: usize, rnd: &mut Rng) -> Vec<usize> {
    let mut sizes = Vec::new();
    let mut left = n;
    match name {
        "whole" => sizes.push(n),
        "bytes" => sizes.extend(std::iter::repeat(1).take(n)),
        "two" | "three" => {
            let k = if name == "two" { 2 } else { 3 };
            while left > 0 {
                let c = k.min(left);
                sizes.push(c);
                left -= c;
            }
        }
        _ => {
            // seeded random split with empty reads sprinkled in
            while left > 0 {
                if rnd.chance(1, 5) {
                    sizes.push(0);
                }
                let c = 1 + rnd.below(left.min(7));
                sizes.push(c);
                left -= c;
            }
            sizes.push(0);
        }
    }
    sizes
}

/// c03-tok: tokeniser core over generated pattern sets (hook 1)
pub fn tok(args: &[String]) {
    let seed = arg_u64(args, "--seed", 1);
    let mut out = Out::new();
    let mut rnd = Rng::new(seed ^ 0x70c);
    for (id, v) in stdin_records().enumerate() {
        let pats: Vec<Vec<u8>> = v["pats"].as_array().unwrap().iter().map(bytes_of).collect();
        let input = bytes_of(&v["input"]);
        let mut runs = Vec::new();
        for name in ["whole", "bytes", "two", "three", "random"] {
            let sizes = chunking(name, input.len(), &mut rnd);
            let res = guarded(|| {
                let mut tk = Tokenizer::new(pats.iter().enumerate().map(|(i, p)| pat(p, i)));
                let mut got: Vec<Value> = Vec::new();
                let mut off = 0;
                for s in &sizes {
                    for t in tk.feed(&input[off..off + s]) {
                        match t {
                            Ok(id) => got.push(json!([1, pats[id]])),
                            Err(raw) => got.push(json!([0, raw])),
                        }
                    }
                    off += s;
                }
                // once the input is exhausted nothing more is available
                let tail = tk.feed(&[]).len();
                (got, tail)
            });
            match res {
                Ok((got, tail)) => runs.push(json!({"chunks": sizes, "got": got, "tail": tail, "panic": false})),
                Err(_) => runs.push(json!({"chunks": sizes, "got": [], "tail": 0, "panic": true})),
            }
        }
        out.rec(&json!({"id": id, "pats": v["pats"], "input": v["input"], "runs": runs}));
    }
}

// ---------------------------------------------------------------------------
// corpus of protocol-shaped and hostile inputs
// ---------------------------------------------------------------------------
pub fn fragments() -> Vec<Vec<u8>> {
    let mut f: Vec<Vec<u8>> = Vec::new();
    let s = |x: &str| x.as_bytes().to_vec();
    // introducers and terminators
    for x in ["\x1b", "\x1b[", "\x1bO", "\x1b]", "\x1bP", "\x1b_", "\x1b\\", "\x07", "\x1b[?", "\x1b[<", "\x1b[>", "\x1b[="] {
        f.push(s(x));
    }
    // parameter strings
    for x in ["", "0", "1", "2", "9", "10", "15", "38", "48", "58", "200", "201", "255", "256", "2004", "65535", "65536", "4294967296",
              "99999999999999999999", "9999999999999999999999999999999999999999", ";", ":", ";;", "1;", ";1", "1;2", "0;0", "1:2", "?", "5;", "2;"] {
        f.push(s(x));
    }
    // final bytes used by the grammars and neighbours
    for x in ["A", "B", "C", "D", "F", "H", "P", "Q", "R", "S", "Z", "M", "m", "t", "u", "c", "n", "y", "$y", "~", "r", "+r", "1+r", "0+r", "$r", "1$r", "G", "q", "=", "/", "#"] {
        f.push(s(x));
    }
    // complete sequences of each family
    for x in ["\x1b[A", "\x1b[1;5A", "\x1bOP", "\x1b[15~", "\x1b[15;2~", "\x1b[200~", "\x1b[201~", "\x1b[12;34R", "\x1b[1;5R", "\x1b[<0;1;1M", "\x1b[<35;10;20m",
              "\x1b[?2026;2$y", "\x1b[?62;4c", "\x1b[97u", "\x1b[97;5u", "\x1b[97:65;5:2u", "\x1b[?1u", "\x1b[4;10;20t", "\x1b[8;24;80t",
              "\x1b]11;rgb:ff/00/7f\x1b\\", "\x1b]4;1;#aabbcc\x07", "\x1bP1+r544e=787465726d\x1b\\", "\x1bP0+r\x1b\\", "\x1bP1$r0;1m\x1b\\",
              "\x1b_Gi=31;OK\x1b\\", "\x1b_Gi=1,p=2;ENOENT:x\x1b\\", "\x1b[0m", "\x1b[1;3;4m", "\x1b[38;5;196m", "\x1b[38;2;1;2;3m", "\x1b[38:2:1:2:3m", "\x1b[4:3m", "\x1b[58:2::1:2:3m", "\x1b[m",
              // complete for the automaton but refused by the payload decoder: one Raw token each
              "\x1b[0;0R", "\x1b[0;7R", "\x1b[<0;0;0M", "\x1b[<0;3;0m", "\x1b[97;1:3u", "\x1b]52;c;aGk=\x1b\\", "\x1bP0$r\x1b\\", "\x1b_Gi=abc;OK\x1b\\", "\x1b[?25;9$y",
              "\x1b[99999999999999999999;1R", "\x1b[38;5;300m",
              "\x1ba", "\x1b\x1b", "\x7f", "\r", "\t", "\x00", "\x01", "\x1a", " ", "a", "Z", "~"] {
        f.push(s(x));
    }
    // UTF-8 pieces: valid, overlong, surrogate, out of range, truncated, stray continuation
    for x in [&[0xC3u8, 0xA9][..], &[0xE2, 0x82, 0xAC], &[0xF0, 0x9F, 0x98, 0x80], &[0xC0, 0x80], &[0xC1, 0xBF], &[0xE0, 0x80, 0x80], &[0xE0, 0x9F, 0xBF],
              &[0xF0, 0x80, 0x80, 0x80], &[0xF0, 0x8F, 0xBF, 0xBF], &[0xED, 0xA0, 0x80], &[0xED, 0xBF, 0xBF], &[0xF4, 0x90, 0x80, 0x80], &[0xF4, 0x8F, 0xBF, 0xBF],
              &[0xF5, 0x80, 0x80, 0x80], &[0xFF], &[0xFE], &[0x80], &[0xBF], &[0xC3], &[0xE2, 0x82], &[0xF0, 0x9F], &[0xF0, 0x9F, 0x98], &[0xEF, 0xBF, 0xBD], &[0xEE, 0x80, 0x80]] {
        f.push(x.to_vec());
    }
    f
}

pub fn random_input(rnd: &mut Rng, frags: &[Vec<u8>], maxlen: usize) -> Vec<u8> {
    let mut v = Vec::new();
    let k = 1 + rnd.below(6);
    for _ in 0..k {
        match rnd.below(10) {
            0 => {
                for _ in 0..1 + rnd.below(4) {
                    v.push(rnd.below(256) as u8);
                }
            }
            _ => { let f: &Vec<u8> = rnd.pick(frags); v.extend_from_slice(f) }
        }
    }
    v.truncate(maxlen);
    v
}

/// c03-gen --n N --seed S --maxlen L: seeded corpus {id, dec, input}
pub fn corpus(args: &[String]) {
    let n = arg_u64(args, "--n", 1000) as usize;
    let seed = arg_u64(args, "--seed", 1);
    let maxlen = arg_u64(args, "--maxlen", 48) as usize;
    let frags = fragments();
    let mut rnd = Rng::new(seed ^ 0xc03);
    let mut out = Out::new();
    // every single fragment and every ordered pair of "sequence-like" fragments first
    let mut id = 0u64;
    for fr in &frags {
        for dec in ["event", "command"] {
            out.rec(&json!({"id": id, "dec": dec, "input": fr}));
            id += 1;
        }
    }
    while (id as usize) < n {
        let input = random_input(&mut rnd, &frags, maxlen);
        let dec = if rnd.chance(1, 4) { "command" } else { "event" };
        out.rec(&json!({"id": id, "dec": dec, "input": input}));
        id += 1;
    }
}

pub fn ev_desc(e: &TerminalEvent) -> Value {
    match e {
        TerminalEvent::Raw(b) => json!({"k": "raw", "d": "", "b": b}),
        other => json!({"k": "ev", "d": format!("{:?}", other), "b": []}),
    }
}
pub fn cmd_desc(c: &TerminalCommand) -> Value {
    match c {
        TerminalCommand::Raw(b) => json!({"k": "raw", "d": "", "b": b}),
        other => json!({"k": "ev", "d": format!("{:?}", other), "b": []}),
    }
}

/// decode `input` cut into `sizes`; returns event descriptors and the number of
/// items a further decode call on an empty buffer yields
pub fn decode_chunks(dec: &str, input: &[u8], sizes: &[usize]) -> (Vec<Value>, usize) {
    let mut got = Vec::new();
    let mut off = 0;
    if dec == "event" {
        let mut d = TTYEventDecoder::new();
        let mut evs = Vec::new();
        for s in sizes {
            d.decode_into(&input[off..off + s], &mut evs).unwrap();
            off += s;
        }
        got.extend(evs.iter().map(ev_desc));
        let mut more = Vec::new();
        d.decode_into(&[][..], &mut more).unwrap();
        (got, more.len())
    } else {
        let mut d = TTYCommandDecoder::new();
        let mut evs = Vec::new();
        for s in sizes {
            d.decode_into(&input[off..off + s], &mut evs).unwrap();
            off += s;
        }
        got.extend(evs.iter().map(cmd_desc));
        let mut more = Vec::new();
        d.decode_into(&[][..], &mut more).unwrap();
        (got, more.len())
    }
}

/// the whole stream behind ONE buffered reader whose internal buffer is smaller than most sequences (several
/// non-empty fills may happen within one decode call); decode until nothing is left
pub fn decode_reader(dec: &str, input: &[u8], cap: usize) -> (Vec<Value>, usize) {
    use std::io::BufRead;
    let mut r = std::io::BufReader::with_capacity(cap, std::io::Cursor::new(input.to_vec()));
    let mut got = Vec::new();
    let mut guard = 0usize;
    if dec == "event" {
        let mut d = TTYEventDecoder::new();
        loop {
            guard += 1;
            assert!(guard < 1_000_000, "decoder does not terminate");
            match d.decode(&mut r).unwrap() {
                Some(e) => got.push(ev_desc(&e)),
                None => {
                    if r.fill_buf().unwrap().is_empty() {
                        break;
                    }
                }
            }
        }
        let mut more = Vec::new();
        d.decode_into(&[][..], &mut more).unwrap();
        (got, more.len())
    } else {
        let mut d = TTYCommandDecoder::new();
        loop {
            guard += 1;
            assert!(guard < 1_000_000, "decoder does not terminate");
            match d.decode(&mut r).unwrap() {
                Some(e) => got.push(cmd_desc(&e)),
                None => {
                    if r.fill_buf().unwrap().is_empty() {
                        break;
                    }
                }
            }
        }
        let mut more = Vec::new();
        d.decode_into(&[][..], &mut more).unwrap();
        (got, more.len())
    }
}

/// c03-prod: production automata (hook 2).  One output line per input line.
pub fn prod(args: &[String]) {
    let seed = arg_u64(args, "--seed", 1);
    let mut out = Out::new();
    for v in stdin_records() {
        let id = v["id"].as_u64().unwrap();
        let dec = v["dec"].as_str().unwrap().to_string();
        let input = bytes_of(&v["input"]);
        let n = input.len();
        let mut rnd = Rng::new(seed ^ id.wrapping_mul(0x9E37));
        let res = guarded(|| {
            // acceptance table: for every offset, viable length and accepting / terminal lengths
            let mut table = Vec::new();
            let mut slices = Vec::new();
            for s in 0..n {
                let tr = if dec == "event" { event_dfa_trace(&input[s..]) } else { command_dfa_trace(&input[s..]) };
                let v = tr.iter().take_while(|t| t.0).count();
                let acc: Vec<usize> = (1..=v).filter(|j| tr[j - 1].1).collect();
                let term: Vec<usize> = (1..=v).filter(|j| tr[j - 1].2).collect();
                for j in &acc {
                    let slice = &input[s..s + j];
                    let evs = if term.contains(j) {
                        decode_chunks(&dec, slice, &[*j]).0
                    } else {
                        // accepting but extensible: a fresh decoder keeps it pending; force the
                        // emission with a byte on which the automaton dies and keep the first event
                        let mut forced = Vec::new();
                        for b in 0..=255u8 {
                            let mut ext = slice.to_vec();
                            ext.push(b);
                            let tr2 = if dec == "event" { event_dfa_trace(&ext) } else { command_dfa_trace(&ext) };
                            if !tr2[ext.len() - 1].0 {
                                let n2 = ext.len();
                                forced = decode_chunks(&dec, &ext, &[n2]).0;
                                forced.truncate(1);
                                break;
                            }
                        }
                        forced
                    };
                    slices.push(json!({"s": s + 1, "e": s + j, "ev": evs}));
                }
                table.push(json!({"v": v, "acc": acc, "term": term}));
            }
            let mut runs = Vec::new();
            for name in ["whole", "bytes", "three", "random"] {
                let sizes = chunking(name, n, &mut rnd);
                let (got, tail) = decode_chunks(&dec, &input, &sizes);
                runs.push(json!({"chunks": sizes, "got": got, "tail": tail}));
            }
            for cap in [2usize, 5] {
                let (got, tail) = decode_reader(&dec, &input, cap);
                runs.push(json!({"chunks": [cap], "reader": "BufReader", "got": got, "tail": tail}));
            }
            (table, slices, runs)
        });
        match res {
            Ok((table, slices, runs)) => out.rec(&json!({"id": id, "dec": dec, "input": input, "outcome": "ok", "table": table, "slices": slices, "runs": runs})),
            Err(m) => out.rec(&json!({"id": id, "dec": dec, "input": input, "outcome": "panic", "msg": m, "table": [], "slices": [], "runs": []})),
        }
    }
}

/// c03-long: recognised sequences far longer than any internal buffer (bracketed paste, kitty response, OSC reply of
/// 5 000 .. 70 000 bytes) between ordinary keys, decoded whole, in 1024-byte reads (what the terminal loop uses), in
/// 100-byte reads, byte-wise (shorter ones) and through a buffered reader: the events must not depend on the cut.
pub fn long(args: &[String]) {
    let seed = arg_u64(args, "--seed", 1);
    let mut rnd = Rng::new(seed ^ 0xc03);
    let mut out = Out::new();
    let mut id = 0u64;
    for k in 0..6usize {
        let n = [4097usize, 5000, 6000, 9000, 20000, 70000][k] + rnd.below(50);
        let body: Vec<u8> = (0..n).map(|i| b'a' + ((i * 7 + k) % 26) as u8).collect();
        let cases: Vec<(&str, Vec<u8>, usize)> = vec![
            ("paste", [b"x\x1b[200~".to_vec(), body.clone(), b"\x1b[201~y\x1b[A".to_vec()].concat(), 4),
            ("kitty", [b"x\x1b_Gi=31;".to_vec(), body.clone(), b"\x1b\\y".to_vec()].concat(), 3),
            ("termcap", [b"\x1bP1+r544e=".to_vec(), body.iter().flat_map(|b| [b"0123456789abcdef"[(*b / 16) as usize], b"0123456789abcdef"[(*b % 16) as usize]]).collect::<Vec<u8>>(), b"\x1b\\z".to_vec()].concat(), 2),
        ];
        for (kind, input, expected) in cases {
            let res = guarded(|| {
                let mut runs = Vec::new();
                let mut sizes_list: Vec<(String, Vec<usize>)> = vec![("whole".into(), vec![input.len()])];
                for c in [1024usize, 100, 4096, 4095] {
                    let mut v = vec![c; input.len() / c];
                    if input.len() % c != 0 {
                        v.push(input.len() % c);
                    }
                    sizes_list.push((format!("{c}"), v));
                }
                if input.len() < 10000 {
                    sizes_list.push(("bytes".into(), vec![1; input.len()]));
                }
                let digest = |got: &Vec<Value>| -> Vec<String> {
                    got.iter().map(|e| { let d = e["d"].as_str().unwrap_or(""); format!("{}:{}:{}", e["k"].as_str().unwrap_or(""), d.len() + e["b"].as_array().map(|b| b.len()).unwrap_or(0), &d[..d.len().min(24)]) }).collect()
                };
                for (name, sizes) in sizes_list {
                    let (got, tail) = decode_chunks("event", &input, &sizes);
                    runs.push(json!({"cut": name, "digest": digest(&got), "tail": tail}));
                }
                let (got, tail) = decode_reader("event", &input, 1024);
                runs.push(json!({"cut": "BufReader(1024)", "digest": digest(&got), "tail": tail}));
                runs
            });
            match res {
                Ok(runs) => out.rec(&json!({"id": id, "kind": kind, "n": input.len(), "expected": expected, "runs": runs, "panic": ""})),
                Err(m) => out.rec(&json!({"id": id, "kind": kind, "n": input.len(), "expected": expected, "runs": [], "panic": m})),
            }
            id += 1;
        }
    }
}
