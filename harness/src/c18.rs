//! C18: KeyMap / KeyMapHandler against registration histories, and the parsers.
use crate::util::*;
use serde_json::{json, Value};
use std::str::FromStr;
use surf_n_term::keys::KeyMapResult;
use surf_n_term::{Key, KeyChord, KeyMap, KeyMapHandler, KeyMod, KeyName};

/// which concrete keys stand for the abstract keys 1..4 (chosen per history): the second palette makes keys 1 / 4 and
/// 3 / 2 differ ONLY in a lock modifier, as the kitty keyboard protocol reports them
static PALETTE: std::sync::atomic::AtomicUsize = std::sync::atomic::AtomicUsize::new(0);
fn key(k: u64) -> Key {
    if PALETTE.load(std::sync::atomic::Ordering::Relaxed) == 1 {
        return match k {
            1 => Key::new(KeyName::Char('a'), KeyMod::CAPSLOCK),
            2 => Key::new(KeyName::F(5), KeyMod::EMPTY),
            3 => Key::new(KeyName::F(5), KeyMod::NUMLOCK),
            _ => Key::new(KeyName::Char('a'), KeyMod::EMPTY),
        };
    }
    match k {
        1 => Key::new(KeyName::Char('a'), KeyMod::EMPTY),
        2 => Key::new(KeyName::Char('x'), KeyMod::CTRL),
        3 => Key::new(KeyName::F(5), KeyMod::EMPTY),
        _ => Key::new(KeyName::Esc, KeyMod::ALT),
    }
}
fn unkey(k: &Key) -> u64 {
    (1..=4).find(|i| key(*i) == *k).unwrap_or(0)
}
fn chord(v: &Value) -> Vec<Key> {
    v.as_array().unwrap().iter().map(|k| key(k.as_u64().unwrap())).collect()
}

fn all_seqs(keys: u64, maxlen: usize) -> Vec<Vec<u64>> {
    let mut out: Vec<Vec<u64>> = vec![];
    let mut last: Vec<Vec<u64>> = vec![vec![]];
    for _ in 0..maxlen {
        let mut next = vec![];
        for s in &last {
            for k in 1..=keys {
                let mut x = s.clone();
                x.push(k);
                next.push(x);
            }
        }
        out.extend(next.iter().cloned());
        last = next;
    }
    out
}

fn enumerate(m: &KeyMap<usize>) -> Vec<Value> {
    let mut out = vec![];
    m.for_each(|c, v| out.push(json!([c.iter().map(unkey).collect::<Vec<_>>(), v])));
    out
}

/// c18-replay --keys K --maxlen L --feedlen F : registration histories from stdin
pub fn replay(args: &[String]) {
    let nkeys = arg_u64(args, "--keys", 2);
    let maxlen = arg_u64(args, "--maxlen", 3) as usize;
    let feedlen = arg_u64(args, "--feedlen", 4) as usize;
    let base = arg_u64(args, "--base", 0) as usize;
    // lookups and fed keys use one key more than the registrations (an unbound / foreign key)
    let lookups = all_seqs(nkeys + 1, maxlen + 1);
    let feeds = all_seqs(nkeys + 1, feedlen);
    let mut out = Out::new();
    for (id, v) in stdin_records().enumerate() {
        let id = id + base;
        PALETTE.store(id % 2, std::sync::atomic::Ordering::Relaxed);
        let regs: Vec<Vec<Key>> = v["regs"].as_array().unwrap().iter().map(chord).collect();
        let split = regs.len() / 2;
        let res = guarded(|| {
            let mut m: KeyMap<usize> = KeyMap::new();
            for (i, c) in regs.iter().enumerate() {
                m.register(c, i + 1);
            }
            let en = enumerate(&m);
            let lk: Vec<Value> = lookups
                .iter()
                .map(|c| {
                    let ck: Vec<Key> = c.iter().map(|k| key(*k)).collect();
                    match m.lookup(&ck) {
                        KeyMapResult::Success(v) => json!([c, "S", v]),
                        KeyMapResult::Continue => json!([c, "C", 0]),
                        KeyMapResult::Failure => json!([c, "F", 0]),
                    }
                })
                .collect();
            // override merging: first half into a, second half into b, a.register_override(&b)
            let mut a: KeyMap<usize> = KeyMap::new();
            let mut b: KeyMap<usize> = KeyMap::new();
            for (i, c) in regs.iter().enumerate() {
                if i < split {
                    a.register(c, i + 1);
                } else {
                    b.register(c, i + 1);
                }
            }
            a.register_override(&b);
            let ov = enumerate(&a);
            // stateful matcher on every key sequence, through lookup_state and through KeyMapHandler
            let fd: Vec<Value> = feeds
                .iter()
                .map(|seq| {
                    let mut st = Vec::new();
                    let mut h: KeyMapHandler<usize> = KeyMapHandler::new();
                    for (i, c) in regs.iter().enumerate() {
                        h.register(c, i + 1);
                    }
                    let fired: Vec<usize> = seq
                        .iter()
                        .map(|k| {
                            let f1 = m.lookup_state(&mut st, key(*k)).copied().unwrap_or(0);
                            let f2 = h.handle(key(*k)).copied().unwrap_or(0);
                            assert!(f1 == f2, "KeyMapHandler::handle disagrees with KeyMap::lookup_state");
                            f1
                        })
                        .collect();
                    json!([seq, fired])
                })
                .collect();
            (en, lk, ov, fd)
        });
        match res {
            Ok((en, lk, ov, fd)) => out.rec(&json!({"id": id, "kind": "map", "regs": v["regs"], "split": split, "enum": en, "lookups": lk, "ovenum": ov, "feeds": fd, "panic": ""})),
            Err(m) => out.rec(&json!({"id": id, "kind": "map", "regs": v["regs"], "split": split, "enum": [], "lookups": [], "ovenum": [], "feeds": [], "panic": m})),
        }
    }
}

/// c18-parse: parser vectors {kind, mode, text, exptext, expname, expbits}
pub fn parse(args: &[String]) {
    let base = arg_u64(args, "--base", 1_000_000);
    let seed = arg_u64(args, "--seed", 1);
    let mut out = Out::new();
    let mut recs: Vec<Value> = stdin_records().collect();
    // seeded non-ASCII / odd strings in addition to the TLC-generated ones
    let mut rnd = Rng::new(seed ^ 0xc18);
    let pool = ["é", "🤩", "ｆ1", "Ｆ", "f", "1", "+", " ", "ctrl", "ß", "İ", "\u{0}", "\"", "a", "\t", "shift", "F", "999"];
    for _ in 0..400 {
        let mut s = String::new();
        for _ in 0..1 + rnd.below(4) {
            let t: &&str = rnd.pick(&pool[..]); s.push_str(t);
        }
        recs.push(json!({"kind": "chord", "mode": "free", "text": s, "exptext": "", "expname": "", "expbits": 0}));
    }
    for (i, v) in recs.into_iter().enumerate() {
        let text = v["text"].as_str().unwrap().to_string();
        let kind = v["kind"].as_str().unwrap().to_string();
        let res = guarded(|| {
            if kind == "key" {
                match Key::from_str(&text) {
                    Ok(k) => {
                        let disp = k.to_string();
                        let rt = Key::from_str(&disp).ok() == Some(k);
                        (true, format!("{:?}", k.name), bits_of(k.mode), disp, rt)
                    }
                    Err(_) => (false, String::new(), 0, String::new(), true),
                }
            } else {
                match KeyChord::from_str(&text) {
                    Ok(c) => {
                        let disp = c.to_string();
                        let rt = KeyChord::from_str(&disp).ok().as_ref() == Some(&c);
                        // the serialised (serde) form must round trip as well
                        let js = serde_json::to_value(&c).unwrap();
                        let rt2 = serde_json::from_value::<KeyChord>(js).ok().as_ref() == Some(&c);
                        (true, String::new(), 0, disp, rt && rt2)
                    }
                    Err(_) => (false, String::new(), 0, String::new(), true),
                }
            }
        });
        let mut o = v.as_object().unwrap().clone();
        o.insert("id".into(), json!(base + i as u64));
        match res {
            Ok((ok, name, bits, disp, rt)) => {
                o.insert("ok".into(), json!(ok));
                o.insert("name".into(), json!(name));
                o.insert("bits".into(), json!(bits));
                o.insert("display".into(), json!(disp));
                o.insert("roundtrip".into(), json!(rt));
                o.insert("panic".into(), json!(""));
            }
            Err(m) => {
                o.insert("ok".into(), json!(false));
                o.insert("name".into(), json!(""));
                o.insert("bits".into(), json!(0));
                o.insert("display".into(), json!(""));
                o.insert("roundtrip".into(), json!(true));
                o.insert("panic".into(), json!(m));
            }
        }
        out.rec(&Value::Object(o));
    }
}

fn bits_of(m: KeyMod) -> u32 {
    let mut b = 0;
    for (flag, v) in [
        (KeyMod::SHIFT, 1), (KeyMod::ALT, 2), (KeyMod::CTRL, 4), (KeyMod::SUPER, 8), (KeyMod::HYPER, 16), (KeyMod::META, 32),
        (KeyMod::CAPSLOCK, 64), (KeyMod::NUMLOCK, 128), (KeyMod::PRESS, 256),
    ] {
        if m.contains(flag) {
            b |= v;
        }
    }
    b
}
