//! Crash isolation: `snt-harness isolate <sub> [args]` feeds the ndjson records
//! on stdin to child processes `snt-harness <sub> [args]` (one output line per
//! input line, flushed).  If a child dies (abort, stack overflow) or stays
//! silent for too long, the record in flight gets an outcome line
//! {"id":..,"outcome":"abort"|"timeout", "input": <record>} and a new child
//! continues with the rest.  A crash is data, never a harness failure.
use serde_json::{json, Value};
use std::io::{BufRead, BufReader, Write};
use std::process::{Command, Stdio};
use std::sync::mpsc;
use std::time::Duration;

pub fn run(args: &[String]) {
    let sub = &args[0];
    let rest = &args[1..];
    let timeout = Duration::from_secs(std::env::var("SNT_REC_TIMEOUT").ok().and_then(|v| v.parse().ok()).unwrap_or(20));
    let stdin = std::io::stdin();
    let records: Vec<String> = stdin.lock().lines().map(|l| l.unwrap()).filter(|l| !l.trim().is_empty()).collect();
    let exe = std::env::current_exe().unwrap();
    let out = std::io::stdout();
    let mut out = std::io::BufWriter::new(out.lock());
    let mut next = 0usize;
    while next < records.len() {
        let mut child = Command::new(&exe)
            .arg(sub)
            .args(rest)
            .env("SNT_FLUSH", "1")
            .stdin(Stdio::piped())
            .stdout(Stdio::piped())
            .stderr(Stdio::null())
            .spawn()
            .expect("spawn worker");
        let mut cin = child.stdin.take().unwrap();
        let cout = child.stdout.take().unwrap();
        let batch: Vec<String> = records[next..].to_vec();
        let feeder = std::thread::spawn(move || {
            for r in batch {
                if cin.write_all(r.as_bytes()).is_err() || cin.write_all(b"\n").is_err() {
                    break;
                }
            }
        });
        let (tx, rx) = mpsc::channel::<String>();
        let reader = std::thread::spawn(move || {
            for line in BufReader::new(cout).lines() {
                match line {
                    Ok(l) => {
                        if tx.send(l).is_err() {
                            break;
                        }
                    }
                    Err(_) => break,
                }
            }
        });
        let mut outcome = "abort";
        loop {
            match rx.recv_timeout(timeout) {
                Ok(line) => {
                    out.write_all(line.as_bytes()).unwrap();
                    out.write_all(b"\n").unwrap();
                    next += 1;
                    if next >= records.len() {
                        break;
                    }
                }
                Err(mpsc::RecvTimeoutError::Timeout) => {
                    outcome = "timeout";
                    let _ = child.kill();
                    break;
                }
                Err(mpsc::RecvTimeoutError::Disconnected) => break,
            }
        }
        let _ = child.kill();
        let _ = child.wait();
        let _ = reader.join();
        let _ = feeder.join();
        if next < records.len() {
            // the record in flight killed the worker
            let rec: Value = serde_json::from_str(&records[next]).unwrap_or(Value::Null);
            let id = rec.get("id").cloned().unwrap_or(json!(next));
            let line = json!({"id": id, "outcome": outcome, "input": rec});
            out.write_all(line.to_string().as_bytes()).unwrap();
            out.write_all(b"\n").unwrap();
            next += 1;
        }
    }
    out.flush().unwrap();
}
