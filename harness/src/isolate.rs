//! Crash isolation: `snt-harness isolate <sub> [args]` feeds the ndjson records
//! on stdin to child processes `snt-harness <sub> [args]` (one output line per
//! input line, flushed).  If a child dies (abort, stack overflow) or stays
//! silent for too long, the record in flight gets an outcome line
//! {"id":..,"outcome":"abort"|"timeout", "input": <record>} and a new child
//! continues with the rest.  A crash is data, never a harness failure.
use serde_json::{json, Value};
use std::io::{BufRead, BufReader, Write};
use std::os::unix::process::CommandExt;
use std::process::{Command, Stdio};
use std::sync::mpsc;
use std::time::Duration;

/// workers may not take more than 8 GiB of address space: runaway allocation of the code under test is an abort, not an OOM of the machine
fn limit_memory(cmd: &mut Command) {
    unsafe {
        cmd.pre_exec(|| {
            let lim = libc::rlimit { rlim_cur: 8 << 30, rlim_max: 8 << 30 };
            libc::setrlimit(libc::RLIMIT_AS, &lim);
            Ok(())
        });
    }
}

pub fn run(args: &[String]) {
    let sub = &args[0];
    let rest = &args[1..];
    let timeout = Duration::from_secs(std::env::var("SNT_REC_TIMEOUT").ok().and_then(|v| v.parse().ok()).unwrap_or(20));
    let stdin = std::io::stdin();
    let records: Vec<String> = stdin.lock().lines().map(|l| l.unwrap()).filter(|l| !l.trim().is_empty()).collect();
    let exe = std::env::current_exe().unwrap();
    let out = std::io::stdout();
    let mut out = std::io::BufWriter::new(out.lock());
    let mut next = 0usize;
    while next < records.len() {
        let mut cmd = Command::new(&exe);
        cmd.arg(sub).args(rest).env("SNT_FLUSH", "1").stdin(Stdio::piped()).stdout(Stdio::piped()).stderr(Stdio::null());
        limit_memory(&mut cmd);
        let mut child = cmd.spawn().expect("spawn worker");
        let mut cin = child.stdin.take().unwrap();
        let cout = child.stdout.take().unwrap();
        let batch: Vec<String> = records[next..].to_vec();
        let feeder = std::thread::spawn(move || {
            for r in batch {
                if cin.write_all(r.as_bytes()).is_err() || cin.write_all(b"\n").is_err() {
                    break;
                }
            }
        });
        let (tx, rx) = mpsc::channel::<String>();
        let reader = std::thread::spawn(move || {
            for line in BufReader::new(cout).lines() {
                match line {
                    Ok(l) => {
                        if tx.send(l).is_err() {
                            break;
                        }
                    }
                    Err(_) => break,
                }
            }
        });
        let mut outcome = "abort";
        loop {
            match rx.recv_timeout(timeout) {
                Ok(line) => {
                    out.write_all(line.as_bytes()).unwrap();
                    out.write_all(b"\n").unwrap();
                    next += 1;
                    if next >= records.len() {
                        break;
                    }
                }
                Err(mpsc::RecvTimeoutError::Timeout) => {
                    outcome = "timeout";
                    let _ = child.kill();
                    break;
                }
                Err(mpsc::RecvTimeoutError::Disconnected) => break,
            }
        }
        let _ = child.kill();
        let _ = child.wait();
        let _ = reader.join();
        let _ = feeder.join();
        if next < records.len() && outcome == "timeout" && confirm_alone(&exe, sub, rest, &records[next], timeout * 4, &mut out) {
            // the machine was busy: alone and with four times the patience the record was answered
            next += 1;
            continue;
        }
        if next < records.len() {
            // the record in flight killed the worker
            let rec: Value = serde_json::from_str(&records[next]).unwrap_or(Value::Null);
            let id = rec.get("id").cloned().unwrap_or(json!(next));
            let line = json!({"id": id, "outcome": outcome, "input": rec});
            out.write_all(line.to_string().as_bytes()).unwrap();
            out.write_all(b"\n").unwrap();
            next += 1;
        }
    }
    out.flush().unwrap();
}

/// Re-run one record alone with a longer timeout; true (and the line is written) if it was answered.
fn confirm_alone(exe: &std::path::Path, sub: &str, rest: &[String], record: &str, timeout: Duration, out: &mut impl Write) -> bool {
    let mut cmd = Command::new(exe);
    cmd.arg(sub).args(rest).env("SNT_FLUSH", "1").stdin(Stdio::piped()).stdout(Stdio::piped()).stderr(Stdio::null());
    limit_memory(&mut cmd);
    let mut child = match cmd.spawn() {
        Ok(c) => c,
        Err(_) => return false,
    };
    let mut cin = child.stdin.take().unwrap();
    let cout = child.stdout.take().unwrap();
    let _ = cin.write_all(record.as_bytes());
    let _ = cin.write_all(b"\n");
    drop(cin);
    let (tx, rx) = mpsc::channel::<String>();
    let reader = std::thread::spawn(move || {
        if let Some(Ok(l)) = BufReader::new(cout).lines().next() {
            let _ = tx.send(l);
        }
    });
    let got = rx.recv_timeout(timeout).ok();
    let _ = child.kill();
    let _ = child.wait();
    let _ = reader.join();
    match got {
        Some(line) => {
            out.write_all(line.as_bytes()).unwrap();
            out.write_all(b"\n").unwrap();
            true
        }
        None => false,
    }
}
