//! C15: build expressions through the public NFA API, compile, walk the DFA.
use crate::util::*;
use serde_json::{json, Value};
use std::collections::BTreeSet;
use surf_n_term::automata::{DFA, NFA};

/// The combinators are n-ary in the library; the same expression is built along three routes:
/// 0 = binary calls, 1 = every operand wrapped in a one-alternative choice, 2 = nested seq / alt
/// flattened into one n-ary call and every operand wrapped in a one-element sequence.
fn build(e: &Value, map: &[u8], route: usize) -> NFA<usize> {
    let wrap = |n: NFA<usize>| match route {
        1 => NFA::choice([n]),
        2 => NFA::sequence([n]),
        _ => n,
    };
    fn flat<'a>(e: &'a Value, op: &str, out: &mut Vec<&'a Value>) {
        if e["op"].as_str() == Some(op) {
            flat(&e["a"], op, out);
            flat(&e["b"], op, out);
        } else {
            out.push(e);
        }
    }
    match e["op"].as_str().unwrap() {
        "lit" => {
            let bytes: Vec<u8> = e["s"].as_array().unwrap().iter().map(|x| map[x.as_u64().unwrap() as usize - 1]).collect();
            NFA::sequence(bytes.into_iter().map(|b| NFA::predicate(move |x| x == b)))
        }
        op @ ("seq" | "alt") => {
            let mut parts = Vec::new();
            if route == 2 {
                flat(e, op, &mut parts);
            } else {
                parts.push(&e["a"]);
                parts.push(&e["b"]);
            }
            let built: Vec<NFA<usize>> = parts.into_iter().map(|p| wrap(build(p, map, route))).collect();
            if op == "seq" { NFA::sequence(built) } else { NFA::choice(built) }
        }
        "opt" => wrap(build(&e["a"], map, route)).optional(),
        "some" => wrap(build(&e["a"], map, route)).some(),
        "many" => wrap(build(&e["a"], map, route)).many(),
        other => panic!("unknown op {other}"),
    }
}

fn strings(k: usize, n: usize) -> Vec<Vec<usize>> {
    let mut out = vec![vec![]];
    let mut last = vec![vec![]];
    for _ in 0..n {
        let mut next = Vec::new();
        for w in &last {
            for s in 1..=k {
                let mut x: Vec<usize> = w.clone();
                x.push(s);
                next.push(x);
            }
        }
        out.extend(next.iter().cloned());
        last = next;
    }
    out
}

fn walk(dfa: &DFA<usize>, map: &[u8], words: &[Vec<usize>]) -> (Vec<Value>, usize) {
    let mut res = Vec::new();
    let mut stray = 0usize;
    let mut seen = BTreeSet::new();
    for w in words {
        let mut state = Some(dfa.start());
        for s in w {
            state = state.and_then(|st| dfa.transition(st, map[*s - 1]));
        }
        match state {
            None => res.push(json!([w, 0, 0, 0, []])),
            Some(st) => {
                let info = dfa.info(st);
                // `matches` must agree with the manual walk
                let m = dfa.matches(w.iter().map(|s| map[*s - 1]));
                assert!(m == info.is_accepting, "matches() disagrees with transition()/info()");
                if seen.insert(format!("{:?}", st)) {
                    // totality: every byte can be asked; bytes outside the alphabet are dead
                    for b in 0..=255u8 {
                        let t = dfa.transition(st, b);
                        if !map.contains(&b) && t.is_some() {
                            stray += 1;
                        }
                    }
                }
                let tags: Vec<usize> = info.tags.iter().copied().collect();
                res.push(json!([w, 1, info.is_accepting as u8, info.is_terminal as u8, tags]));
            }
        }
    }
    (res, stray)
}

/// c15-replay --maxstr N : one output record per (vector, symbol mapping)
pub fn replay(args: &[String]) {
    let maxstr = arg_u64(args, "--maxstr", 4) as usize;
    let maps: [[u8; 2]; 3] = [[b'a', b'b'], [0x00, 0xff], [0xff, 0x7f]];
    let words = strings(2, maxstr);
    let mut out = Out::new();
    let mut id = 0u64;
    for v in stdin_records() {
        for (route, map) in maps.iter().enumerate() {
            let tagged = v["tagged"].as_bool().unwrap();
            let res = guarded(|| {
                let nested = v["nested"].as_bool().unwrap_or(false);
                let nfa = if nested {
                    NFA::sequence([NFA::choice([build(&v["e"], map, route).tag_stop_state(1usize), build(&v["f"], map, route).tag_stop_state(2usize)]), build(&v["g"], map, route)])
                } else if tagged {
                    NFA::choice([build(&v["e"], map, route).tag_stop_state(1usize), build(&v["f"], map, route).tag_stop_state(2usize)])
                } else {
                    build(&v["e"], map, route)
                };
                let dfa = nfa.compile();
                walk(&dfa, map, &words)
            });
            let rec = match res {
                Ok((res, stray)) => json!({"id": id, "e": v["e"], "f": v["f"], "g": v["g"], "nested": v["nested"], "tagged": tagged, "map": map, "route": route, "outcome": "ok", "stray": stray, "res": res}),
                Err(m) => json!({"id": id, "e": v["e"], "f": v["f"], "g": v["g"], "nested": v["nested"], "tagged": tagged, "map": map, "route": route, "outcome": format!("panic: {m}"), "stray": 0, "res": []}),
            };
            out.rec(&rec);
            id += 1;
        }
    }
}
