//! C15: build expressions through the public NFA API, compile, walk the DFA.
use crate::util::*;
use serde_json::{json, Value};
use std::collections::BTreeSet;
use surf_n_term::automata::{DFA, NFA};

/// The combinators are n-ary in the library; the same expression is built along three routes:
/// 0 = binary calls, 1 = every operand wrapped in a one-alternative choice, 2 = nested seq / alt
/// flattened into one n-ary call and every operand wrapped in a one-element sequence.
fn build(e: &Value, map: &[Vec<u8>], route: usize) -> NFA<usize> {
    let wrap = |n: NFA<usize>| match route {
        1 => NFA::choice([n]),
        2 => NFA::sequence([n]),
        _ => n,
    };
    fn flat<'a>(e: &'a Value, op: &str, out: &mut Vec<&'a Value>) {
        if e["op"].as_str() == Some(op) {
            flat(&e["a"], op, out);
            flat(&e["b"], op, out);
        } else {
            out.push(e);
        }
    }
    match e["op"].as_str().unwrap() {
        "lit" => {
            let bytes: Vec<u8> = e["s"].as_array().unwrap().iter().flat_map(|x| map[x.as_u64().unwrap() as usize - 1].clone()).collect();
            if route == 3 {
                // the string-literal combinator (symbols are characters here)
                NFA::from(std::str::from_utf8(&bytes).expect("route 3 maps symbols to characters"))
            } else {
                NFA::sequence(bytes.into_iter().map(|b| NFA::predicate(move |x| x == b)))
            }
        }
        op @ ("seq" | "alt") => {
            let mut parts = Vec::new();
            if route == 2 {
                flat(e, op, &mut parts);
            } else {
                parts.push(&e["a"]);
                parts.push(&e["b"]);
            }
            let built: Vec<NFA<usize>> = parts.into_iter().map(|p| wrap(build(p, map, route))).collect();
            if op == "seq" { NFA::sequence(built) } else { NFA::choice(built) }
        }
        "opt" => wrap(build(&e["a"], map, route)).optional(),
        "some" => wrap(build(&e["a"], map, route)).some(),
        "many" => wrap(build(&e["a"], map, route)).many(),
        other => panic!("unknown op {other}"),
    }
}

fn strings(k: usize, n: usize) -> Vec<Vec<usize>> {
    let mut out = vec![vec![]];
    let mut last = vec![vec![]];
    for _ in 0..n {
        let mut next = Vec::new();
        for w in &last {
            for s in 1..=k {
                let mut x: Vec<usize> = w.clone();
                x.push(s);
                next.push(x);
            }
        }
        out.extend(next.iter().cloned());
        last = next;
    }
    out
}

fn walk(dfa: &DFA<usize>, map: &[Vec<u8>], words: &[Vec<usize>]) -> (Vec<Value>, usize) {
    let mut res = Vec::new();
    let mut stray = 0usize;
    let mut seen = BTreeSet::new();
    let alphabet: BTreeSet<u8> = map.iter().flatten().copied().collect();
    for w in words {
        let bytes: Vec<u8> = w.iter().flat_map(|s| map[*s - 1].clone()).collect();
        let mut state = Some(dfa.start());
        for b in &bytes {
            state = state.and_then(|st| dfa.transition(st, *b));
        }
        // the multi-symbol entry points must agree with stepping
        let many = dfa.transition_many(dfa.start(), bytes.iter().copied());
        assert!(format!("{:?}", many) == format!("{:?}", state), "transition_many() disagrees with stepping through transition()");
        let m = dfa.matches(bytes.iter().copied());
        match state {
            None => {
                assert!(!m, "matches() accepts a string on which stepping dies");
                res.push(json!([w, 0, 0, 0, []]))
            }
            Some(st) => {
                let info = dfa.info(st);
                assert!(m == info.is_accepting, "matches() disagrees with transition()/info()");
                if seen.insert(format!("{:?}", st)) {
                    // totality: every byte can be asked; bytes outside the alphabet are dead
                    for b in 0..=255u8 {
                        let t = dfa.transition(st, b);
                        if !alphabet.contains(&b) && t.is_some() {
                            stray += 1;
                        }
                    }
                }
                let tags: Vec<usize> = info.tags.iter().copied().collect();
                res.push(json!([w, 1, info.is_accepting as u8, info.is_terminal as u8, tags]));
            }
        }
    }
    (res, stray)
}

/// c15-replay --maxstr N : one output record per (vector, symbol mapping)
pub fn replay(args: &[String]) {
    let maxstr = arg_u64(args, "--maxstr", 4) as usize;
    // symbol -> bytes: ASCII, the extreme bytes, and two-byte characters sharing their lead byte (route 3: string literals)
    let maps: [Vec<Vec<u8>>; 4] = [vec![vec![b'a'], vec![b'b']], vec![vec![0x00], vec![0xff]], vec![vec![0xff], vec![0x7f]], vec!["é".as_bytes().to_vec(), "ü".as_bytes().to_vec()]];
    let words = strings(2, maxstr);
    let mut out = Out::new();
    let mut id = 0u64;
    for v in stdin_records() {
        for (route, map) in maps.iter().enumerate() {
            let tagged = v["tagged"].as_bool().unwrap();
            let res = guarded(|| {
                let nested = v["nested"].as_bool().unwrap_or(false);
                let nfa = if nested {
                    NFA::sequence([NFA::choice([build(&v["e"], map, route).tag_stop_state(1usize), build(&v["f"], map, route).tag_stop_state(2usize)]), build(&v["g"], map, route)])
                } else if tagged {
                    NFA::choice([build(&v["e"], map, route).tag_stop_state(1usize), build(&v["f"], map, route).tag_stop_state(2usize)])
                } else {
                    build(&v["e"], map, route)
                };
                let dfa = nfa.compile();
                walk(&dfa, map, &words)
            });
            let rec = match res {
                Ok((res, stray)) => json!({"id": id, "e": v["e"], "f": v["f"], "g": v["g"], "nested": v["nested"], "tagged": tagged, "map": map, "route": route, "outcome": "ok", "stray": stray, "res": res}),
                Err(m) => json!({"id": id, "e": v["e"], "f": v["f"], "g": v["g"], "nested": v["nested"], "tagged": tagged, "map": map, "route": route, "outcome": format!("panic: {m}"), "stray": 0, "res": []}),
            };
            out.rec(&rec);
            id += 1;
        }
    }
}
