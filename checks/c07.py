"""C07: surface views are exact, non-aliasing windows onto their parent.

GEN  SurfaceGen: parents (incl. zero extents) x chains of <= 3 view/transpose
     steps with selectors of every form (exhaustive single steps over the
     sampled selector set, sampled longer chains; RandomSubset seeded by -seed).
RPL  c07-replay: every program over 4 ownership routes (owned nested, &,
     &mut, as_mut), all access operations, iter_mut addresses as parent offsets.
JDG  SurfaceJudge (Surface.tla + ViewBounds.tla).
"""
import json
from . import lib


def run(ctx):
    q = ctx.quick
    tier = "quick" if q else "thorough"
    vec = ctx.path("vec.ndjson")
    if ctx.replay:
        case = json.load(open(ctx.replay))["case"]
        lib.write_ndjson(vec, [{"hp": case["hp"], "wp": case["wp"], "chain": case["chain"]}])
    else:
        g = lib.tlc("surface/SurfaceGen", f"SurfaceGen.{tier}.cfg", env={"OUT": vec}, timeout=1800, heap="8g", seed=ctx.seed)
    rec = ctx.path("rec.ndjson")
    lib.harness(["c07-replay"], stdin=vec, stdout=rec, timeout=1800)
    recs = lib.read_ndjson(rec)
    verdicts, _ = lib.judge_sharded(ctx, "surface/SurfaceJudge", None, recs, "surf", nshards=lib.NCPU, timeout=3000)
    by = {r["id"]: r for r in recs}
    for v in verdicts:
        r = by[v["id"]]
        ctx.fail({"why": v["why"], "route": r["route"]}, f"parent {r['hp']}x{r['wp']} chain {show(r['chain'])} route {r['route']}: {v['why']} {r['panic']} (view {r['h']}x{r['w']} iter={r['iter'][:12]})",
                 {"hp": r["hp"], "wp": r["wp"], "chain": r["chain"]})
    progs = {(r["hp"], r["wp"], json.dumps(r["chain"])) for r in recs}
    nontrivial = {(r["hp"], r["wp"], json.dumps(r["chain"])) for r in recs if r["h"] * r["w"] > 0 and r["h"] * r["w"] < r["hp"] * r["wp"]}
    cov = {
        "evaluations": len(recs), "distinct_nontrivial": len(nontrivial), "programs": len(progs),
        "rule": "programs = parents {0x0,0x2,2x0,1x1,1x3,2x3,3x3,4x5} x chains of <= 3 view/transpose steps (TLC-generated); each over 4 ownership routes with every access operation; non-trivial = the chain selects a proper non-empty window",
        "samples": [{"parent": [r["hp"], r["wp"]], "chain": show(r["chain"]), "route": r["route"], "iter": r["iter"], "addrs": r["addrs"]} for r in recs[:: max(1, len(recs) // 3)][:3]],
    }
    return lib.finish(ctx, "exploration", cov,
                      ["memory safety of the unsafe block proper (aliasing UB) is outside this technique: the observable contract is judged - iter_mut hands out exactly the window cells' addresses, each once",
                       "set() outside the view is a documented contract violation (debug assertion) and is not exercised",
                       "selector resolution itself is C08's subject; Surface.tla reuses ViewBounds!Resolve"])


def show(chain):
    def s(x):
        f = x["form"]
        return {"idx": f"{x['a']}", "range": f"{x['a']}..{x['b']}", "from": f"{x['a']}..", "to": f"..{x['b']}", "incl": f"{x['a']}..={x['b']}", "toincl": f"..={x['b']}", "full": ".."}[f]
    return " ".join("T" if st["t"] == "tr" else f"view({s(st['rs'])},{s(st['cs'])})" for st in chain)
