"""C20: colours reduced for 256-colour and grey terminals are the closest ones.

DRV  c20-drive: the real TTYEncoder for Face fg / bg and FaceModify underline
     colour under EightBit, Gray and TrueColor depth.  quick: step-8 lattice in
     (r, g) with every b, all near-neutral colours, slabs around the cube
     midpoints; thorough: all 2^24 colours.
JDG  PaletteJudge (Palette256.tla): the emitted entry is not provably farther
     (linear-light metric, fixed point 2^14, rounding slack) than any of the
     240 entries; grey level nearest by luminance; true colour unchanged.
"""
import json
from . import lib


def run(ctx):
    if ctx.replay:
        ctx.regenerate()
    q = ctx.quick
    n = lib.NCPU
    jobs = [(["c20-drive", "--mode", "quick" if q else "all", "--shard", i, "--of", n], None, ctx.path("rec", f"rec.{i}.ndjson")) for i in range(n)]
    lib.harness_parallel(jobs, timeout=3400)
    runs = []
    outs = []
    total = 0
    colours = 0
    sample = None
    chosen = set()
    for i, (_, _, p) in enumerate(jobs):
        vp = ctx.path("judge", f"v.{i}.ndjson")
        runs.append(dict(module="vt/PaletteJudge", cfg=None, env={"TRACE": p, "OUT": vp}, timeout=3400, heap="3g"))
        outs.append((p, vp))
    lib.tlc_parallel(runs)
    for p, vp in outs:
        recs = {}
        with open(p) as f:
            for line in f:
                r = json.loads(line)
                total += 1
                colours += len(r["bs"])
                chosen.update(r["e8f"])
                if sample is None and r["r"] > 100:
                    sample = {"r": r["r"], "g": r["g"], "b": r["bs"][:6], "entry": r["e8f"][:6], "grey": r["gf"][:6]}
                recs[r["id"]] = (r["r"], r["g"])
        for v in lib.read_ndjson(vp):
            r, g = recs[v["id"]]
            ctx.fail({"why": v["why"]}, f"colour #{r:02x}{g:02x}{v['b']:02x}: {v['why']}", {"r": r, "g": g, "b": v["b"]})
    cov = {
        "evaluations": colours * 8,
        "distinct_nontrivial": len(chosen),
        "colours": colours,
        "rule": "every listed opaque colour encoded as fg, bg (Face) and underline colour (FaceModify) under EightBit, Gray and TrueColor; distinct = distinct palette entries chosen (of 240)",
        "samples": [sample],
        "exhaustive": not q,
    }
    return lib.finish(ctx, "exploration", cov,
                      ["optimality is judged up to the fixed-point rounding slack (each linear component +-1/16384): only a provably non-nearest entry is a violation",
                       "grey levels: either neighbour is accepted within 30/2550000 of a midpoint (f32 rounding)",
                       "the byte-level structure of the SGR sequences is C05's subject; here the harness splits one SGR sequence into its numeric parameters"])
