"""C12: sixel output decodes to the quantised image, exact when colours fit.

DRV  c12-drive: real SixelImageHandler; images 1..24 x 6..20 plus wide images
     (256..710 columns, long runs), colour counts 1, 2, 3, 17, 200, 255, 256,
     257, 1000 (distinct at the 0..100 resolution), transparent pixels over a
     configured background, two equal-size crops of one parent and the parent
     itself on ONE handler, every image drawn twice.
JDG  SixelJudge: a reference sixel interpreter in TLA+.
"""
from . import lib


def run(ctx):
    q = ctx.quick
    if ctx.replay:
        ctx.regenerate()
        q = ctx.quick
    rec = ctx.path("rec.ndjson")
    lib.harness(["c12-drive", "--n", 40 if q else 1000, "--seed", ctx.seed], stdout=rec, timeout=1800)
    recs = lib.read_ndjson(rec)
    verdicts, _ = lib.judge_sharded(ctx, "image/SixelJudge", None, recs, "sixel", nshards=lib.NCPU, timeout=3400, heap="4g")
    by = {r["id"]: r for r in recs}
    for v in verdicts:
        r = by[v["id"]]
        ctx.fail({"why": v["why"]}, f"image {r['w']}x{r['h']} with {r['ncol']} colours ({len(r['bytes'])} bytes of sixel): {v['why']} {r['panic']}",
                 {"w": r["w"], "h": r["h"], "ncol": r["ncol"], "px": r["px"][:2000]})
    cov = {
        "programs": len(recs), "disagreements_checked": len(verdicts),
        "samples": [{"w": r["w"], "h": r["h"], "ncol": r["ncol"], "sixel": bytes(r["bytes"][:120]).decode("latin1")} for r in recs[:2]],
        "evaluations": len(recs), "distinct_nontrivial": len({(r["w"], r["h"], r["ncol"]) for r in recs}),
        "rule": "one program = one image drawn twice on a handler that also drew its sibling crops; distinct = distinct (width, height, colour count)",
    }
    return lib.finish(ctx, "translation_validation", cov,
                      ["images with more than 256 distinct levels are judged on the structural clauses only (colour fidelity is C13's subject)",
                       "only alpha 0 and 255 are generated; alpha 0 shows the configured background",
                       "images stay below the sampling threshold of the quantiser"])
