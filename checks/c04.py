"""C04: every well-formed report or key sequence decodes to what it encodes.

GEN  TtyProtocol.tla: an independent printer of every family (legacy keys,
     kitty keyboard, SGR mouse, CPR, size pair, DECRPM, DA1, OSC colours in
     '#' and 'rgb:' forms, XTGETTCAP, DECRPSS, kitty graphics responses,
     bracketed paste, SGR in ';' and ':' forms, UTF-8 scalars) with the
     abstract event each encodes; all ordered pairs of family representatives
     (with and without text between) and triples ending in ambiguous keys.
RPL  c04-replay: TTYEventDecoder whole / byte-wise / 3-byte reads, events
     projected onto the specification's abstract records.
JDG  ProtocolJudge.
"""
import json
from . import lib


def run(ctx):
    vec = ctx.path("vec.ndjson")
    if ctx.replay:
        case = json.load(open(ctx.replay))["case"]
        lib.write_ndjson(vec, [{"input": case["input"], "exp": case["exp"]}])
    else:
        lib.tlc("decoder/TtyProtocol", None, env={"OUT": vec}, timeout=1800, heap="6g")
    rec = ctx.path("rec.ndjson")
    lib.harness(["c04-replay"], stdin=vec, stdout=rec, timeout=1800)
    recs = lib.read_ndjson(rec)
    verdicts, _ = lib.judge_sharded(ctx, "decoder/ProtocolJudge", None, recs, "proto", nshards=8, timeout=3000)
    by = {r["id"]: r for r in recs}
    pending = 0
    for v in verdicts:
        r = by[v["id"]]
        if v["why"] == "pending":
            pending += 1
            continue
        fam = r["exp"][0]["k"] if r["exp"] else ""
        ctx.fail({"why": v["why"], "family": fam}, f"input {bytes(r['input'])!r}: expected {brief(r['exp'])} decoded {brief(r['whole'])} (byte-wise {brief(r['bytewise'])}) {r['panic']}: {v['why']}"[:800],
                 {"input": r["input"], "exp": r["exp"]})
    fams = {tuple(e["k"] for e in r["exp"]) for r in recs}
    cov = {
        "evaluations": len(recs) * 3, "distinct_nontrivial": len({bytes(r["input"]) for r in recs}),
        "rule": "vectors = every family x boundary parameter values (single events), all ordered pairs of family representatives with and without plain text between, triples ending in an ambiguous legacy key; each decoded whole, byte-wise and in 3-byte reads; distinct = distinct byte strings",
        "samples": [{"input": bytes(r["input"]).decode("latin1"), "exp": brief(r["exp"])} for r in recs[:: max(1, len(recs) // 5)][:5]],
        "family_sequences": len(fams), "ambiguous_tail_left_pending": pending,
    }
    return lib.finish(ctx, "exploration", cov,
                      ["naming tables are the library's documented ones (rxvt CSI 7~/8~, ctrl+letter for C0 bytes, wheel codes 64/65) written out in the spec",
                       "a bare ESC-prefixed key at the very end of a vector may stay pending until more input arrives",
                       "kitty event types (press/repeat/release) are not requested by the library's keyboard level and are not generated"])


def brief(evs):
    return [(e["k"], e["s"], e["m"], e["n"], bytes(e["t"]).decode("latin1")) for e in evs][:4]
