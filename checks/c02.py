"""C02: input decoding is total and events are well formed.

GEN  Hostile.tla : structured vectors (family x hostile parameter strings,
     scalar values at UTF-8 boundaries, ill-formed UTF-8) + seeded corpus of
     protocol fragments / random bytes (harness c03-gen).
RPL  c02-run under `isolate` (crash = data): TTYEventDecoder, TTYCommandDecoder,
     Utf8Decoder x whole / byte-wise / random chunkings.
JDG  DecoderJudge: survival, exhaustion, raw events non-empty and in input
     order, scalar characters, numeric fields = BigNat value of the digits.
MC   termination of the tokeniser (no reschedule loop): MCTok.live (Tokenizer.tla).
"""
import json
from . import lib


def run(ctx):
    q = ctx.quick
    vec = ctx.path("hostile.ndjson")
    if ctx.replay:
        case = json.load(open(ctx.replay))["case"]
        recs = [{"id": 0, "fam": case.get("fam", ""), "params": case.get("params", []), "input": case["input"]}]
        live = None
    else:
        live = lib.tlc("decoder/MCTok", "MCTok.live.cfg", workers=4, check=False, timeout=1200, heap="4g")
        if live.error:
            lib.log(live.out[-2000:])
            raise lib.ToolError("TLC error in MCTok.live")
        if live.invariant:
            ctx.fail({"why": "model-liveness"}, "tokeniser model: reschedule loop does not terminate", {"cfg": "MCTok.live.cfg", "input": []})
        lib.tlc("decoder/Hostile", None, env={"OUT": vec}, timeout=900, heap="4g")
        recs = lib.read_ndjson(vec)
        corpus = ctx.path("corpus.ndjson")
        lib.harness(["c03-gen", "--n", 6000 if q else 150000, "--seed", ctx.seed, "--maxlen", 64], stdout=corpus)
        for r in lib.read_ndjson(corpus):
            recs.append({"fam": "", "params": [], "input": r["input"]})
        for i, r in enumerate(recs):
            r["id"] = i
    parts = lib.shard(recs, lib.NCPU)
    jobs = []
    for i, part in enumerate(parts):
        ip = ctx.path("run", f"in.{i}.ndjson")
        lib.write_ndjson(ip, part)
        jobs.append((["isolate", "c02-run", "--seed", ctx.seed], ip, ctx.path("run", f"rec.{i}.ndjson")))
    lib.harness_parallel(jobs, timeout=3000)
    out = []
    for _, _, op in jobs:
        out += lib.read_ndjson(op)
    # crashed records carry the original vector under "input"
    norm = []
    for r in out:
        if r.get("outcome") in ("abort", "timeout"):
            src = r["input"]
            norm.append({"id": r["id"], "fam": src.get("fam", ""), "params": src.get("params", []), "input": src["input"], "outcome": r["outcome"], "msg": "", "runs": [], "utf8": []})
        else:
            norm.append(r)
    verdicts, _ = lib.judge_sharded(ctx, "decoder/DecoderJudge", None, norm, "dec", nshards=lib.NCPU, timeout=2400)
    by = {r["id"]: r for r in norm}
    for v in verdicts:
        r = by[v["id"]]
        detail = r.get("msg", "")
        if v["run"] and v["run"] < 100 and r["runs"]:
            run_ = r["runs"][v["run"] - 1]
            detail = f"{run_['dec']} chunks={run_['chunks']} events={[(e['d'] or e['b']) for e in run_['ev']][:6]}"
        elif v["run"] >= 100:
            detail = f"utf8 {r['utf8'][v['run'] - 101]}"
        ctx.fail({"why": v["why"], "fam": r["fam"]}, f"input={bytes(r['input'])!r} fam={r['fam']} params={r['params']}: {v['why']} {detail}"[:600],
                 {"fam": r["fam"], "params": r["params"], "input": r["input"]})
    shapes = {(r["fam"], tuple(len(p) for p in r["params"]), tuple(e["f"] or e["k"] for e in (r["runs"][0]["ev"] if r["runs"] else []))[:8]) for r in norm}
    cov = {
        "evaluations": len(norm) * 9,
        "distinct_nontrivial": len(shapes),
        "rule": "inputs = Hostile.tla vectors (14 report families x parameter strings incl. empty, zero, leading zeros, 2^16/2^32/2^64 boundaries, 20 and 40 digits; UTF-8 scalar boundaries; ill-formed and truncated UTF-8 in three contexts) + seeded fragment/random corpus; each through 3 decoders x 3 chunkings; distinct = distinct (family, parameter-length profile, event-kind sequence) tuples",
        "samples": [{"input": r["input"], "fam": r["fam"], "events": [e["d"] or e["b"] for e in (r["runs"][0]["ev"] if r["runs"] else [])]} for r in norm[:: max(1, len(norm) // 4)][:4]],
        "inputs": len(norm),
        "crashed_workers": sum(1 for r in norm if r["outcome"] != "ok"),
    }
    if live is not None:
        cov["tokeniser_liveness_model"] = lib.mc_record("MCTok.live.cfg", live)
    return lib.finish(ctx, "exploration", cov,
                      ["Rust's char type: an invalid scalar can only arise through from_u32_unchecked, which aborts under debug assertions (harness builds with them on)",
                       "numeric rule: value = digits (coordinates minus one), clamped to 0 / u64::MAX, or the sequence is not decoded as that event",
                       "real time is not modelled: non-termination is a 20 s silence of the isolated worker"])
