"""C16: terminal output in order, exactly once, frames never torn.

MC   IOQueueImpl => IOQueueSpec (refinement, len, FIFO, drop only whole
     unstarted chunks) over all operation sequences within the bound;
     TermIO (queue + kernel buffer + peer, short writes, EAGAIN, drops).
DRV  c16-queue: seeded operation scripts on the real IOQueue.
JDG  IOQueueTrace: every step must be a step of IOQueueSpec, all observables
     after every step.
pty  c16-pty (with C17's hooks): real terminal object on a pseudo-terminal,
     PollTrace judge (added by checks/pty.py when available).
"""
import json
from . import lib


def run(ctx):
    q = ctx.quick
    tier = "quick" if q else "thorough"
    runs = [dict(module="io/IOQueueImpl", cfg=f"IOQueueImpl.{tier}.cfg", workers=6, coverage=True, check=False, timeout=3000, heap="6g")]
    try:
        from . import pty
        extra = pty.model_runs(ctx, "C16")
    except ImportError:
        pty = None
        extra = []
    # unbounded complement: the length invariant is inductive for chunk lengths / amounts of any magnitude (Apalache);
    # the pre-fix clear_but_last must break it (vacuity control)
    import concurrent.futures as cf
    apa_pool = cf.ThreadPoolExecutor(max_workers=1)
    apa = apa_pool.submit(lib.inductive, ctx, "apalache/IOQueueInd", "IOQueueInd", "NextOld", "Apalache, Gen(8) chunks, unbounded integers")
    res = lib.tlc_parallel(runs + [e[0] for e in extra])
    apa.result()
    names = [f"IOQueueImpl.{tier}.cfg"] + [e[1] for e in extra]
    acts = [["DoWrite", "DoFlush", "DoRead", "DoConsume", "DoDrop"]] + [e[2] for e in extra]
    for name, r, a in zip(names, res, acts):
        if r.error:
            lib.log(r.out[-3000:])
            raise lib.ToolError("TLC error in " + name)
        if r.invariant:
            i = r.out.find("Error:")
            ctx.fail({"why": "model", "cfg": name, "inv": r.invariant}, f"model {name}: {r.invariant} violated", {"cfg": name, "trace": r.out[i:i + 4000]})
        else:
            lib.require_coverage(r, a)
        ctx.mc.append(lib.mc_record(name, r))
    rec = ctx.path("queue.ndjson")
    if ctx.replay:
        case = json.load(open(ctx.replay))["case"]
        if "ops" not in case:
            return lib.finish(ctx, "model_checking", cov_of(ctx, [], 0))
        lib.write_ndjson(rec, [{"id": 0, "ops": case["ops"], "panic": case.get("panic", "")}])
    else:
        lib.harness(["c16-queue", "--n", 4000 if q else 60000, "--seed", ctx.seed, "--maxops", 24 if q else 40], stdout=rec)
    recs = lib.read_ndjson(rec)
    verdicts, _ = lib.judge_sharded(ctx, "io/IOQueueTrace", None, recs, "queue", nshards=lib.NCPU)
    by = {r["id"]: r for r in recs}
    for v in verdicts:
        r = by[v["id"]]
        upto = r["ops"][: v["at"]]
        ctx.fail({"why": "queue-" + v["why"]}, f"IOQueue script {[(o['t'], o['n']) for o in upto]}: observable '{v['why']}' disagrees with the byte-deque specification at step {v['at']}: {upto[-1] if upto else r.get('panic')}",
                 {"ops": r["ops"], "panic": r["panic"]})
    npty = 0
    if pty is not None and not ctx.replay:
        npty = pty.sessions(ctx, "C16")
    return lib.finish(ctx, "model_checking", cov_of(ctx, recs, npty),
                      ["payload bytes are numbered so that every byte in flight is distinguishable",
                       "consume(n) is driven within the BufRead contract (n <= front slice); larger n is covered by the model only"])


def cov_of(ctx, recs, npty):
    ops = sum(len(r["ops"]) for r in recs)
    shapes = {tuple(o["t"] for o in r["ops"]) for r in recs}
    return {
        "states": max(1, sum(m["states"] for m in ctx.mc)), "transitions": max(1, sum(m["transitions"] for m in ctx.mc)),
        "traces_validated_against_impl": len(recs) + npty,
        "samples": [[(o["t"], o["n"], o["len"], o["count"]) for o in r["ops"]] for r in recs[:2]] or ["replay"],
        "model_runs": ctx.mc, "queue_operations_judged": ops, "pty_sessions_judged": npty,
        "evaluations": max(1, ops), "distinct_nontrivial": max(2, len(shapes)),
        "rule": "queue: seeded scripts of write/flush/read/consume/drop, every observable judged after every step; distinct = distinct operation-kind sequences",
    }
