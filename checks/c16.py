"""C16: terminal output in order, exactly once, frames never torn.

MC   IOQueueImpl => IOQueueSpec (refinement, len, FIFO, drop only whole
     unstarted chunks) over all operation sequences within the bound;
     TermIO (queue + kernel buffer + peer, short writes, EAGAIN, drops).
DRV  c16-queue: seeded operation scripts on the real IOQueue.
JDG  IOQueueTrace: every step must be a step of IOQueueSpec, all observables
     after every step.
pty  c16-pty (with C17's hooks): real terminal object on a pseudo-terminal,
     PollTrace judge (added by checks/pty.py when available).
rnd  c16-render: run_render on a pty with a stranded payload so that the frame
     drop policy fires; FrameStream judge: synchronized-update markers of the
     received stream alternate (frames arrive whole or not at all).
"""
import json
from . import lib


def run(ctx):
    q = ctx.quick
    tier = "quick" if q else "thorough"
    runs = [dict(module="io/IOQueueImpl", cfg=f"IOQueueImpl.{tier}.cfg", workers=6, coverage=True, check=False, timeout=3000, heap="6g")]
    try:
        from . import pty
        extra = pty.model_runs(ctx, "C16")
    except ImportError:
        pty = None
        extra = []
    # unbounded complement: the length invariant is inductive for chunk lengths / amounts of any magnitude (Apalache);
    # the pre-fix clear_but_last must break it (vacuity control)
    import concurrent.futures as cf
    apa_pool = cf.ThreadPoolExecutor(max_workers=1)
    apa = apa_pool.submit(lib.inductive, ctx, "apalache/IOQueueInd", "IOQueueInd", "NextOld", "Apalache, Gen(8) chunks, unbounded integers")
    res = lib.tlc_parallel(runs + [e[0] for e in extra])
    apa.result()
    names = [f"IOQueueImpl.{tier}.cfg"] + [e[1] for e in extra]
    acts = [["DoWrite", "DoFlush", "DoRead", "DoConsume", "DoDrop"]] + [e[2] for e in extra]
    for name, r, a in zip(names, res, acts):
        if r.error:
            lib.log(r.out[-3000:])
            raise lib.ToolError("TLC error in " + name)
        if r.invariant:
            i = r.out.find("Error:")
            ctx.fail({"why": "model", "cfg": name, "inv": r.invariant}, f"model {name}: {r.invariant} violated", {"cfg": name, "trace": r.out[i:i + 4000]})
        else:
            lib.require_coverage(r, a)
        ctx.mc.append(lib.mc_record(name, r))
    rec = ctx.path("queue.ndjson")
    if ctx.replay:
        case = json.load(open(ctx.replay))["case"]
        if "ops" not in case:
            return lib.finish(ctx, "model_checking", cov_of(ctx, [], 0))
        lib.write_ndjson(rec, [{"id": 0, "ops": case["ops"], "panic": case.get("panic", "")}])
    else:
        lib.harness(["c16-queue", "--n", 4000 if q else 60000, "--seed", ctx.seed, "--maxops", 24 if q else 40], stdout=rec)
    recs = lib.read_ndjson(rec)
    verdicts, _ = lib.judge_sharded(ctx, "io/IOQueueTrace", None, recs, "queue", nshards=lib.NCPU)
    by = {r["id"]: r for r in recs}
    for v in verdicts:
        r = by[v["id"]]
        upto = r["ops"][: v["at"]]
        ctx.fail({"why": "queue-" + v["why"]}, f"IOQueue script {[(o['t'], o['n']) for o in upto]}: observable '{v['why']}' disagrees with the byte-deque specification at step {v['at']}: {upto[-1] if upto else r.get('panic')}",
                 {"ops": r["ops"], "panic": r["panic"]})
    npty = 0
    if pty is not None and not ctx.replay:
        npty = pty.sessions(ctx, "C16")
    # ---- the render loop on a stalled pty: frames reach the tty whole or not at all (FrameStream.tla)
    nrender = 0
    if not ctx.replay:
        nr = 16 if q else 200
        jobs = []
        for i, part in enumerate(lib.shard([{"id": i, "seed": ctx.seed * 1000 + i} for i in range(nr)], 8)):
            ip = ctx.path("render", f"in.{i}.ndjson")
            lib.write_ndjson(ip, part)
            jobs.append((["isolate", "c16-render"], ip, ctx.path("render", f"rec.{i}.ndjson")))
        lib.harness_parallel(jobs, timeout=3000)
        rrecs = []
        for _, _, f in jobs:
            for r in lib.read_ndjson(f):
                if "outcome" in r:
                    r = {"id": r["id"], "seed": r["input"]["seed"], "frames": 0, "markers": [], "drops": 0, "payload": 0, "payload_seen": 0, "image": False, "kitty": [], "panic": r["outcome"]}
                rrecs.append(r)
        rv, _ = lib.judge_sharded(ctx, "io/FrameStream", None, rrecs, "render", nshards=4)
        rby = {r["id"]: r for r in rrecs}
        for v in rv:
            r = rby[v["id"]]
            ctx.fail({"why": "render: " + v["why"]}, f"run_render on a stalled pty, seed={r['seed']}: {v['why']}; {r['frames']} frames, {r['drops']} drops, markers {''.join('hl'[1 - m] for m in r['markers'])[:120]} {r['panic']}", {"render_session": {"seed": r["seed"]}})
        nrender = len(rrecs)
        if rrecs and not any(r["drops"] for r in rrecs) and not ctx.failures:
            # (on a tree that already fails elsewhere the sessions may break down before any drop: report the failures instead)
            raise lib.ToolError("vacuous render sessions: the drop policy never fired")
        ctx.cov["render_sessions"] = nrender
        ctx.cov["render_sessions_with_drops"] = sum(1 for r in rrecs if r["drops"])
        ctx.cov["render_frames_on_the_wire"] = sum(sum(r["markers"]) for r in rrecs)
    return lib.finish(ctx, "model_checking", cov_of(ctx, recs, npty),
                      ["payload bytes are numbered so that every byte in flight is distinguishable",
                       "consume(n) is driven within the BufRead contract (n <= front slice); larger n is covered by the model only"])


def cov_of(ctx, recs, npty):
    ops = sum(len(r["ops"]) for r in recs)
    shapes = {tuple(o["t"] for o in r["ops"]) for r in recs}
    return {
        "states": max(1, sum(m["states"] for m in ctx.mc)), "transitions": max(1, sum(m["transitions"] for m in ctx.mc)),
        "traces_validated_against_impl": len(recs) + npty + ctx.cov.get("render_sessions", 0),
        "samples": [[(o["t"], o["n"], o["len"], o["count"]) for o in r["ops"]] for r in recs[:2]] or ["replay"],
        "model_runs": ctx.mc, "queue_operations_judged": ops, "pty_sessions_judged": npty,
        "render_sessions": ctx.cov.get("render_sessions", 0), "render_sessions_with_drops": ctx.cov.get("render_sessions_with_drops", 0),
        "render_frames_on_the_wire": ctx.cov.get("render_frames_on_the_wire", 0),
        "evaluations": max(1, ops), "distinct_nontrivial": max(2, len(shapes)),
        "rule": "queue: seeded scripts of write/flush/read/consume/drop, every observable judged after every step; distinct = distinct operation-kind sequences",
    }
