"""C14: streaming base64 follows RFC 4648 and round-trips under any chunking.

MC   B64Stream: encoder with 3-byte carry / decoder with group buffer, short
     reads and drains vs the closed-form Base64!Encode/Decode, for every input,
     write partition, read-size schedule and drain schedule in the bound.
DRV  c14-drive: real Base64Encoder/Base64Decoder, lengths 0..70, around 96/128/
     192/256/768/4096, random partitions, 12 read schedules, 14 buffer sizes,
     truncated and arbitrary text.
JDG  B64Judge (Base64.tla).
"""
import json
from . import lib


def run(ctx):
    q = ctx.quick
    tier = "quick" if q else "thorough"
    rec = ctx.path("rec.ndjson")
    mc = None
    if ctx.replay:
        case = json.load(open(ctx.replay))["case"]
        if "record" not in case:
            raise lib.ToolError("model counterexample: re-run the check")
        # re-run the same operation on the current code
        lib.write_ndjson(ctx.path("in.ndjson"), [case["record"]])
        lib.harness(["c14-replay"], stdin=ctx.path("in.ndjson"), stdout=rec)
    else:
        mc = lib.tlc("image/B64Stream", f"B64Stream.{tier}.cfg", workers=8 if q else 16, coverage=True, check=False, timeout=3400, heap="8g")
        if mc.error:
            lib.log(mc.out[-3000:])
            raise lib.ToolError("TLC error in B64Stream")
        if mc.invariant:
            i = mc.out.find("Error:")
            ctx.fail({"why": "model", "inv": mc.invariant}, f"B64Stream model: {mc.invariant} violated", {"trace": mc.out[i:i + 3000]})
        else:
            lib.require_coverage(mc, ["EncWrite", "Finish", "DecRead", "DecEof", "Drain"])
        lib.harness(["c14-drive", "--n", 250 if q else 4000, "--seed", ctx.seed], stdout=rec)
    recs = lib.read_ndjson(rec)
    verdicts, _ = lib.judge_sharded(ctx, "image/B64Judge", None, recs, "b64", nshards=lib.NCPU, timeout=3000)
    by = {r["id"]: r for r in recs}
    for v in verdicts:
        r = by[v["id"]]
        if r["t"] == "enc":
            what = f"encoder: {len(r['data'])} bytes written as {r['parts'][:12]}: {v['why']} {r['panic']}"
        else:
            what = f"decoder: text of {len(r['text'])} chars (mod 4 = {len(r['text']) % 4}), reader schedule {r['reads']}, destination {r['dst']}: {v['why']} (err={r['err']}, {len(r['out'])} bytes out) {r['panic']}"
        ctx.fail({"why": v["why"], "t": r["t"]}, what, {"record": r})
    shapes = {(r["t"], len(r["data"]) % 3, tuple(r["reads"]), r["dst"], len(r["text"]) % 4) for r in recs}
    cov = {
        "states": mc.distinct if mc else 1, "transitions": mc.generated if mc else 1,
        "traces_validated_against_impl": len(recs),
        "samples": [{k: (r[k] if not isinstance(r[k], list) or len(r[k]) < 20 else r[k][:20]) for k in ("t", "data", "parts", "text", "reads", "dst", "err")} for r in recs[:: max(1, len(recs) // 3)][:3]],
        "evaluations": len(recs), "distinct_nontrivial": len(shapes),
        "rule": "encoder runs x random write partitions; decoder runs on canonical, truncated (1-3 chars), padding-heavy and arbitrary text x read-size schedules x destination sizes; distinct = distinct (direction, len mod 3, schedule, destination size, text len mod 4)",
    }
    return lib.finish(ctx, "model_checking", cov,
                      ["for text outside RFC 4648 (foreign characters, interior padding) only totality is required",
                       "model buffer capacity 6/7 bytes stands for the 64-byte buffer (same 'a whole group must fit' rule)"])
