"""C10: view layout honours constraints, never panics, draws where it says it does.

GEN  ViewTreeGen (TLC): exhaustive small families - flex (2 directions x 6
     justifications x children of every alignment / flex factor) and
     container (sizes x alignments x margins) over probe leaves, under
     constraints from {0,1,2,5}^4 with min <= max.
DRV  c10-drive: the TLC vectors (typed route and, when the tree has a JSON
     form, through ViewDeserializer) plus seeded random trees (depth <= 4) of
     text, flex, container, frame, scroll bar, tag, dynamic, option/either,
     fill, surface, image and glyph views with probe leaves; both glyph
     settings; surfaces equal to the constraint, to the reported size, smaller
     than it, and a fixed window under unbounded constraints.  Records the
     layout tree, the canvas (leaf id per cell), cells changed outside the
     surface and the real find_path result per cell.
JDG  LayoutJudge (LayoutTree.tla): no panic / error, containment, reported size
     within the constraint, leaf paints only inside its clipped rectangle, every
     cell covered by a filling leaf shows the last one in render order,
     find_path = LayoutTree!FindPath and ends at the leaf drawn there.
"""
from . import lib


def run(ctx):
    q = ctx.quick
    if ctx.replay:
        ctx.regenerate()
        q = ctx.quick
    vec = ctx.path("vec.ndjson")
    g = lib.tlc("text/ViewTreeGen", "ViewTreeGen.cfg", env={"OUT": vec, "SAMPLE": "1500" if q else "0"}, workers=1, seed=ctx.seed, check=True)
    jsonable = {"probe", "text", "flex", "container", "tag"}

    def kinds_of(d, acc):
        if isinstance(d, dict):
            if "type" in d:
                acc.add(d["type"])
            for x in d.values():
                kinds_of(x, acc)
        elif isinstance(d, list):
            for x in d:
                kinds_of(x, acc)
        return acc
    vectors = []
    for v in lib.read_ndjson(vec):
        for route in ("typed", "json"):
            if route == "json" and not kinds_of(v["tree"], set()) <= jsonable:
                continue
            vectors.append(dict(v, id=len(vectors), route=route))
        if v["tree"]["type"] == "flex":
            # the same tree through the statically typed flex (FlexRef over a Vec / an array / a tuple of children)
            vectors.append(dict(v, tree=dict(v["tree"], ref=1 + len(vectors) % 3), id=len(vectors), route="typed"))
    n1 = len(vectors)
    nrnd = 6000 if q else 300000
    per = nrnd // lib.NCPU
    gens = [(["c10-gen", "--n", per, "--seed", ctx.seed * 1000 + i, "--first", n1 + i * per], None, ctx.path("gen", f"rnd.{i}.ndjson")) for i in range(lib.NCPU)]
    lib.harness_parallel(gens)
    for _, _, f in gens:
        vectors.extend(lib.read_ndjson(f))
    jobs = []
    for i, part in enumerate(lib.shard(vectors, lib.NCPU)):
        ip = ctx.path("drive", f"vec.{i}.ndjson")
        lib.write_ndjson(ip, part)
        jobs.append((["isolate", "c10-drive"], ip, ctx.path("drive", f"rec.{i}.ndjson")))
    lib.harness_parallel(jobs, timeout=3000)
    recs = []
    for _, _, f in jobs:
        recs.extend(lib.read_ndjson(f))
    by_vec = {v["id"]: v for v in vectors}
    dead = [r for r in recs if "outcome" in r]
    recs = [r for r in recs if "outcome" not in r]
    for r in dead:
        v = by_vec[r["id"]]
        ctx.fail({"why": r["outcome"], "root": v["tree"]["type"], "route": v["route"], "surf": v["surf"]},
                 f"worker {r['outcome']} (no answer within 20 s / process died) laying out and rendering under constraint {v['ct']}: tree={lib.json.dumps(v['tree'])[:600]}", v)
    # the judge needs the observation, not the descriptor (which may hold JSON nulls and 64-bit numbers)
    slim = [{k: v for k, v in r.items() if k not in ("tree", "ctraw")} for r in recs]
    verdicts, _ = lib.judge_sharded(ctx, "text/LayoutJudge", None, slim, "layout", nshards=lib.NCPU, timeout=3000)
    by = {r["id"]: r for r in recs}
    for v in verdicts:
        r = by[v["id"]]
        why = v["why"]
        key = {"why": why, "root": r["tree"]["type"], "route": r["route"], "surf": r["surfmode"]}
        if why == "panic":
            key["panic"] = r["panic"]
        what = f"{why} {r['panic']}{r['err']}: constraint {r['ctraw']} glyphs={r['glyphs']} route={r['route']} surface={r['surfmode']} {r['surf']} layout={lib.json.dumps(r['layout'])[:300]} tree={lib.json.dumps(r['tree'])[:500]}"
        ctx.fail(key, what[:1200], {k: r[k] for k in ("tree", "ctraw", "glyphs", "surfmode", "route")})
    kinds = {}
    def walk(d):
        if isinstance(d, dict):
            if "type" in d:
                kinds[d["type"]] = kinds.get(d["type"], 0) + 1
            for x in d.values():
                walk(x)
        elif isinstance(d, list):
            for x in d:
                walk(x)
    for r in recs:
        walk(r["tree"])
    cov = {
        "evaluations": len(recs) + len(dead), "tlc_generated": n1, "tlc_family_size": g.printed("GENERATED"), "view_kinds": kinds,
        "distinct_nontrivial": len({(lib.json.dumps(r["tree"], sort_keys=True), tuple(r["ct"]), r["glyphs"], r["route"], r["surfmode"]) for r in recs}),
        "rule": "one evaluation = (view tree, constraint, glyph capability, route typed/json, surface mode) laid out, rendered and hit-tested at every cell; distinct = distinct tuples",
        "routes": {k: sum(1 for r in recs if r["route"] == k) for k in ("typed", "json")},
        "samples": [{"tree": r["tree"], "ct": r["ctraw"], "layout": r["layout"]} for r in recs[:1] + recs[-1:]],
    }
    return lib.finish(ctx, "exploration", cov,
                      ["probe leaves stand for arbitrary well-behaved leaf views: they take a preferred size clamped to the constraint and fill the surface their layout gives them",
                       "Dynamic replaces the layout data of its child's root node, so the generators do not put a tagged leaf directly under Dynamic",
                       "image and glyph leaves and painting decorators (frame with glyphs, container / flex child faces) are only checked for containment and size; the exact-cell clause is decided on trees without them",
                       "the scroll bar is not in the property's list of views whose size lies within the constraint (it is at least one cell thick); it is still checked for containment and totality"])
