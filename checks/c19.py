"""C19: serialised forms round trip; no JSON document crashes deserialisation.

GEN  SerdeGen (TLC): faces (FaceSyntax: all 192 attribute sets x colour
     settings, all colour pairs, 4 syntactic variants), chords of 1..3 keys,
     sizes at the 16/32/64-bit boundaries, image documents in the 1/3/4 channel
     layouts (data = Base64!Encode of the raw bytes, 6 key orders, default
     channels), every crop window of 4 parent images.
     HostileJson (TLC): ~7 000 documents for the image / glyph / text / view
     deserialisers: extreme and ill-typed sizes, channel and data values, every
     key order, repeated and missing keys, invalid base64, odd glyph paths /
     view boxes / frames, every view type x payload, flex / container fields
     with extreme numbers, nesting up to serde_json's depth limit.
RPL  c19-run under `isolate` (a panic, abort or 10 s silence is data).
JDG  SerdeJudge: parsed = denoted value, print/parse and to_value/from_value
     round trips on the abstract value, pixel-for-pixel equality through
     Base64!Decode, and for documents: value or error, and every value lays out
     and renders (5 constraints x both glyph settings) inside its surface.
"""
import os
from . import lib


def run(ctx):
    q = ctx.quick
    if ctx.replay:
        ctx.regenerate()
        q = ctx.quick
    runs = []
    for part in ("face", "chord", "size", "imgin", "imgview"):
        runs.append(dict(module="serde/SerdeGen", cfg="SerdeGen.cfg", env={"OUT": ctx.path("gen", f"{part}.ndjson"), "PART": part}, workers=1, seed=ctx.seed, check=True))
    runs.append(dict(module="serde/HostileJson", cfg="HostileJson.cfg", env={"OUT": ctx.path("gen", "hostile.ndjson")}, workers=1, seed=ctx.seed, check=True))
    gens = lib.tlc_parallel(runs)
    vectors = []
    for part in ("face", "chord", "size", "imgin", "imgview", "hostile"):
        for v in lib.read_ndjson(ctx.path("gen", f"{part}.ndjson")):
            v["id"] = len(vectors)
            vectors.append(v)
    if q:
        # the quick tier keeps every third chord / face vector (all attribute sets stay covered by the 4 variants) and everything else
        vectors = [v for v in vectors if v["kind"] not in ("face", "chord") or v["id"] % 3 == 0]
    os.environ["SNT_REC_TIMEOUT"] = "10"
    jobs = []
    for i, part in enumerate(lib.shard(vectors, lib.NCPU)):
        ip = ctx.path("run", f"vec.{i}.ndjson")
        lib.write_ndjson(ip, part)
        jobs.append((["isolate", "c19-run"], ip, ctx.path("run", f"rec.{i}.ndjson")))
    lib.harness_parallel(jobs, timeout=3000)
    recs = []
    for _, _, f in jobs:
        recs.extend(lib.read_ndjson(f))
    by_vec = {v["id"]: v for v in vectors}
    dead = [r for r in recs if "kind" not in r]
    recs = [r for r in recs if "kind" in r]

    def describe(v):
        return (v.get("doc") or v.get("text") or lib.json.dumps({k: v[k] for k in v if k not in ("parent", "pixels", "data")}))[:500]

    def key_of(v, why):
        k = {"why": why, "kind": v["kind"]}
        if v["kind"] == "doc":
            k["target"] = v["target"]
            k["zero_radius_arc"] = " A0,0 " in v["doc"]
        return k
    for r in dead:
        v = by_vec[r["id"]]
        ctx.fail(key_of(v, r["outcome"]), f"worker {r['outcome']} (process died / no answer within 10 s) on {v['kind']} {v.get('target', '')}: {describe(v)}", v)
    verdicts, _ = lib.judge_sharded(ctx, "serde/SerdeJudge", None, recs, "serde", nshards=lib.NCPU, timeout=3000)
    by = {r["id"]: r for r in recs}
    for vd in verdicts:
        r = by[vd["id"]]
        v = by_vec[r["id"]]
        obs = lib.json.dumps(r["obs"])[:500]
        ctx.fail(key_of(v, vd["why"]), f"{vd['why']} {r['panic']}: {v['kind']} {v.get('target', '')} {describe(v)} observed {obs}", v)
    kinds = {}
    outcomes = {}
    for r in recs:
        kinds[r["kind"]] = kinds.get(r["kind"], 0) + 1
        if r["kind"] == "doc" and not r["panic"]:
            k = r["target"] + ":" + r["obs"]["outcome"]
            outcomes[k] = outcomes.get(k, 0) + 1
    cov = {
        "evaluations": len(recs) + len(dead), "distinct_nontrivial": len({describe(v) + v["kind"] + str(v.get("variant")) for v in vectors}),
        "rule": "one evaluation = one TLC-generated vector run through the real (de)serialisers in an isolated worker; distinct = distinct (kind, text / document)",
        "by_kind": kinds, "document_outcomes": outcomes, "generated": [g.printed("GENERATED") for g in gens],
        "samples": [describe(v) for v in vectors[:2] + vectors[-2:]],
    }
    return lib.finish(ctx, "exploration", cov,
                      ["documents are JSON texts parsed by serde_json::from_str first; texts it refuses (nesting deeper than 128) never reach the deserialisers",
                       "glyph values are laid out and rendered but not rasterised (a glyph of 2^64 cells cannot be)",
                       "a worker silent for 10 s counts as non-termination"])
