"""C05: encoded commands mean exactly what was commanded to a VT/xterm interpreter.

DRV  c05-drive: every TerminalCommand variant x boundary parameters (0, 1,
     65535, 2^32, usize::MAX-1, i32::MIN ...), every DEC mode, all 192
     attribute/underline combinations, FaceModify field combinations, 3 colour
     depths, kitty keyboard on/off; streams of 2-5 commands through one encoder.
JDG  EncoderJudge: bytes parsed by VT.tla (ECMA-48/xterm parser + SGR machine)
     must perform exactly the command; numbers compared as digit strings.
"""
import json
from . import lib


def run(ctx):
    q = ctx.quick
    rec = ctx.path("rec.ndjson")
    if ctx.replay:
        ctx.regenerate()
        q = ctx.quick
    lib.harness(["c05-drive", "--seed", ctx.seed, "--thorough", 0 if q else 1], stdout=rec, timeout=1800)
    recs = lib.read_ndjson(rec)
    verdicts, _ = lib.judge_sharded(ctx, "vt/EncoderJudge", None, recs, "enc", nshards=lib.NCPU, timeout=3000)
    by = {r["id"]: r for r in recs}
    for v in verdicts:
        r = by[v["id"]]
        what = f"{r['cmd']} depth={r['depth']} kitty={r['kitty']} x={bytes(r['x']).decode()} y={bytes(r['y']).decode()} neg={r['neg']} en={r['en']}"
        if r["cmd"] in ("Face", "FaceModify"):
            what += f" fg={r['fg']} bg={r['bg']} ul={r['ul']} ulc={r['ulc']} bold={r['bold']} italic={r['italic']} blink={r['blink']} strike={r['strike']} reverse={r['reverse']} reset={r['reset']}"
        if r["cmd"] == "stream":
            what += " commands=" + ",".join(bytes(n).decode() for n in r["names"])
        ctx.fail({"why": v["why"], "cmd": r["cmd"], "depth": r["depth"]}, f"{what}: emitted {bytes(r['bytes'])!r} ({r['out']}): {v['why']}"[:700], {"record": r})
    progs = len(recs)
    cov = {
        "programs": progs, "disagreements_checked": len(verdicts),
        "samples": [{"cmd": r["cmd"], "depth": r["depth"], "bytes": bytes(r["bytes"]).decode("latin1")} for r in recs[:: max(1, len(recs) // 5)][:5]],
        "evaluations": progs, "distinct_nontrivial": len({(r["cmd"], r["depth"], r["kitty"], bytes(r["bytes"])) for r in recs}),
        "rule": "one program = one command (or stream of 2-5 commands) encoded by the real TTYEncoder and interpreted by VT.tla; distinct = distinct (command kind, depth, kitty flag, emitted bytes)",
    }
    return lib.finish(ctx, "translation_validation", cov,
                      ["VT.tla is the reference interpreter: ECMA-48 parsing, xterm SGR semantics (0 parameter of ECH/CUx = 1, 22 = normal intensity, 21 = double underline)",
                       "which palette entry a reduced depth selects is C20's subject; here exactly one entry in 16..255 (or one of the four grey codes) per colour is required",
                       "titles and capability names without control characters"])
