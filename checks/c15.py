"""C15: compiled automata accept exactly the expression's language.

MC   AutomataMC: code-shaped Thompson combinators (in-place epsilon edges,
     renumbering, closure, subset run, tags, terminal) vs Regex semantics for
     every expression with <= MaxOps operators x every string <= MaxStr.
GEN  AutoGen: the same expressions (+ all tagged pairs).
RPL  c15-replay: public NFA API -> compile() -> DFA walk, 3 symbol mappings
     (incl. bytes 0x00 / 0xFF), all 256 bytes probed from every visited state.
JDG  AutoJudge: accepts <=> Matches, tags, terminal soundness, no stray edges.
"""
import json
from . import lib


def run(ctx):
    q = ctx.quick
    tier = "quick" if q else "thorough"
    maxstr = 4 if q else 5
    if ctx.replay:
        case = json.load(open(ctx.replay))["case"]
        vec = ctx.path("vec.ndjson")
        lib.write_ndjson(vec, [{"e": case["e"], "f": case["f"], "g": case.get("g") or {"op": "lit", "s": [1], "a": 0, "b": 0}, "nested": case.get("nested", False), "tagged": case["tagged"]}])
        mc = None
    else:
        mc = lib.tlc("automata/AutomataMC", f"AutomataMC.{tier}.cfg", workers=8 if q else 16, check=False, timeout=3400, heap="8g")
        if mc.error:
            lib.log(mc.out[-3000:])
            raise lib.ToolError("TLC error in AutomataMC")
        if mc.invariant:
            i = mc.out.find("Error: Invariant")
            ctx.fail({"why": "model", "inv": mc.invariant}, f"automata model: {mc.invariant} violated", {"trace": mc.out[i:i + 3000], "e": None, "f": None, "tagged": False})
        vec = ctx.path("vec.ndjson")
        lib.tlc("automata/AutoGen", f"AutoGen.{tier}.cfg", env={"OUT": vec}, timeout=1800, heap="8g")
    rec = ctx.path("rec.ndjson")
    lib.harness(["c15-replay", "--maxstr", maxstr], stdin=vec, stdout=rec, timeout=1800)
    recs = lib.read_ndjson(rec)
    verdicts, _ = lib.judge_sharded(ctx, "automata/AutoJudge", None, recs, "auto", nshards=lib.NCPU, timeout=3000)
    by = {r["id"]: r for r in recs}
    for v in verdicts:
        r = by[v["id"]]
        at = r["res"][v["at"] - 1] if v["at"] else None
        ctx.fail({"why": v["why"]}, f"expression {'(' if r.get('nested') else ''}{show(r['e'])}{' | ' + show(r['f']) if r['tagged'] else ''}{') ' + show(r['g']) if r.get('nested') else ''} route={r.get('route')} map={r['map']} at {at}: {v['why']}",
                 {"e": r["e"], "f": r["f"], "g": r.get("g"), "nested": r.get("nested", False), "tagged": r["tagged"]})
    cov = {
        "states": mc.distinct if mc else 1, "transitions": mc.generated if mc else 1,
        "traces_validated_against_impl": len(recs),
        "samples": [{"e": show(r["e"]), "tagged": r["tagged"], "map": r["map"], "res": r["res"][:6]} for r in recs[:: max(1, len(recs) // 3)][:3]],
        "evaluations": sum(len(r["res"]) for r in recs), "distinct_nontrivial": len({json.dumps([r["e"], r["f"], r["tagged"]]) for r in recs}),
        "rule": "every expression with <= MaxOps operators over two symbols (one TLC state each) and every tagged pair with <= TagOps operators; each against every string of length <= MaxStr under 3 byte mappings; distinct = distinct expressions",
        "exhaustive": True,
        "constants": f"MaxOps={'3' if q else '4'} MaxStr={maxstr}",
    }
    return lib.finish(ctx, "model_checking", cov,
                      ["terminal is judged in the sound direction only (terminal => no recorded extension matches)",
                       "predicates are single-byte classes; multi-byte classes are exercised through the production grammars (C03/C04)"])


def show(e):
    if not isinstance(e, dict):
        return "?"
    op = e["op"]
    if op == "lit":
        return "".join("xy"[i - 1] for i in e["s"])
    if op == "seq":
        return f"({show(e['a'])} {show(e['b'])})"
    if op == "alt":
        return f"({show(e['a'])}|{show(e['b'])})"
    return f"{show(e['a'])}{ {'opt': '?', 'some': '+', 'many': '*'}[op] }"
