"""C03: decoded events do not depend on read boundaries; leftmost-longest.

MC   MCTok: code-shaped MatcherDecoder (buffer / reversed reschedule stack /
     candidate) refines LLSpec for every pattern set, input and partition
     into reads (+ liveness: no reschedule loop).
GEN  TokGen: pattern sets x inputs.           RPL c03-tok (hook 1, 5 chunkings)
JDG  TokJudge: tokens = LLSpec!PTokens.
DRV  c03-gen corpus (protocol fragments, hostile UTF-8, random bytes).
RPL  c03-prod (hook 2: acceptance tables of the production automata; events
     under whole / byte-wise / 3-byte / random chunkings; slice events).
JDG  TokenizerTrace: events(any chunking) = concat over LLSpec tokens.
"""
import json
import os
from . import lib


def run(ctx):
    q = ctx.quick
    if ctx.replay:
        return replay(ctx)
    cfgs = [("MCTok.quick.cfg", False), ("MCTok.live.cfg", True)] if q else [("MCTok.thorough.cfg", False), ("MCTok.allsets.cfg", False), ("MCTok.live.cfg", True)]
    mcr = lib.tlc_parallel([dict(module="decoder/MCTok", cfg=c, workers=4 if q else 5, coverage=not live, check=False, timeout=3000, heap="6g") for c, live in cfgs])
    for (c, live), r in zip(cfgs, mcr):
        if r.error:
            lib.log(r.out[-3000:])
            raise lib.ToolError("TLC error in " + c)
        if r.invariant:
            ctx.fail({"why": "model", "cfg": c, "inv": r.invariant}, f"tokeniser model {c}: {r.invariant} violated", {"cfg": c, "trace": r.out[-5000:]})
        elif not live:
            lib.require_coverage(r, ["Read", "StepResched", "StepChunk"])
        ctx.mc.append(lib.mc_record(c, r))
    # (a) tokeniser core
    vec = ctx.path("tok-vectors.ndjson")
    lib.tlc("decoder/TokGen", "TokGen.quick.cfg" if q else "TokGen.allsets.cfg", env={"OUT": vec}, timeout=900, heap="6g")
    rec = ctx.path("tok-recorded.ndjson")
    lib.harness(["c03-tok", "--seed", ctx.seed], stdin=vec, stdout=rec)
    trecs = lib.read_ndjson(rec)
    tv, _ = lib.judge_sharded(ctx, "decoder/TokJudge", None, trecs, "tok", nshards=8 if q else 14)
    tby = {r["id"]: r for r in trecs}
    for v in tv:
        r = tby[v["id"]]
        run_ = r["runs"][v["run"] - 1] if v["run"] else {}
        ctx.fail({"why": "tok-" + v["why"], "part": "core"}, f"tokeniser core: pats={r['pats']} input={r['input']} chunks={run_.get('chunks')}: got {run_.get('got')} ({v['why']})",
                 {"part": "core", "pats": r["pats"], "input": r["input"]})
    # (b) production automata
    corpus = ctx.path("prod-corpus.ndjson")
    n = 4000 if q else 60000
    lib.harness(["c03-gen", "--n", n, "--seed", ctx.seed, "--maxlen", 48], stdout=corpus)
    crecs = lib.read_ndjson(corpus)
    parts = lib.shard(crecs, lib.NCPU)
    jobs = []
    for i, part in enumerate(parts):
        ip = ctx.path("prod", f"in.{i}.ndjson")
        lib.write_ndjson(ip, part)
        jobs.append((["isolate", "c03-prod", "--seed", ctx.seed], ip, ctx.path("prod", f"rec.{i}.ndjson")))
    lib.harness_parallel(jobs)
    precs = []
    for _, _, op in jobs:
        precs += lib.read_ndjson(op)
    ok = [r for r in precs if r.get("outcome") == "ok"]
    crashed = [r for r in precs if r.get("outcome") != "ok"]
    pv, _ = lib.judge_sharded(ctx, "decoder/TokenizerTrace", None, ok, "prod", nshards=lib.NCPU)
    pby = {r["id"]: r for r in ok}
    for v in pv:
        r = pby[v["id"]]
        run_ = r["runs"][v["run"] - 1] if v["run"] else {}
        ctx.fail({"why": "prod-" + v["why"], "part": "production", "dec": r["dec"]},
                 f"{r['dec']} decoder input={bytes(r['input'])!r} chunks={run_.get('chunks')}: events {[(e['d'] or e['b']) for e in run_.get('got', [])]} differ from the leftmost-longest tokenisation ({v['why']})",
                 {"part": "production", "dec": r["dec"], "input": r["input"], "id": r["id"]})
    # (c) recognised sequences far longer than any buffer of the decoder
    lrec = ctx.path("long.ndjson")
    lib.harness(["c03-long", "--seed", ctx.seed], stdout=lrec)
    lrecs = lib.read_ndjson(lrec)
    lv, _ = lib.judge_sharded(ctx, "decoder/LongJudge", None, lrecs, "long", nshards=4)
    lby = {r["id"]: r for r in lrecs}
    for v in lv:
        r = lby[v["id"]]
        ctx.fail({"why": "long-" + v["why"], "part": "long", "kind": r["kind"]},
                 f"{r['kind']} of {r['n']} bytes: {v['why']}: events per cut {[(x['cut'], len(x['digest'])) for x in r['runs']]} {r['panic']}", {"part": "long", "kind": r["kind"], "n": r["n"]})
    shapes = {(r["dec"], tuple((t["v"], tuple(t["acc"])) for t in r["table"])) for r in ok}
    cov = {
        "states": sum(m["states"] for m in ctx.mc), "transitions": sum(m["transitions"] for m in ctx.mc),
        "traces_validated_against_impl": len(trecs) * 5 + len(ok) * 4,
        "samples": [{"pats": trecs[len(trecs) // 2]["pats"], "input": trecs[len(trecs) // 2]["input"], "runs": trecs[len(trecs) // 2]["runs"][:2]},
                    {"dec": ok[len(ok) // 2]["dec"], "input": ok[len(ok) // 2]["input"], "events": ok[len(ok) // 2]["runs"][0]["got"]}],
        "model_runs": ctx.mc,
        "tokeniser_vectors": len(trecs), "production_inputs": len(ok), "long_sequences": len(lrecs),
        "production_inputs_crashed_left_to_C02": len(crashed),
        "evaluations": len(trecs) + len(ok), "distinct_nontrivial": len(shapes),
        "rule": "core: every pattern set of the configuration x every input <= MaxLen x 5 chunkings; production: seeded corpus of protocol fragments, hostile UTF-8 and random bytes (<= 48 bytes) x 4 chunkings; distinct = distinct (decoder, acceptance-table shape) pairs",
    }
    return lib.finish(ctx, "model_checking", cov,
                      ["the DFA is abstracted by its pattern set in the model (C15 establishes that abstraction for compiled automata)",
                       "hook decoder::verif exposes the private tokeniser and the production automata unchanged",
                       "inputs on which a decoder panics or aborts are C02's subject and are only counted here"])


def replay(ctx):
    case = json.load(open(ctx.replay))["case"]
    if case.get("part") == "core":
        vec = ctx.path("rv.ndjson")
        lib.write_ndjson(vec, [{"pats": case["pats"], "input": case["input"]}])
        rec = ctx.path("rr.ndjson")
        lib.harness(["c03-tok", "--seed", ctx.seed], stdin=vec, stdout=rec)
        out = ctx.path("rvv.ndjson")
        lib.tlc("decoder/TokJudge", None, env={"TRACE": rec, "OUT": out})
        for v in lib.read_ndjson(out):
            ctx.fail({"why": "tok-" + v["why"], "part": "core"}, "replayed tokeniser vector fails: " + v["why"], case)
    elif case.get("part") == "production":
        vec = ctx.path("rv.ndjson")
        lib.write_ndjson(vec, [{"id": case["id"], "dec": case["dec"], "input": case["input"]}])
        rec = ctx.path("rr.ndjson")
        lib.harness(["isolate", "c03-prod", "--seed", ctx.seed], stdin=vec, stdout=rec)
        out = ctx.path("rvv.ndjson")
        lib.tlc("decoder/TokenizerTrace", None, env={"TRACE": rec, "OUT": out})
        for v in lib.read_ndjson(out):
            ctx.fail({"why": "prod-" + v["why"], "part": "production", "dec": case["dec"]}, "replayed input fails: " + v["why"], case)
    else:
        r = lib.tlc("decoder/MCTok", case["cfg"], workers=4, check=False)
        if r.invariant:
            ctx.fail({"why": "model", "cfg": case["cfg"], "inv": r.invariant}, "model counterexample reproduced", case)
    return lib.finish(ctx, "model_checking", {"states": 1, "transitions": 1, "traces_validated_against_impl": 1, "samples": [case]})
