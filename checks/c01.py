"""C01: incremental rendering leaves the terminal showing the drawn surface.

MC   MCRender.* : RenderImpl (code-shaped two-pass diff) x Screen satisfies
     RenderSpec (Shown, SameAsScratch) on the CLOSURE of small screens;
     MCLoop.*   : run_render with a lossy frame queue.
GEN  RenderRunGen: every (image column, image, blank face, character column)
     history of a dirty blank run meeting a kept image on a 2x6 screen.
GEN  RenderGen  : every in-domain unambiguous surface of a small screen.
RPL  c01-pairs  : all ordered pairs (+clear, +recreate) through the real renderer.
DRV  c01-drive / c01-loop : seeded random histories on larger screens
     (incl. ambiguous surfaces), real run_render with frame drops.
JDG  RenderTraceMain / RenderLoopTraceMain : recorded commands executed on
     Screen, compared with Paint(surface) and with the from-scratch screen.
"""
import json
import os
from . import lib

CFG = """CONSTANTS H = {h} W = {w} FixMarks = TRUE FixWide = TRUE FixDamage = TRUE
Alphabet = {{}} AllowAmbiguous = TRUE
{extra}
INIT JInit
NEXT JNext
CHECK_DEADLOCK FALSE
"""


def cfg(ctx, h, w, extra=""):
    p = ctx.path("cfg", f"J{h}x{w}{'s' if extra else ''}.cfg")
    with open(p, "w") as f:
        f.write(CFG.format(h=h, w=w, extra=extra))
    return p


def run(ctx):
    q = ctx.quick
    if ctx.replay:
        return replay(ctx)
    # ---- model checking (parallel) -----------------------------------------
    mcs = [("render/MCRender", "MCRender.q1.cfg", ["Frame", "Clear", "Recreate"]),
           ("render/MCRender", "MCRender.q3.cfg", ["Frame", "Clear", "Recreate"]),
           ("render/MCLoop", "MCLoop.text.cfg", ["Iterate", "Deliver", "Start"])]
    if not q:
        mcs += [("render/MCRender", f"MCRender.{c}.cfg", ["Frame", "Clear"]) for c in ("q2", "t1", "t2", "t3", "t4")]
        mcs += [("render/MCLoop", "MCLoop.imgnodrop.cfg", ["Iterate", "Deliver"])]
    w = 4 if q else 3
    sims = [] if q else [("render/MCRender", "MCRender.s1.cfg"), ("render/MCRender", "MCRender.s3.cfg")]
    all_res = lib.tlc_parallel([dict(module=m, cfg=c, workers=w, coverage=True, check=False, timeout=3300, heap="4g") for m, c, _ in mcs]
                               + [dict(module=m, cfg=c, workers=2, simulate="num=60000", depth=15, seed=ctx.seed, check=False, timeout=3300, heap="4g") for m, c in sims])
    mc_res = all_res[:len(mcs)]
    for (m, c), r in zip(sims, all_res[len(mcs):]):
        # closures too large to enumerate (2x3 and 1x5 over the image alphabets): seeded random walks of the same model
        if r.error:
            lib.log(r.out[-3000:])
            raise lib.ToolError(f"TLC error in {c}")
        if r.invariant:
            i = r.out.find("Error: Invariant")
            ctx.fail({"scenario": "model", "why": r.invariant, "cfg": c}, f"renderer model {c} (simulation): invariant {r.invariant} violated", {"kind": "model", "cfg": c, "trace": r.out[i:i + 6000]})
        import re as _re
        mm = _re.search(r"The number of states generated: (\d+)", r.out)
        ctx.sim = getattr(ctx, "sim", []) + [{"model": c, "mode": "simulate num=60000 depth=15", "states_visited": int(mm.group(1)) if mm else 0, "wall_s": round(r.wall, 1)}]
    ctx.mc = []
    for (m, c, acts), r in zip(mcs, mc_res):
        if r.error:
            lib.log(r.out[-3000:])
            raise lib.ToolError(f"TLC error in {c}")
        if r.invariant:
            ctx.fail({"why": "model", "cfg": c, "inv": r.invariant},
                     f"model check {c}: invariant {r.invariant} violated by the code-shaped renderer model", {"cfg": c, "trace": r.out[-6000:]})
        else:
            lib.require_coverage(r, acts)
        ctx.mc.append(lib.mc_record(c, r))
    # ---- drive the real code ----------------------------------------------
    jobs = []
    groups = []   # (name, h, w, kind, path)
    seed = ctx.seed

    def add(name, h, w, kind, args, stdin=None):
        p = ctx.path("rec", name + ".ndjson")
        jobs.append((args, stdin, p))
        groups.append((name, h, w, kind, p))

    sizes = [(1, 3, 300), (1, 6, 300), (2, 2, 300), (2, 5, 300), (3, 4, 200)] if q else \
            [(1, 3, 3000), (1, 6, 3000), (2, 2, 3000), (2, 5, 4000), (3, 4, 3000), (3, 8, 2000), (4, 6, 1500), (1, 12, 2000)]
    base = 0
    for h, w_, n in sizes:
        add(f"hist{h}x{w_}", h, w_, "hist", ["c01-drive", "--h", h, "--w", w_, "--n", n, "--seed", seed, "--base", base])
        base += n
    for h, w_, n in ([(2, 5, 300)] if q else [(2, 5, 3000), (3, 4, 2000), (1, 6, 2000)]):
        add(f"amb{h}x{w_}", h, w_, "hist", ["c01-drive", "--h", h, "--w", w_, "--n", n, "--seed", seed, "--amb", 1, "--base", base])
        base += n
    for h, w_, n, im in ([(1, 4, 300, 0), (2, 4, 200, 0), (1, 4, 200, 1)] if q else [(1, 4, 3000, 0), (2, 4, 3000, 0), (2, 6, 2000, 0), (1, 4, 2000, 1), (2, 4, 2000, 1)]):
        add(f"loop{h}x{w_}i{im}", h, w_, "loop", ["c01-loop", "--h", h, "--w", w_, "--n", n, "--seed", seed, "--imgs", im, "--base", base])
        base += n
    # targeted histories: a dirty blank run that meets the area of an image which stays on screen (RenderRunGen.tla)
    runs_p = ctx.path("gen", "runs2x6.ndjson")
    rg = lib.tlc("render/RenderRunGen", "RenderRunGen.cfg", env={"OUT": runs_p}, workers=1, check=True)
    add("runs2x6", 2, 6, "hist", ["c01-replay"], stdin=runs_p)
    # generated surfaces -> pairs
    gens = [(1, 3, "{0,1,2,4,6,9}", 1500 if q else 0), (2, 2, "{0,1,4,6,7}", 1500 if q else 0), (1, 2, "{0,1,13,14}", 0)]
    if not q:
        gens += [(1, 4, "{0,1,2,4,6}", 30000), (2, 3, "{0,1,4,7}", 30000)]
    gen_runs = []
    for h, w_, sub, n in gens:
        gp = ctx.path("gen", f"surf{h}x{w_}.ndjson")
        gen_runs.append(dict(module="render/RenderGen", cfg=cfg(ctx, h, w_, f"Sub = {sub}"), env={"OUT": gp, "TRACE": "/dev/null"}, timeout=900, heap="4g"))
    gres = lib.tlc_parallel(gen_runs)
    nsurf = 0
    for (h, w_, sub, n), r in zip(gens, gres):
        gp = ctx.path("gen", f"surf{h}x{w_}.ndjson")
        nsurf += sum(1 for _ in open(gp))
        add(f"pairs{h}x{w_}", h, w_, "hist", ["c01-pairs", "--n", n, "--seed", seed, "--base", base], stdin=gp)
        base += 2000000
    lib.harness_parallel(jobs)
    # ---- judge ----------------------------------------------------------------
    recs_by_id = {}
    runs = []
    outs = []
    nh = 0
    for name, h, w_, kind, p in groups:
        recs = lib.read_ndjson(p)
        nh += len(recs)
        for r in recs:
            recs_by_id[r["id"]] = (kind, r)
        per = 150 if h * w_ <= 6 else 60
        parts = [recs[i:i + per] for i in range(0, len(recs), per)]
        for i, part in enumerate(parts):
            tp = ctx.path("judge", f"{name}.{i}.ndjson")
            vp = ctx.path("judge", f"{name}.{i}.v.ndjson")
            lib.write_ndjson(tp, part)
            runs.append(dict(module="render/RenderLoopTraceMain" if kind == "loop" else "render/RenderTraceMain",
                             cfg=cfg(ctx, h, w_), env={"TRACE": tp, "OUT": vp}, timeout=1800, heap="2g"))
            outs.append(vp)
    res = lib.tlc_parallel(runs)
    drift = 0
    frames = 0
    for vp in outs:
        if not os.path.exists(vp):
            raise lib.ToolError("judge wrote no verdicts: " + vp)
        for v in lib.read_ndjson(vp):
            kind, r = recs_by_id[v["id"]]
            if v["why"] == "drift":
                drift += 1
                continue
            key = {"why": v["why"], "scenario": kind, "amb_or_dropped": bool(v.get("amb", False)), "imgs": bool(r.get("imgs", r.get("amb", False)))}
            ctx.fail(key, f"history {v['id']} ({kind} {r['h']}x{r['w']}) step {v['step']}: {v['why']}", {"kind": kind, "record": strip(r), "step": v["step"]})
    # ---- run_render on a real pseudo-terminal with the kitty protocol switched on: an image that was delivered, stays
    # as it is while the terminal stalls and frames pile up, and is gone from the first frame after the drop on must be
    # gone from the terminal too (FrameStream.tla, rule "image"); the history avoids C01-stale-image-after-frame-drop
    nimg = 6 if q else 48
    jobs = []
    for i, part in enumerate(lib.shard([{"id": i, "seed": ctx.seed * 1000 + 500 + i, "image": True} for i in range(nimg)], 6)):
        ip = ctx.path("render", f"in.{i}.ndjson")
        lib.write_ndjson(ip, part)
        jobs.append((["isolate", "c16-render"], ip, ctx.path("render", f"rec.{i}.ndjson")))
    lib.harness_parallel(jobs, timeout=3000)
    rrecs = []
    for _, _, f in jobs:
        for r in lib.read_ndjson(f):
            if "outcome" in r:
                r = {"id": r["id"], "seed": r["input"]["seed"], "frames": 0, "markers": [], "drops": 0, "payload": 0, "payload_seen": 0, "image": True, "kitty": [], "panic": r["outcome"]}
            rrecs.append(r)
    rv, _ = lib.judge_sharded(ctx, "io/FrameStream", None, rrecs, "render", nshards=2)
    rby = {r["id"]: r for r in rrecs}
    for v in rv:
        r = rby[v["id"]]
        if v["why"].startswith("image") or v["why"] == "panic":
            ctx.fail({"why": "render: " + v["why"], "scenario": "render-image"},
                     f"run_render on a stalled pty with an image, seed={r['seed']}: {v['why']}; {r['frames']} frames, {r['drops']} drops, kitty commands received {r['kitty']} {r['panic']}"[:900],
                     {"render_session": {"seed": r["seed"], "image": True}})
    live = [r for r in rrecs if r["drops"] and any(c[0] == 1 for c in r["kitty"])]
    if rrecs and not live and not ctx.failures:
        raise lib.ToolError("vacuous image render sessions: no session both placed the image and dropped frames")
    shapes = set()
    for kind, r in recs_by_id.values():
        for o in r.get("ops", []):
            if o["op"] == "frame":
                frames += 1
            shapes.add((kind, r["h"], r["w"], o["op"], json.dumps(o.get("surf"))))
        for e in r.get("ev", []):
            if e["e"] == "frame":
                frames += 1
                shapes.add((kind, r["h"], r["w"], "frame", json.dumps(e["surf"])))
    sample = [strip(r) for _, r in list(recs_by_id.values())[:: max(1, len(recs_by_id) // 3)][:3]]
    cov = {
        "states": sum(m["states"] for m in ctx.mc), "transitions": sum(m["transitions"] for m in ctx.mc),
        "traces_validated_against_impl": nh,
        "samples": sample,
        "model_runs": ctx.mc, "model_simulations": getattr(ctx, "sim", []),
        "frames_judged": frames, "distinct_nontrivial": len(shapes), "evaluations": nh,
        "rule": "histories = seeded random op sequences (frame/clear/recreate/new/skip) on several screen sizes, all ordered pairs of TLC-generated surfaces on small screens, run_render sessions with scripted deliveries/drops/resizes; distinct = distinct (scenario, size, op, surface) tuples",
        "generated_surfaces": nsurf,
        "render_image_sessions": len(rrecs), "render_image_sessions_with_image_and_drop": len(live),
        "model_drift_frames": drift,
    }
    return lib.finish(ctx, "model_checking", cov,
                      ["Screen.tla is the reference terminal (ECH clips at the margin and keeps the cursor, pending-wrap column, wide-character halves orphan to blanks of unspecified face)",
                       "ambiguous surfaces (overlapping footprints, a visible wide character whose right half lies under an image) are judged by the from-scratch comparison only; a wide character that is itself under an image is hidden like every cell there and in the domain",
                       "images are identified by content, faces and characters by a fixed table shared by harness and spec"])


def strip(r):
    r = dict(r)
    r.pop("alpha", None)
    return r


def replay(ctx):
    case = json.load(open(ctx.replay))["case"]
    if "record" not in case:
        # model-level counterexample: re-run that configuration
        r = lib.tlc("render/MCRender" if case["cfg"].startswith("MCRender") else "render/MCLoop", case["cfg"], workers=4, check=False)
        if r.invariant:
            ctx.fail({"why": "model", "cfg": case["cfg"], "inv": r.invariant}, "model counterexample reproduced", case)
        return lib.finish(ctx, "model_checking", {"states": max(1, r.distinct), "transitions": max(1, r.generated), "traces_validated_against_impl": 0, "samples": [case["cfg"]]})
    rec = case["record"]
    kind = case["kind"]
    h, w_ = rec["h"], rec["w"]
    if kind == "loop":
        raise lib.ToolError("loop sessions are re-generated from their seed; re-run the quick check")
    script = {"id": rec["id"], "h": h, "w": w_, "amb": rec.get("amb", False), "ops": [{"op": o["op"], "surf": o.get("surf", [])} for o in rec["ops"]]}
    vp = ctx.path("replay-in.ndjson")
    lib.write_ndjson(vp, [script])
    rp = ctx.path("replay-rec.ndjson")
    lib.harness(["c01-replay"], stdin=vp, stdout=rp)
    out = ctx.path("replay-v.ndjson")
    lib.tlc("render/RenderTraceMain", cfg(ctx, h, w_), env={"TRACE": rp, "OUT": out})
    r = lib.read_ndjson(rp)[0]
    for v in lib.read_ndjson(out):
        if v["why"] != "drift":
            ctx.fail({"why": v["why"], "scenario": kind, "amb_or_dropped": bool(v.get("amb", False)), "imgs": bool(r.get("amb", False))},
                     f"replayed history step {v['step']}: {v['why']}", {"kind": kind, "record": strip(r), "step": v["step"]})
    return lib.finish(ctx, "model_checking", {"states": 1, "transitions": 1, "traces_validated_against_impl": 1, "samples": [strip(r)]})
