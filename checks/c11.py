"""C11: kitty graphics output transmits exactly the image; draw and erase stay paired.

MC   KittyHandler: transmit-if-absent cache x terminal store over all
     histories of draw / erase / error-response events (2 images, 3
     positions incl. the origin).
DRV  c11-drive: real KittyImageHandler, image pool (1x1, empty, cropped and
     strided views, transposed, one/two/three-chunk payloads incl. exact
     multiples of 4096), positions incl. (0,0) and 65535 corners.
JDG  KittyJudge: raw bytes parsed by VT.tla, executed on KittyTerm.tla.
"""
import json
from . import lib

CORNER = {(65535, 65535), (65534, 65535)}


def run(ctx):
    q = ctx.quick
    if ctx.replay:
        ctx.regenerate()
        q = ctx.quick
    mc = lib.tlc("image/KittyHandler", "KittyHandler.cfg", workers=4, coverage=True, check=False, timeout=1200)
    if mc.error:
        lib.log(mc.out[-3000:])
        raise lib.ToolError("TLC error in KittyHandler")
    if mc.invariant:
        i = mc.out.find("Error:")
        ctx.fail({"why": "model", "inv": mc.invariant}, f"KittyHandler model: {mc.invariant} violated", {"trace": mc.out[i:i + 3000]})
    else:
        lib.require_coverage(mc, ["Draw", "Erase", "ErrorResponse"])
    rec = ctx.path("rec.ndjson")
    lib.harness(["c11-drive", "--n", 256 if q else 6000, "--seed", ctx.seed], stdout=rec, timeout=1800)
    recs = lib.read_ndjson(rec)
    verdicts, _ = lib.judge_sharded(ctx, "image/KittyJudge", None, recs, "kitty", nshards=lib.NCPU, timeout=3400, heap="4g")
    by = {r["id"]: r for r in recs}
    for v in verdicts:
        r = by[v["id"]]
        ops = r["ops"]
        o = ops[v["at"] - 1] if v["at"] else None
        # the only two positions that share a placement id (32-bit ids cannot separate 2^32 positions)
        # (the known finding needs BOTH of them in the image's history: one alone must behave)
        # or an error response for the placement at (65535, 65535), whose id maps back to (65534, 65535))
        mine = [p for p in ops[: v["at"]] if o and p["img"] == o["img"]]
        corner = bool(o) and (CORNER <= {(p["r"], p["c"]) for p in mine} or any(p["op"] == "error" and (p["r"], p["c"]) == (65535, 65535) for p in mine))
        hist = [(p["op"], p["img"], (p["r"], p["c"])) for p in ops[: v["at"]]]
        ctx.fail({"why": v["why"], "corner_positions": corner}, f"history {hist}: {v['why']} {r['panic']}"[:800],
                 {"history": [{k: p[k] for k in ("op", "img", "w", "h", "r", "c", "hasp")} for p in ops], "at": v["at"]})
    nops = sum(len(r["ops"]) for r in recs)
    cov = {
        "programs": len(recs), "disagreements_checked": len(verdicts),
        "samples": [[(p["op"], p["img"], p["w"], p["h"], p["r"], p["c"], len(p["bytes"])) for p in r["ops"]] for r in recs[:2]],
        "states": mc.distinct, "transitions": mc.generated,
        "evaluations": nops, "distinct_nontrivial": len({(p["op"], p["w"], p["h"], p["r"], p["c"], len(p["bytes"])) for r in recs for p in r["ops"]}),
        "rule": "one program = one handler history of draw / erase / error-response events; distinct = distinct (operation, image size, position, output length)",
    }
    return lib.finish(ctx, "translation_validation", cov,
                      ["KittyTerm.tla is the reference reading of the graphics protocol (placement id 0 = unspecified)",
                       "the renderer moves the cursor to the position before a draw: the judge does the same",
                       "an error response means the terminal holds neither the image data nor its placements any more"])
