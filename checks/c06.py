"""C06: the library reads back its own SGR output; SGR semantics of the cell writer.

DRV  c06-drive: (a) FaceModify values over every field combination and every
     colour component value, all 192 attribute/underline faces, characters of
     every UTF-8 length -> TTYEncoder (true colour) -> TTYCommandDecoder;
     (b) seeded SGR histories (expressible parameter table incl. ';' and ':'
     colour forms, empty parameters, 4:0..4:5) interleaved with text through
     CellWrite::tty_writer under whole / byte-wise / 3-byte / random chunkings.
JDG  SgrJudge: (a) identity on every expressible field + FaceModify::apply
     semantics, (b) cells = reference SGR machine (VT.tla) on the written bytes.
"""
import json
from . import lib


def run(ctx):
    q = ctx.quick
    rec = ctx.path("rec.ndjson")
    if ctx.replay:
        ctx.regenerate()
        q = ctx.quick
    lib.harness(["c06-drive", "--seed", ctx.seed, "--n", 600 if q else 20000, "--mods", 1500 if q else 4000], stdout=rec, timeout=1800)
    recs = lib.read_ndjson(rec)
    verdicts, _ = lib.judge_sharded(ctx, "vt/SgrJudge", None, recs, "sgr", nshards=lib.NCPU, timeout=3000)
    by = {r["id"]: r for r in recs}
    for v in verdicts:
        r = by[v["id"]]
        key = {"why": v["why"], "t": r["t"]}
        if r["t"] == "writer":
            key["default_colours"] = r["default_colours"]
            what = f"writer: bytes {bytes(r['bytes'])!r}: {v['why']}"
        elif r["t"] == "text":
            what = f"text {r['chars']} read back as {r['decodedchars']}"
        else:
            what = f"{r['t']} {r.get('m') or r.get('f')} written as {bytes(r['bytes'])!r} read back as {r['decoded']} applied {r['applied']}: {v['why']}"
        ctx.fail(key, what[:800] + " " + r["panic"], {"record": {k: r[k] for k in r if k != "named"}})
    cov = {
        "programs": len(recs), "disagreements_checked": len(verdicts),
        "samples": [{"t": r["t"], "bytes": bytes(r.get("bytes", [])).decode("latin1")[:80]} for r in recs[:: max(1, len(recs) // 4)][:4]],
        "evaluations": len(recs), "distinct_nontrivial": len({bytes(r.get("bytes", [])) for r in recs}),
        "rule": "one program = one FaceModify / Face / text chunk encoded and decoded back, or one SGR history written through the cell writer under 4 chunkings; distinct = distinct byte strings",
    }
    return lib.finish(ctx, "translation_validation", cov,
                      ["opaque colours; reverse is not expressible by a modification record and is excluded from the face round trip",
                       "named colours 30-37 / 90-97 are judged against the library's own fixed table (logged), palette entries 16-255 against the xterm palette",
                       "underline colour has no place in Face: it is part of the round trip (a) but not of the writer clause (b)"])
