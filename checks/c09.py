"""C09: text writing stays inside its surface, ignores chunking and loses no cell.

GEN  FlowGen (TLC): EVERY sequence of <= 3 (thorough 4) cells over eight cell
     kinds (narrow / wide / zero-width char, newline, tab, two glyphs with
     fallbacks, image) x widths 1..5 x wrap mode x glyph capability, plus a
     seeded sample of the sequences of <= 5 (6) cells.
DRV  c09-drive: (text) seeded cell sequences (narrow / wide / zero-width
     characters, newlines, tabs, glyphs with fallback text, images) laid out by
     Text for widths 1..12, both wrap modes and both glyph-capability settings,
     rendered into a sub-view of exactly the reported size inside a sentinel
     canvas; (writer) UTF-8 text, controls and SGR sequences written through
     TerminalWriter / utf8_writer / tty_writer into plain, offset, strided and
     transposed sub-views under 5 chunkings (incl. byte-wise).
JDG  WriterJudge (Flow.tla): read-back = Printable / NoWrap, containment,
     identical canvases across chunkings.
"""
from . import lib


def run(ctx):
    q = ctx.quick
    if ctx.replay:
        ctx.regenerate()
        q = ctx.quick
    rec = ctx.path("rec.ndjson")
    # small scope, exhaustive: every cell sequence of <= 3 (thorough 4) cells over FlowGen's eight kinds x widths 1..5 x wrap x glyph
    # settings, plus a seeded sample of the sequences of <= 5 (thorough 6) cells
    vec1, vec2 = ctx.path("flow-all.ndjson"), ctx.path("flow-sample.ndjson")
    gens = lib.tlc_parallel([dict(module="text/FlowGen", cfg="FlowGen.cfg", env={"OUT": vec1, "MAXLEN": "3" if q else "4", "SAMPLE": "0"}, workers=1, seed=ctx.seed, check=True),
                             dict(module="text/FlowGen", cfg="FlowGen.cfg", env={"OUT": vec2, "MAXLEN": "5" if q else "6", "SAMPLE": "4000" if q else "150000"}, workers=1, seed=ctx.seed, check=True)])
    rec1, rec2 = ctx.path("rec-flow-all.ndjson"), ctx.path("rec-flow-sample.ndjson")
    lib.harness_parallel([(["c09-drive", "--n", 1200 if q else 40000, "--seed", ctx.seed], None, rec),
                          (["c09-drive", "--vectors", "--base", 10_000_000], vec1, rec1),
                          (["c09-drive", "--vectors", "--base", 20_000_000], vec2, rec2)], timeout=1800)
    recs = lib.read_ndjson(rec) + lib.read_ndjson(rec1) + lib.read_ndjson(rec2)
    nflow = len(recs) - len(lib.read_ndjson(rec))
    verdicts, _ = lib.judge_sharded(ctx, "text/WriterJudge", None, recs, "writer", nshards=lib.NCPU, timeout=3000)
    by = {r["id"]: r for r in recs}
    for v in verdicts:
        r = by[v["id"]]
        if r["t"] == "text":
            what = f"text width={r['width']} wraps={r['wraps']} glyphs={r['glyphs']} reported size {r['size']} cells {[(c['k'], c['w'], c['h'], c['fb']) for c in r['cells']]} read back {r['read']} outside={r['outside']}"
            key = {"why": v["why"], "t": "text", "glyphs": r["glyphs"], "wraps": r["wraps"]}
            case = {k: r[k] for k in ("t", "cells", "width", "wraps", "glyphs")}
        else:
            what = f"{r['adapter']} into a {r['shape']} view, wraps={r['wraps']}, bytes {bytes(r['bytes'])!r}, outside={[x['outside'] for x in r['runs']]}"
            key = {"why": v["why"], "t": "writer", "adapter": r["adapter"], "shape": r["shape"]}
            case = {k: r[k] for k in ("t", "adapter", "shape", "wraps", "bytes")}
        ctx.fail(key, (what + ": " + v["why"] + " " + r["panic"])[:900], case)
    cov = {
        "evaluations": len(recs), "tlc_generated_small_scope": nflow, "small_scope_space": [g.printed("GENERATED") for g in gens], "distinct_nontrivial": len({(r["t"], r.get("width"), r.get("wraps"), r.get("glyphs"), r.get("adapter"), r.get("shape"), lib.json.dumps(r["cells"]), bytes(r.get("bytes", []))) for r in recs}),
        "rule": "text: (cell sequence, width, wrap mode, glyph capability); writer: (adapter, view shape, wrap mode, byte string) x 5 chunkings; distinct = distinct parameter tuples",
        "samples": [{"t": r["t"], "width": r["width"], "cells": [c["k"] for c in r["cells"]][:10], "read": r["read"][:10]} for r in recs[:2]]
                   + [{"t": "writer", "adapter": r["adapter"], "shape": r["shape"], "bytes": bytes(r["bytes"]).decode("latin1")} for r in [x for x in recs if x["t"] == "writer"][-2:]],
    }
    return lib.finish(ctx, "exploration", cov,
                      ["carriage return moves the cursor back by design and is excluded from the no-lost-cell clause (it is part of the containment / chunking generators)",
                       "cells skipped by a tab or newline only get the face overlaid: a cell counts as written iff its content changed",
                       "display widths of the fixed character pool are tabulated in the harness"])
