"""C09: text writing stays inside its surface, ignores chunking and loses no cell.

DRV  c09-drive: (text) seeded cell sequences (narrow / wide / zero-width
     characters, newlines, tabs, glyphs with fallback text, images) laid out by
     Text for widths 1..12, both wrap modes and both glyph-capability settings,
     rendered into a sub-view of exactly the reported size inside a sentinel
     canvas; (writer) UTF-8 text, controls and SGR sequences written through
     TerminalWriter / utf8_writer / tty_writer into plain, offset, strided and
     transposed sub-views under 5 chunkings (incl. byte-wise).
JDG  WriterJudge (Flow.tla): read-back = Printable / NoWrap, containment,
     identical canvases across chunkings.
"""
from . import lib


def run(ctx):
    q = ctx.quick
    if ctx.replay:
        raise lib.ToolError("re-run the check: inputs are regenerated from the seed")
    rec = ctx.path("rec.ndjson")
    lib.harness(["c09-drive", "--n", 1200 if q else 40000, "--seed", ctx.seed], stdout=rec, timeout=1800)
    recs = lib.read_ndjson(rec)
    verdicts, _ = lib.judge_sharded(ctx, "text/WriterJudge", None, recs, "writer", nshards=lib.NCPU, timeout=3000)
    by = {r["id"]: r for r in recs}
    for v in verdicts:
        r = by[v["id"]]
        if r["t"] == "text":
            what = f"text width={r['width']} wraps={r['wraps']} glyphs={r['glyphs']} reported size {r['size']} cells {[(c['k'], c['w'], c['h'], c['fb']) for c in r['cells']]} read back {r['read']} outside={r['outside']}"
            key = {"why": v["why"], "t": "text", "glyphs": r["glyphs"], "wraps": r["wraps"]}
            case = {k: r[k] for k in ("t", "cells", "width", "wraps", "glyphs")}
        else:
            what = f"{r['adapter']} into a {r['shape']} view, wraps={r['wraps']}, bytes {bytes(r['bytes'])!r}, outside={[x['outside'] for x in r['runs']]}"
            key = {"why": v["why"], "t": "writer", "adapter": r["adapter"], "shape": r["shape"]}
            case = {k: r[k] for k in ("t", "adapter", "shape", "wraps", "bytes")}
        ctx.fail(key, (what + ": " + v["why"] + " " + r["panic"])[:900], case)
    cov = {
        "evaluations": len(recs), "distinct_nontrivial": len({(r["t"], r.get("width"), r.get("wraps"), r.get("glyphs"), r.get("adapter"), r.get("shape"), len(r["cells"]), len(r.get("bytes", []))) for r in recs}),
        "rule": "text: (cell sequence, width, wrap mode, glyph capability); writer: (adapter, view shape, wrap mode, byte string) x 5 chunkings; distinct = distinct parameter tuples",
        "samples": [{"t": r["t"], "width": r["width"], "cells": [c["k"] for c in r["cells"]][:10], "read": r["read"][:10]} for r in recs[:2]]
                   + [{"t": "writer", "adapter": r["adapter"], "shape": r["shape"], "bytes": bytes(r["bytes"]).decode("latin1")} for r in recs[-2:]],
    }
    return lib.finish(ctx, "exploration", cov,
                      ["carriage return moves the cursor back by design and is excluded from the no-lost-cell clause (it is part of the containment / chunking generators)",
                       "cells skipped by a tab or newline only get the face overlaid: a cell counts as written iff its content changed",
                       "display widths of the fixed character pool are tabulated in the harness"])
