"""Single source of truth for MANIFEST.json (bin/mkmanifest)."""

HOOKS = {
    "guard": "verif-hooks (cargo feature of surf_n_term)",
    "enable": "the harness depends on surf_n_term with features = [\"verif-hooks\"] (harness/Cargo.toml, path dependency on /repo)",
    "baseline_off_cmd": "cd /repo && cargo test --workspace --no-fail-fast --offline",
    "source_commits": ["7db4e26"],
    "add_only": True,
}

NOTES = ("Every check: bin/check <ID> [--tier quick|thorough]; TLA+ specs under spec/, Rust conformance harness under harness/ "
         "(path dependency on /repo, rebuilt by cargo on every run), known_findings.json lists recorded/fixed defects. "
         "Exit 0 = held, 1 = VIOLATION line(s), 2 = tool error.")

NOT_APPLICABLE = {}

CHECKS = {
    "C08": {
        "level": "exploration",
        "technique": "TLA+ slice spec model-checked against an element-wise reading of Python slicing; TLC-generated selector vectors replayed through view_bounds in all 10 integer types; TLC judge",
        "text": "Bounded-exhaustive: every selector form x every integer type x bounds in -B..B plus the type's extremes x a list of axis lengths incl. lengths beyond i8/i16 range is replayed through the real ViewBounds impls and each result is judged by TLC against ViewBounds!Resolve, which TLC has itself checked against an independent element-wise reading of Python slicing on all selectors with n<=6.",
        "note": "Trusts TLC, the Json module and the harness's sentinel mapping (+-2e9 -> type MIN/MAX); bounds of magnitude >= 2^31 are abstracted as infinite, exact for axis lengths < 2^31.",
    },
}
