"""Single source of truth for MANIFEST.json (bin/mkmanifest)."""

HOOKS = {
    "guard": "verif-hooks (cargo feature of surf_n_term)",
    "enable": "the harness depends on surf_n_term with features = [\"verif-hooks\"] (harness/Cargo.toml, path dependency on /repo)",
    "baseline_off_cmd": "cd /repo && cargo test --workspace --no-fail-fast --offline",
    "source_commits": ["7db4e26", "c1e7228", "c162341"],
    "add_only": True,
}

NOTES = ("Every check: bin/check <ID> [--tier quick|thorough]; TLA+ specs under spec/, Rust conformance harness under harness/ "
         "(path dependency on /repo, rebuilt by cargo on every run), known_findings.json lists recorded/fixed defects. "
         "Exit 0 = held, 1 = VIOLATION line(s), 2 = tool error.")

NOT_APPLICABLE = {}

CHECKS = {
    "C01": {
        "level": "model_checking",
        "technique": "TLA+ code-shaped renderer model x executable screen model checked by TLC on the closure of small screens; real TerminalRenderer/run_render command streams executed on the TLA+ Screen and judged by TLC against Paint(surface) and the from-scratch repaint",
        "text": "TLC proves Shown and SameAsScratch for the code-shaped two-pass diff (RenderImpl) on the closure (all histories of any length) of 1x3/1x4(/2x2, 2x3, 1x5, 1x6) screens and for run_render with a lossy frame queue (RenderLoop); the model is bound to the code by trace validation: thousands of real histories (all ordered pairs of TLC-generated surfaces on small screens, seeded random histories incl. clear/recreate/skip and ambiguous surfaces on screens up to 4x6, real run_render sessions with drops and resizes) are executed command by command on Screen.tla and must match the surface's denotation and the from-scratch screen; the model's predicted screen is compared too (drift).",
        "note": "Trusts Screen.tla as the reference terminal and the harness's projection of commands/cells (fixed tables, images by content). Known findings: overlapping image footprints; stale placements after a frame drop.",
    },
    "C02": {
        "level": "exploration",
        "technique": "TLA+ generator of structured hostile vectors (family x parameter digit strings) replayed through the three real decoders in crash-isolated workers under three chunkings; TLC judge with arbitrary-precision digit-string arithmetic; tokeniser termination model-checked (liveness)",
        "text": "Every vector of Hostile.tla (14 report families x 19 parameter strings per field incl. empty, zero, leading zeros, 2^16/2^32/2^64 boundaries, 20/40 digits; bare introducers; UTF-8 scalar boundaries; ill-formed and truncated UTF-8 in context) plus a seeded fragment/random corpus is decoded by TTYEventDecoder, TTYCommandDecoder and Utf8Decoder whole, byte-wise and randomly cut, in subprocess workers so that a panic, abort or hang is recorded as data. TLC judges each recording: survival, exhaustion, raw events non-empty and a subsequence of the input, scalar characters, and every numeric field against the BigNat value of the digit string that feeds it. Termination of the reschedule loop is a TLC liveness result on the code-shaped tokeniser (shared with C03).",
        "note": "Bounded generation, not coverage-guided fuzzing; numeric rule accepts exact value, documented clamps, or non-recognition. Trusts the harness's projection of event fields to decimal strings.",
    },
    "C03": {
        "level": "model_checking",
        "technique": "TLA+ code-shaped tokeniser (buffer, reversed reschedule stack, candidate) model-checked against a leftmost-longest specification for all inputs and all read partitions; generated vectors replayed through the hook; production decoders judged by TLC from logged acceptance tables",
        "text": "TLC proves for the code-shaped MatcherDecoder model that, for every pattern set of the configuration (8 shapes quick; all 469 sets of <=3 patterns of length <=3 thorough), every input and EVERY partition into reads, the output equals LLSpec's leftmost-longest tokenisation, bytes are conserved at every step, and (liveness) the reschedule loop terminates. The model is bound to the code by replaying every (pattern set, input) through the real tokeniser (hook) under 5 chunkings, and the production event/command decoders are judged on a seeded corpus: TLC computes the tokenisation from the production automaton's logged acceptance table and requires the events of every chunking to equal the concatenation of the per-token events.",
        "note": "Trusts the hook module (add-only wrapper), the Debug rendering of events as their identity, and C15 for the DFA = pattern-set abstraction. Inputs on which a decoder crashes are counted and left to C02.",
    },
    "C08": {
        "level": "exploration",
        "technique": "TLA+ slice spec model-checked against an element-wise reading of Python slicing; TLC-generated selector vectors replayed through view_bounds in all 10 integer types; TLC judge",
        "text": "Bounded-exhaustive: every selector form x every integer type x bounds in -B..B plus the type's extremes x a list of axis lengths incl. lengths beyond i8/i16 range is replayed through the real ViewBounds impls and each result is judged by TLC against ViewBounds!Resolve, which TLC has itself checked against an independent element-wise reading of Python slicing on all selectors with n<=6.",
        "note": "Trusts TLC, the Json module and the harness's sentinel mapping (+-2e9 -> type MIN/MAX); bounds of magnitude >= 2^31 are abstracted as infinite, exact for axis lengths < 2^31.",
    },
    "C15": {
        "level": "model_checking",
        "technique": "TLA+ transcription of the NFA combinators (in-place epsilon edges, renumbering), closure and subset run model-checked against regular-expression semantics for all expressions up to an operator bound; same expressions replayed through the public NFA API and judged by TLC",
        "text": "TLC checks, one state per expression, that the code-shaped construction accepts exactly the language of every expression with <= 3 (thorough 4) operators over two symbols on every string of length <= 4 (5), that tags after a string are exactly the matching alternatives of every tagged pair, and that terminal states admit no matching extension. Every one of these expressions is then built through the real NFA API under three byte mappings (incl. 0x00 and 0xFF), compiled, and walked; TLC judges accept/tags/terminal per string and that all 256 bytes are answered with a dead transition outside the alphabet.",
        "note": "The n-ary combinators are exercised along three construction routes per expression (binary calls; every operand wrapped in a one-alternative choice; nested seq/alt flattened into one n-ary call with one-element sequence wrappers). Single-byte literals only; byte classes and the production grammars are covered indirectly via C03/C04. Terminal is judged in the sound direction only.",
    },
    "C16": {
        "level": "model_checking",
        "technique": "TLA+ code-shaped IOQueue (chunks/offset/length) model-checked to refine a flush-delimited byte-deque spec; real IOQueue operation scripts trace-validated step by step against the spec (set of compatible spec states across drops); pty sessions of the real terminal object judged by PollTrace",
        "text": "TLC proves IOQueueImpl => IOQueueSpec (remaining bytes chunk by chunk, reported length = readable bytes, FIFO, the implementation's drop is one of the drops the property allows) over all write/flush/read/consume/drop sequences within the bound. Thousands of seeded scripts on the real IOQueue are then validated as behaviours of IOQueueSpec, comparing len, chunk count, front slice and every read result after every step. The terminal-level clause (short writes, EAGAIN, draining peer, frames_drop) is judged on real pseudo-terminal sessions instrumented with the verif-hooks events (see C17).",
        "note": "The render loop itself is run on a pty with a stranded payload (16 quick / 200 thorough sessions) and the received stream must consist of whole frames (FrameStream.tla: begin / end markers alternate). Queue bound: chunks <= 3/4, bytes <= 5/8 in the model; kernel scheduling of the pty sessions is sampled, not enumerated.",
    },
    "C18": {
        "level": "model_checking",
        "technique": "TLA+ trie model (replace-on-register, lookup fold, two-round lookup_state) model-checked to refine a prefix-free dictionary spec over all registration histories and fed key sequences; the same histories replayed on KeyMap/KeyMapHandler and judged by TLC; parser vectors generated from a TLA+ syntax module",
        "text": "TLC proves KeyTrie => KeyMapSpec for every history of <= 3 registrations of chords of length <= 3 over 2 (thorough 3) keys - enumeration = bound set, every lookup result, prefix-freeness - and the handler clauses (fires exactly at the last key of a chord typed from a clean point, never otherwise) for every fed key sequence, plus a long-chord configuration (length 4, 6 fed keys). Every one of these histories is replayed on the real KeyMap, register_override (two halves), lookup_state and KeyMapHandler with one extra unbound key, and judged by TLC. Key/chord parsers: 3 384 (text, expected value) vectors from KeySyntax.tla (36 names x modifier subsets), 12 486 hostile token concatenations and seeded non-ASCII strings: no panic, expected value, canonical print, print/parse and serde round trip.",
        "note": "Handler clauses are judged only from points where the property speaks (start, after a fire, after an unbound key at idle, after a key occurring in no chord).",
    },
    "C14": {
        "level": "model_checking",
        "technique": "TLA+ streaming codec model (3-byte carry encoder; 4-in/3-out decoder with short reads, bounded buffer and drains) model-checked against closed-form RFC 4648 functions; real encoder/decoder runs judged by TLC with the same closed forms",
        "text": "TLC proves for the code-shaped B64Stream model that finish() output equals Base64!Encode for every input of <= 5 (thorough 7) bytes over {0x00,0x41,0xFF} and EVERY partition into writes (incl. empty writes), that reading to the end yields Decode(text) for every read-size schedule (1..4 bytes per underlying read) and drain schedule, that an error arises only for text whose length is not a multiple of four and that such text is never accepted silently. Thousands of real runs (lengths 0..70 and around 96/128/192/256/768/4096, random partitions, 12 read schedules, 14 destination sizes, truncated/padding-heavy/arbitrary text) are judged by TLC against the same closed forms.",
        "note": "Trusts Base64.tla as the RFC 4648 reference (prototype cross-checked against CPython's codec during design).",
    },
    "C07": {
        "level": "exploration",
        "technique": "TLA+ matrix-of-parent-positions specification of views (reusing the slice spec); TLC-generated view programs replayed over four ownership routes; TLC judge incl. iter_mut addresses as parent offsets",
        "text": "TLC generates thousands of view programs (8 parent shapes incl. zero extents; chains of up to three view/transpose steps; every selector form with bounds beyond the axis; single steps exhaustive over the sampled selector set). Each is executed through the real trait methods on an owned nested view, a shared reference, a mutable reference and as_mut(), and TLC judges size, row-major iteration, get at every position incl. one past each edge, the parent after fill / clear / fill_with / insert (six insertion points incl. beyond the window) / set, map, and that iter_mut hands out exactly the window cells' addresses, each once (addresses logged as parent offsets).",
        "note": "Selector bounds of extreme magnitude (ViewBounds!PosInf / NegInf) are instantiated by the harness with u64::MAX, usize::MAX, 2^63, i64::MAX and i64::MIN. UB-freedom of the unsafe iterator proper is Miri's domain, not decided here; only its observable contract is.",
    },
    "C17": {
        "level": "model_checking",
        "technique": "TLA+ select-loop model (waker self-pipe, signal pipe, write queue, kernel buffers, peer) model-checked for safety and liveness; real terminal object on a pseudo-terminal instrumented with verif-hooks, every session's totally ordered event trace validated by a TLC trace spec",
        "text": "TLC checks the code-shaped poll loop against its environment (concurrent waker calls, SIGWINCH, peer input/drain, short writes, timeouts of every kind): a completed wake is always in the pipe until read, a pipe read queues exactly one Wake, inputs are conserved, and under fairness of the polling thread a pending wake is read while polls remain. The model is bound to the code by trace validation: seeded sessions of the real UnixTerminal on a pty (wake threads, SIGWINCH, typed keys, frames up to 300 kB with slow peers, frame drops, polls with zero/finite/no timeout, release after normal use / quit / double quit / pending output) log hook events and harness events under one atomic sequence; PollTrace requires every event to be a step of the specification - event queue FIFO incl. while output is pending, every wake followed by a waker read and a delivered Wake, SIGWINCH -> Resize, term signal -> Quit, line settings restored and equal to those at open, closing sequence seen by the peer.",
        "note": "Session scenarios: normal, big (large frames, partial writes), quit / quit2 (one or two termination signals), pending (release with queued output), burst (2..1025 wake requests between two polls, incl. multiples of 64 and 1024). Interleavings are exhaustive in the model only; pty sessions sample the kernel's schedules. Real time is not modelled (finite timeouts and a bounded quiescence loop stand for 'bounded time').",
    },
    "C20": {
        "level": "exploration",
        "technique": "TLA+ specification of the xterm 256-colour palette and the linear-light metric in integer fixed point with a sound rounding slack; real encoder output for colours (all 2^24 in the thorough tier) judged by TLC",
        "text": "Every colour of the tier's set (quick: step-8 lattice x all b, all near-neutral colours, slabs around cube midpoints, ~320k colours; thorough: all 2^24, exhaustive) is encoded by the real TTYEncoder as foreground, background and underline colour under each depth. TLC judges: the 256-colour entry lies in 16..255 and is not provably farther than any of the 240 entries (squared distance in 2^14 fixed point from the exact sRGB transfer function; the separable bound makes the 240-way minimum cheap), all three roles agree, the grey level is the nearest of {0,.33,.66,1} by integer luminance (hence monotone), and true-colour components are unchanged.",
        "note": "A choice within the rounding slack of the optimum (about 1e-4 relative) is accepted; perceptual closeness beyond the library's own metric is not judged.",
    },
    "C05": {
        "level": "translation_validation",
        "technique": "TLA+ ECMA-48/xterm control-sequence parser and SGR rendition machine (VT.tla) interprets the bytes the real encoder emits for every command; per-command expected operations written in the EncoderJudge spec",
        "text": "Every TerminalCommand variant with boundary parameters (0, 1, 65535, 2^32, usize::MAX-1, +-1, i32::MAX, i32::MIN), every DEC mode set/reset/query, all 192 attribute x underline faces with sampled (thorough: all) colour pairs incl. translucent ones, thousands of FaceModify field combinations, under the three colour depths and both keyboard-capability settings, is encoded by the real TTYEncoder; TLC parses the bytes with an independent VT interpreter and requires exactly the commanded operation (numbers as digit strings + BigNat increment; a Face must yield exactly the requested rendition from both a default and a fully busy prior rendition). Streams of 2-5 commands and repetition templates through one encoder must parse to the concatenation of the commands' own operations and each command must emit the same bytes as a fresh encoder.",
        "note": "The interpreter is xterm's reading of ECMA-48 (0 = default 1 for ECH/CUx, 22 normal intensity).",
    },
    "C06": {
        "level": "translation_validation",
        "technique": "encoder output decoded back by the library's own command decoder and compared field by field; SGR histories through the cell writer judged against the TLA+ SGR rendition machine",
        "text": "(a) FaceModify values over all combinations of reset/underline/bold/italic/blink/strike with sampled colours plus every colour component value 0..255, the 192 attribute x underline faces, and characters of every UTF-8 length are written by TTYEncoder in true-colour mode and read back by TTYCommandDecoder; TLC requires identity on every expressible field, that the read-back modification rebuilds the face from a plain and from a busy face (spec semantics AND the real FaceModify::apply), and identical characters. (b) Seeded SGR histories from the expressible parameter table (';' and ':' colour forms, empty parameters, 4:0-4:5, 22/23/24/25/29) interleaved with multi-byte text are written through CellWrite::tty_writer whole, byte-wise, in 3-byte pieces and randomly cut; the cells' faces must equal those of VT.tla's SGR machine and be chunking-independent.",
        "note": "Known finding: SGR 39/49 cannot be expressed by FaceModify and are ignored by the writer.",
    },
    "C04": {
        "level": "exploration",
        "technique": "TLA+ protocol printer (TtyProtocol.tla) generates byte strings together with the abstract events they denote for every report/key family and their concatenations; the real event decoder's output is projected onto the same abstract records and compared by TLC",
        "text": "The printer spec writes out the naming tables (legacy CSI ~ codes with and without modifiers, CSI/SS3 letters, C0 and ESC-prefixed keys, kitty key codes incl. F13-F35 and modifier masks, all 256 SGR mouse button codes, DEC modes and statuses) and encodes CPR, size pairs, DECRPM, DA1, OSC 4/10/11 colours in #rrggbb and rgb:h/h/h with 1-4 digits and both terminators, XTGETTCAP in lower- and upper-case hex with every hex letter in either nibble, DECRPSS, kitty graphics responses, bracketed paste, SGR in ';' and ':' forms with several colours and mid-sequence resets, UTF-8 scalars at every length boundary, ambiguous ESC-prefixed keys followed by text that keeps a longer candidate alive, all ordered pairs of family representatives with and without text between them, and triples ending in ambiguous keys (about 4 400 vectors). Each is decoded whole, byte-wise and in 3-byte reads; TLC requires the projected events to equal the encoded ones.",
        "note": "Bounded generation from the printer's value sets (coordinates {1,2,9,10,99,100,255,256,65535}); naming follows the library's documented table where terminals differ.",
    },
    "C11": {
        "level": "translation_validation",
        "technique": "raw bytes of the real kitty handler parsed by the TLA+ VT parser and executed on a TLA+ kitty-graphics terminal machine (KittyTerm) with closed-form base64; abstract handler x terminal model checked by TLC",
        "text": "TLC checks the abstract handler (transmit-if-absent cache, position-derived placement ids, erase by id pair, eviction on error) against the terminal store over all histories of 5 draw/erase/error events on 2 images and 3 positions incl. the origin. Real histories (image pool, incl. equal content in separate allocations - histories speak about images by content as the terminal does: 1x1, empty, cropped/strided/transposed views, payloads of one, exactly one, exactly two and three 4096-byte chunks; positions incl. (0,0) and the 65535 corners; error responses with and without placement id) are judged command by command: chunk sizes and continuation flags, f/s/v/i keys, decoded payload = the image's RGBA pixels in row-major order, no retransmission while the terminal holds the image, every put refers to a held image, and the placements the terminal holds equal those drawn and not erased.",
        "note": "Known finding: the two bottom-right corner positions share a placement id (pigeonhole on 32-bit ids).",
    },
    "C12": {
        "level": "translation_validation",
        "technique": "raw sixel bytes of the real handler interpreted by a TLA+ reference sixel machine (raster, registers, repeat, band/CR) and compared with the source pixels",
        "text": "Images (1..24 x 6..20 and wide ones up to 710 columns with long runs; 1..1000 colours distinct at sixel's 0-100 resolution incl. exactly 255/256/257; transparent pixels over a configured background; two equal-size rectangular crops and two full-width row crops of one parent plus the parent on one handler; every image drawn twice) go through the real SixelImageHandler. TLC runs the reference interpreter over the bytes and requires one well-formed sequence, declared size (width, 6*floor(h/6)), every raster pixel painted and none outside, every used register defined with channels <= 100, pixel-for-pixel equality with the source at 0-100 resolution when it has <= 256 distinct colours, and identical bytes for the repeated draw.",
        "note": "Colour fidelity beyond 256 colours is C13's subject; only alpha 0/255 generated.",
    },
    "C13": {
        "level": "model_checking",
        "technique": "TLA+ transcription of the k-d tree (median build with duplicates, branch-and-bound search) model-checked to be an arg-min for every small palette and query; real ColorPalette::find / Image::quantize results judged by TLC against the property-level Quantize spec",
        "text": "TLC checks the code-shaped k-d tree for every palette (multiset) of <= 4 (thorough 5) points on a 3x3 grid and on the 2x2x2 cube against every query: the search result is at minimal distance and is the indexed colour. Real lookups on palettes of 1..512 colours (random, duplicated and collinear clusters, tiny grids, the crate's LCG palette; sizes around 256/257/512) with random queries and neighbours of palette points, and real quantisations (cropped views incl. small crops of large parents, k in {1,2,7,8,9,16,255,256,1000}, both dither settings, alpha 0/128/255 over two backgrounds) are judged: palette size within 1..max(k,8), index image of the same size with valid entries, nearest colour per pixel without dithering, exact reproduction when the distinct colours fit k and the view is below the sampling threshold.",
        "note": "Octree insertion/pruning is judged only through these end-to-end bounds (no code-shaped octree model yet).",
    },
    "C10": {
        "level": "exploration",
        "technique": "TLA+ layout-tree semantics (absolute clipped rectangles, first-match FindPath) judging recordings of real view trees with probe leaves; small flex/container/decorator families enumerated by a TLC generator, deeper trees seeded; crash/hang isolation per tree",
        "text": "ViewTreeGen enumerates 304 560 small trees x constraints (flex: 2 directions x 6 justifications x 0..3 probe children over alignments and flex factors; container: sizes x 6x6 alignments x margins; frame/option/either/tag/dynamic decorators; 36 constraints incl. zero and one-cell extents); seeded random trees of depth <= 4 add text, scroll bar, fill, surface, image and glyph leaves, offsets up to i32::MIN/MAX, margins up to usize::MAX, flex factors 1e-9..1e9 and unbounded constraints. Each tree is built through the typed API and, when it has a JSON form, through ViewDeserializer, laid out, rendered into a sentinel-bordered sub-view (as large as the constraint, as the reported size, smaller, or a fixed window) and hit-tested at every cell in crash-isolated workers. LayoutJudge requires: no panic/error/timeout, nothing outside the surface or the root rectangle modified, root size within the constraint, every leaf painting only inside the clipped rectangle its layout node records, every cell covered by a filling leaf showing the last such leaf in render order, and find_path equal to LayoutTree!FindPath and leading to the leaf drawn there.",
        "note": "Quick tier samples 1 500 of the enumerated vectors (seeded RandomSubset) plus 6 000 random trees; thorough runs all of them plus 300 000 random trees. Exact-cell clause only on trees without anonymous painters (image, glyph, frame border, faces).",
    },
    "C19": {
        "level": "exploration",
        "technique": "TLA+ syntax specifications as generators (FaceSyntax printer with syntactic variants, chord tables, Base64!Encode image documents, crop windows) and a TLA+ generator of hostile JSON documents; real (de)serialisers run per vector in crash/hang-isolated workers; TLC judge compares abstract values and decodes the serialised pixels with Base64!Decode",
        "text": "SerdeGen enumerates 4 248 face texts (all 192 attribute sets x 4 colour settings and all 49 colour pairs x 6 attribute sets, each written canonically, reversed with upper-case hex and explicit alpha, with blanks, and with a trailing comma), 4 788 chords of 1..3 keys, 144 sizes at the 8/16/32/63/64-bit boundaries, 216 image documents in the 1/3/4-channel layouts (12 sizes incl. empty, 6 key orders, default channels) and every crop window of 4 parent images (279). The judge requires: the parser reads each text as the value the syntax spec says it denotes; Display -> FromStr and to_value/from_value (and to_string/from_str) reproduce the abstract value; the JSON form equals the printed text; image pixels equal the document's; the re-serialised data decodes (Base64!Decode) to the view's RGBA pixels in row-major order and deserialises to the same pixels; a crop of a crop serialises identically. HostileJson adds about 7 000 documents for the image, glyph, text and view deserialisers (extreme / ill-typed sizes, channels and data, repeated and missing keys, invalid base64, glyph paths / view boxes / frames, every view type x payload, flex and container fields with extreme numbers, nesting up to serde_json's limit): each must give a value or an error within 10 s without panic, and every value is laid out and rendered under 5 constraints x both glyph settings inside a sentinel canvas.",
        "note": "Known finding: a zero-radius arc in a glyph path hangs the path parser of the dependency `rasterize`. Quick tier keeps every third face / chord vector.",
    },
    "C09": {
        "level": "exploration",
        "technique": "TLA+ reference flow of cell sequences (Printable / NoWrap); real Text layout+render and writer adapters driven with seeded inputs inside sentinel canvases; TLC judge",
        "text": "Seeded cell sequences (narrow, wide and zero-width characters, newlines, tabs, glyphs with fallback text incl. wide fallbacks, images of 1..3 x 1..2 cells) are laid out by Text for every width 1..12, both wrap modes and both glyph-capability settings and rendered into a sub-view of exactly the reported size inside a sentinel canvas: TLC requires the row-major read-back to equal Flow!Printable (every printable unit once, in order) or Flow!NoWrap (only units beyond the right edge dropped) and nothing outside the sub-view to change. UTF-8 text, controls (incl. CR) and SGR sequences are written through TerminalWriter, utf8_writer and tty_writer into plain, offset, strided and transposed sub-views whole, byte-wise, in 2- and 3-byte pieces and randomly cut: the canvases must be identical and the surroundings untouched.",
        "note": "Seeded random generation (1 200 quick / 40 000 thorough cases per clause), not exhaustive.",
    },
}

