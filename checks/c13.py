"""C13: colour quantisation: bounded palette, valid indices, exact nearest-colour search.

MC   KDTree: median build with duplicates + branch-and-bound search is an
     arg-min for EVERY palette of <= 4 (5) points on a 3x3 grid and the 2^3
     cube, and every query.
DRV  c13-drive: real ColorPalette::find on palettes of 1..512 colours (random,
     duplicated/clustered, tiny-grid, the crate's LCG palette) x queries incl.
     neighbours of palette points; Image::quantize on cropped views (incl. small
     crops of large parents) with k in {1,2,7,8,9,16,255,256,1000}, both dither
     settings, alpha 0/128/255 over two backgrounds.
JDG  Quantize.tla.
"""
from . import lib


def run(ctx):
    q = ctx.quick
    if ctx.replay:
        ctx.regenerate()
        q = ctx.quick
    cfgs = ["KDTree.quick.cfg", "KDTree.d3.cfg"] if q else ["KDTree.thorough.cfg", "KDTree.d3.cfg"]
    mcs = lib.tlc_parallel([dict(module="image/KDTree", cfg=c, workers=6 if q else 8, check=False, timeout=3400, heap="6g") for c in cfgs])
    for c, r in zip(cfgs, mcs):
        if r.error:
            lib.log(r.out[-3000:])
            raise lib.ToolError("TLC error in " + c)
        if r.invariant:
            i = r.out.find("Error:")
            ctx.fail({"why": "model", "cfg": c}, f"KDTree model {c}: search result is not an arg-min", {"trace": r.out[i:i + 2500]})
        ctx.mc.append(lib.mc_record(c, r))
    rec = ctx.path("rec.ndjson")
    lib.harness(["c13-drive", "--n", 120 if q else 3000, "--seed", ctx.seed, "--queries", 60 if q else 150], stdout=rec, timeout=1800)
    recs = lib.read_ndjson(rec)
    verdicts, _ = lib.judge_sharded(ctx, "image/Quantize", None, recs, "quant", nshards=lib.NCPU, timeout=3400, heap="4g")
    by = {r["id"]: r for r in recs}
    for v in verdicts:
        r = by[v["id"]]
        if r["t"] == "find":
            what = f"palette of {len(r['pal'])} colours, {len(r['qs'])} queries: {v['why']}"
            case = {"t": "find", "pal": r["pal"], "qs": r["qs"][:50]}
        elif r["t"] == "flat":
            what = f"quantize {r['w']}x{r['h']} (flat areas {r['cols']}) k={r['k']} dither={r['dither']} -> palette of {r['np']}, colours mapped to {r['maps']}: {v['why']}"
            case = {k: r[k] for k in ("t", "cols", "w", "h", "k", "dither")}
        else:
            what = f"quantize {r['w']}x{r['h']} k={r['k']} dither={r['dither']} -> palette of {len(r['pal'])}: {v['why']}"
            case = {k: r[k] for k in ("t", "px", "w", "h", "k", "dither")}
        ctx.fail({"why": v["why"], "t": r["t"]}, what + " " + r["panic"], case)
    cov = {
        "states": sum(m["states"] for m in ctx.mc), "transitions": sum(m["transitions"] for m in ctx.mc),
        "traces_validated_against_impl": len(recs),
        "samples": [{"t": r["t"], "palette_size": len(r.get("pal", [])), "k": r.get("k"), "w": r.get("w"), "h": r.get("h")} for r in recs[:: max(1, len(recs) // 4)][:4]],
        "model_runs": ctx.mc,
        "evaluations": sum(len(r.get("qs", [])) + len(r.get("idx", [])) for r in recs),
        "distinct_nontrivial": len({(r["t"], len(r.get("pal", [])), r.get("k"), r.get("dither")) for r in recs}),
        "rule": "find: palette x queries; quantize: (image, k, dither, background); distinct = distinct (kind, palette size, k, dither)",
    }
    return lib.finish(ctx, "model_checking", cov,
                      ["transparent pixels: the composited colour is the one the rasterize crate computes (logged as data)",
                       "perceptual quality of dithering / pruning is not judged, only the stated bounds and exactness clauses"])
