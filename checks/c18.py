"""C18: key-chord maps behave as a last-writer-wins, prefix-free dictionary.

MC   KeyTrie => KeyMapSpec: every registration history, every lookup, every
     key sequence fed to the two-round stateful matcher.
GEN  KeyGen (registration histories), KeySyntax (key/chord texts with their
     expected value; hostile token concatenations).
RPL  c18-replay (KeyMap, register_override, lookup_state, KeyMapHandler),
     c18-parse (Key / KeyChord FromStr, Display, serde) in the harness.
JDG  KeyJudge.
"""
import json
from . import lib


def run(ctx):
    q = ctx.quick
    tier = "quick" if q else "thorough"
    nkeys = 2 if q else 3
    if ctx.replay:
        case = json.load(open(ctx.replay))["case"]
        mc = None
    else:
        mc, mc2 = lib.tlc_parallel([dict(module="keys/KeyTrie", cfg=f"KeyTrie.{tier}.cfg", workers=6 if q else 12, coverage=True, check=False, timeout=3400, heap="8g"),
                                    dict(module="keys/KeyTrie", cfg="KeyTrie.long.cfg", workers=4, coverage=True, check=False, timeout=3400, heap="6g")])
        # unbounded complement (Apalache): Register keeps the dictionary prefix-free over any key alphabet
        lib.inductive(ctx, "apalache/KeyMapInd", "KeyMapInd", "NextBad", "Apalache, Gen(4) chords of Gen(4) integer keys",
                      registered=("Registered (3 registrations)", dict(init="Init", inv="Registered", length=3)))
        if mc2.error or mc2.invariant:
            lib.log(mc2.out[-3000:])
            raise lib.ToolError("KeyTrie.long.cfg failed")
        ctx.mc.append(lib.mc_record("KeyTrie.long.cfg", mc2))
        if mc.error:
            lib.log(mc.out[-3000:])
            raise lib.ToolError("TLC error in KeyTrie")
        if mc.invariant:
            i = mc.out.find("Error:")
            ctx.fail({"why": "model", "inv": mc.invariant}, f"key trie model: {mc.invariant} violated", {"trace": mc.out[i:i + 3000]})
        else:
            lib.require_coverage(mc, ["DoRegister", "Feed"])
    hist = ctx.path("hist.ndjson")
    histl = ctx.path("hist-long.ndjson")
    syn = ctx.path("syntax.ndjson")
    if ctx.replay:
        lib.write_ndjson(hist, [{"regs": case["regs"]}] if "regs" in case else [])
        lib.write_ndjson(histl, [{"regs": case["regs"]}] if "regs" in case else [])
        lib.write_ndjson(syn, [case["vector"]] if "vector" in case else [])
    else:
        lib.tlc_parallel([dict(module="keys/KeyGen", cfg=f"KeyGen.{tier}.cfg", env={"OUT": hist}, heap="6g", timeout=1800),
                          dict(module="keys/KeyGen", cfg="KeyGen.long.cfg", env={"OUT": histl}, heap="6g", timeout=1800),
                          dict(module="keys/KeySyntax", cfg=None, env={"OUT": syn}, heap="4g", timeout=900)])
    r1 = ctx.path("maps.ndjson")
    r2 = ctx.path("parse.ndjson")
    r3 = ctx.path("maps-long.ndjson")
    lib.harness_parallel([(["c18-replay", "--keys", nkeys, "--maxlen", 3, "--feedlen", 4], hist, r1),
                          (["c18-replay", "--keys", 2, "--maxlen", 4, "--feedlen", 5, "--base", 500000], histl, r3),
                          (["isolate", "c18-parse", "--seed", ctx.seed], syn, r2)])
    maps = lib.read_ndjson(r1) + lib.read_ndjson(r3)
    parses = []
    for r in lib.read_ndjson(r2):
        if "outcome" in r:   # worker died on this vector
            src = r["input"]
            src.update({"id": r["id"], "ok": False, "name": "", "bits": 0, "display": "", "roundtrip": True, "panic": r["outcome"]})
            parses.append(src)
        else:
            parses.append(r)
    verdicts, _ = lib.judge_sharded(ctx, "keys/KeyJudge", None, maps + parses, "keys", nshards=lib.NCPU, timeout=3000)
    by = {r["id"]: r for r in maps + parses}
    for v in verdicts:
        r = by[v["id"]]
        if r["kind"] == "map":
            ctx.fail({"why": v["why"]}, f"registrations {r['regs']}: {v['why']} (enum={r['enum']} override={r['ovenum']})"[:500], {"regs": r["regs"]})
        else:
            vec = {k: r[k] for k in ("kind", "mode", "text", "exptext", "expname", "expbits")}
            ctx.fail({"why": v["why"], "kind": r["kind"]}, f"{r['kind']} text {r['text']!r}: {v['why']} (parsed ok={r['ok']} name={r['name']} bits={r['bits']} display={r['display']!r} panic={r['panic']})", {"vector": vec})
    cov = {
        "states": (mc.distinct + sum(m["states"] for m in ctx.mc)) if mc else 1, "transitions": (mc.generated + sum(m["transitions"] for m in ctx.mc)) if mc else 1,
        "traces_validated_against_impl": len(maps),
        "samples": [{"regs": m["regs"], "enum": m["enum"], "feeds": m["feeds"][:3]} for m in maps[:: max(1, len(maps) // 2)][:2]] + [{"text": p["text"], "ok": p["ok"], "display": p["display"]} for p in parses[:2]],
        "evaluations": sum(len(m["lookups"]) + len(m["feeds"]) + 2 for m in maps) + len(parses),
        "distinct_nontrivial": len({json.dumps(m["regs"]) for m in maps}) + len({p["text"] for p in parses}),
        "rule": "every registration history of <= 3 chords (length <= 3) over the key set; per history all lookups over one more key, enumeration, override merge of its two halves, every key sequence of length <= 4 through lookup_state and KeyMapHandler; parser vectors: 36 names x modifier subsets with expected value, all concatenations of <= 3 hostile tokens, every printable ASCII character bare / double-quoted / single-quoted alone and under ctrl+ and shift+alt+ as a key and as the second key of a chord, seeded non-ASCII strings",
        "exhaustive": True,
    }
    return lib.finish(ctx, "model_checking", cov,
                      ["the handler clause is judged from points where the property speaks: start, after a fire, after a key that begins no chord (idle) or occurs in no chord",
                       "parser: accepted texts must print to a text that parses back to the same value (harness compares two projected values)"])
