"""C17: wake-ups and signals are never lost; the tty is restored on every exit path.

MC   PollLoop: select loop x waker threads x signal pipe x peer (safety:
     WakeSafe, InputOK, OrderOK, NoTear; liveness WakeLive under fairness of
     the polling thread; WakeQueued action property).
     SizeMode: escape-sequence size mode (request / answer / Resize against
     frames, flushes and frames_drop): NoLostResize, KnownAgrees, Monotone,
     EventuallyTold; two controls (the tree as found, the rejected first
     repair) must violate NoLostResize.
DRV  c17-pty: the real terminal object on a pseudo-terminal; seeded sessions
     with concurrent wake calls, SIGWINCH, typed keys, frames beyond the pty
     buffer, frame drops, polls of every timeout kind, and release after a
     normal session / quit / double quit / with output pending.
JDG  PollTrace: hook events + harness events of each session must be a
     behaviour of the specification.
"""
import json
from . import lib, pty


def run(ctx):
    if ctx.replay:
        # sessions are regenerated from the recorded seed; timing-dependent schedules may differ between runs
        ctx.regenerate()
    runs = pty.model_runs(ctx, "C17")
    res = lib.tlc_parallel([r[0] for r in runs])
    for (kw, name, acts), r in zip(runs, res):
        if r.error:
            lib.log(r.out[-3000:])
            raise lib.ToolError("TLC error in " + name)
        if r.invariant:
            i = r.out.find("Error:")
            ctx.fail({"why": "model", "cfg": name, "inv": r.invariant}, f"model {name}: {r.invariant} violated", {"cfg": name, "trace": r.out[i:i + 4000]})
        elif acts:
            lib.require_coverage(r, acts)
        ctx.mc.append(lib.mc_record(name, r))
    pty.size_mode_controls(ctx)
    n = 0
    if not ctx.replay:
        n = pty.sessions(ctx, "C17")
    cov = {
        "states": max(1, sum(m["states"] for m in ctx.mc)), "transitions": max(1, sum(m["transitions"] for m in ctx.mc)),
        "traces_validated_against_impl": n,
        "samples": [ctx.cov.get("pty_sample") or "replay"],
        "model_runs": ctx.mc, "pty_events_judged": ctx.cov.get("pty_events", 0),
    }
    return lib.finish(ctx, "model_checking", cov,
                      ["real time is not modelled: 'bounded time' is the harness's finite poll timeouts and its bounded quiescence loop; a session that never becomes quiet is reported",
                       "kernel scheduling of the sessions is sampled (seeded peer rates, thread delays), the interleavings are explored exhaustively only in the model",
                       "events of all threads are ordered by one atomic sequence taken under the sink lock; effects visible to another thread are bracketed by start/end events"])
