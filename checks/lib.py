"""Common machinery for /verif/bin/check.

A check is a python module checks/cNN.py exposing run(ctx).  It uses the
helpers below to (1) build the Rust harness against /repo's working tree,
(2) run TLC (model checking / generation / judging), (3) turn TLC verdicts into
VIOLATION / KNOWN-FINDING lines and an evidence file.

Exit codes: 0 property held on everything explored; 1 at least one violation
not listed in known_findings.json (a VIOLATION line was printed); 2 tool error
(our own machinery failed: build error, TLC parse error, timeout) - never a
VIOLATION line.
"""
import json
import os
import re
import shutil
import subprocess
import sys
import time

VERIF = os.path.dirname(os.path.dirname(os.path.abspath(__file__)))
SPEC = os.path.join(VERIF, "spec")
OUT = os.path.join(VERIF, "out")
HARNESS_DIR = os.path.join(VERIF, "harness")
HARNESS_BIN = os.path.join(HARNESS_DIR, "target", "debug", "snt-harness")
TLA_CP = "/opt/veriftools/tla/tla2tools.jar:/opt/veriftools/tla/CommunityModules-deps.jar"
NCPU = os.cpu_count() or 4


class ToolError(Exception):
    pass


def log(*a):
    print(*a, file=sys.stderr, flush=True)


# --------------------------------------------------------------------------
# context
# --------------------------------------------------------------------------
class Ctx:
    def __init__(self, prop, tier, seed, replay=None, selftest=False):
        self.prop = prop
        self.tier = tier
        self.seed = seed
        self.replay = replay
        self.selftest = selftest
        self.t0 = time.time()
        self.dir = os.path.join(OUT, prop)
        if replay is None:
            shutil.rmtree(self.dir, ignore_errors=True)
        os.makedirs(self.dir, exist_ok=True)
        self.failures = []  # dicts: {key, what, case}
        self.cov = {}
        self.regen_key = None
        self.no_evidence = False
        self.assumptions = []
        self.mc = []  # model checking runs

    @property
    def quick(self):
        return self.tier == "quick"

    def path(self, *p):
        q = os.path.join(self.dir, *p)
        os.makedirs(os.path.dirname(q), exist_ok=True)
        return q

    def fail(self, key, what, case):
        """Record one failed verdict.  key: dict of the recorded fields known
        findings are matched on; what: human text; case: everything needed to
        replay."""
        self.failures.append({"key": key, "what": what, "case": case})

    def regenerate(self):
        """Replay for checks whose inputs are regenerated from the seed: re-run the check with the seed and tier
        recorded in the replay file and report only failures of the same class (key) as the recorded one."""
        with open(self.replay) as fh:
            rec = json.load(fh)
        self.seed = int(rec.get("seed", self.seed))
        self.tier = rec.get("tier", self.tier)
        self.regen_key = json.dumps(rec["key"], sort_keys=True)
        self.no_evidence = True
        self.replay = None


# --------------------------------------------------------------------------
# harness
# --------------------------------------------------------------------------
_built = False


def build_harness():
    global _built
    if _built:
        return
    env = dict(os.environ)
    env["CARGO_NET_OFFLINE"] = "true"
    t = time.time()
    p = subprocess.run(
        ["cargo", "build", "--offline", "--quiet"],
        cwd=HARNESS_DIR, env=env, stdout=subprocess.PIPE, stderr=subprocess.STDOUT, text=True)
    if p.returncode != 0:
        log(p.stdout[-6000:])
        raise ToolError("harness build failed")
    log(f"[build] harness built in {time.time()-t:.1f}s")
    _built = True


def harness(args, stdin=None, stdout=None, timeout=900, check=True, env=None):
    """Run the harness binary.  stdin/stdout are file paths."""
    build_harness()
    fin = open(stdin, "rb") if stdin else subprocess.DEVNULL
    fout = open(stdout, "wb") if stdout else subprocess.PIPE
    e = dict(os.environ)
    e["RUST_BACKTRACE"] = "0"
    if env:
        e.update(env)
    try:
        p = subprocess.run([HARNESS_BIN] + [str(a) for a in args], stdin=fin, stdout=fout,
                           stderr=subprocess.PIPE, timeout=timeout, env=e)
    except subprocess.TimeoutExpired:
        raise ToolError(f"harness {args} timed out after {timeout}s")
    finally:
        if stdin:
            fin.close()
        if stdout:
            fout.close()
    if check and p.returncode != 0:
        log(p.stderr.decode(errors="replace")[-4000:])
        raise ToolError(f"harness {args} exited {p.returncode}")
    return p


def harness_parallel(jobs, timeout=1800):
    """jobs: list of (args, stdin, stdout). Runs them concurrently."""
    build_harness()
    procs = []
    e = dict(os.environ)
    e["RUST_BACKTRACE"] = "0"
    for args, fin, fout in jobs:
        fi = open(fin, "rb") if fin else subprocess.DEVNULL
        fo = open(fout, "wb")
        procs.append((subprocess.Popen([HARNESS_BIN] + [str(a) for a in args], stdin=fi, stdout=fo,
                                       stderr=subprocess.PIPE, env=e), fi, fo, args))
    t_end = time.time() + timeout
    for p, fi, fo, args in procs:
        try:
            _, err = p.communicate(timeout=max(1, t_end - time.time()))
        except subprocess.TimeoutExpired:
            for q, *_ in procs:
                q.kill()
            raise ToolError(f"harness {args} timed out")
        finally:
            if fi is not subprocess.DEVNULL:
                fi.close()
            fo.close()
        if p.returncode != 0:
            log(err.decode(errors="replace")[-4000:])
            raise ToolError(f"harness {args} exited {p.returncode}")


# --------------------------------------------------------------------------
# TLC
# --------------------------------------------------------------------------
class TlcResult:
    def __init__(self, rc, out):
        self.rc = rc
        self.out = out
        self.generated = 0
        self.distinct = 0
        self.depth = 0
        m = None
        for m in re.finditer(r"(\d+) states generated, (\d+) distinct states found", out):
            pass
        if m:
            self.generated = int(m.group(1))
            self.distinct = int(m.group(2))
        m = re.search(r"The depth of the complete state graph search is (\d+)", out)
        if m:
            self.depth = int(m.group(1))
        self.invariant = None
        m = re.search(r"Invariant (\S+) is violated", out)
        if m:
            self.invariant = m.group(1)
        m = re.search(r"Action property (\S+) is violated|Temporal properties were violated", out)
        if m and not self.invariant:
            self.invariant = m.group(1) or "temporal"
        self.finished = "Model checking completed" in out or "Finished in" in out
        # per action coverage lines of -coverage: <Name line .. of module M>: distinct:total
        self.actions = {}
        for m in re.finditer(r"^<(\w+) line \d+, col \d+ to line \d+, col \d+ of module (\w+)(?: \([\d ]+\))?>: (\d+):(\d+)", out, re.M):
            self.actions[m.group(1)] = self.actions.get(m.group(1), 0) + int(m.group(4))

    @property
    def error(self):
        """A TLC failure that is not a property violation (parse error, evaluation
        error, assumption false ...)."""
        if self.invariant:
            return False
        if self.rc == 0:
            return False
        return True

    def printed(self, tag):
        """Values printed by PrintT(<<"TAG", ...>>) - returned as raw text lines
        (multi-line values are joined)."""
        res = []
        cur = None
        for line in self.out.splitlines():
            if line.startswith('<<"' + tag + '"'):
                cur = line
                if _balanced(cur):
                    res.append(cur)
                    cur = None
            elif cur is not None:
                cur += " " + line.strip()
                if _balanced(cur):
                    res.append(cur)
                    cur = None
        return res


def _balanced(s):
    return s.count("<<") == s.count(">>") and s.count("[") == s.count("]") and s.count("{") == s.count("}")


def tlc(module, cfg=None, *, cwd=None, env=None, workers=1, simulate=None, depth=None,
        timeout=900, coverage=False, seed=None, deque=False, heap="3g", metadir=None,
        extra=None, check=True, dfid=None):
    """Run TLC on spec file `module` (path relative to SPEC or absolute)."""
    mpath = module if os.path.isabs(module) else os.path.join(SPEC, module)
    if not mpath.endswith(".tla"):
        mpath += ".tla"
    cwd = cwd or os.path.dirname(mpath)
    cfgp = cfg or (os.path.splitext(mpath)[0] + ".cfg")
    if not os.path.isabs(cfgp):
        cfgp = os.path.join(os.path.dirname(mpath), cfgp)
    md = metadir or os.path.join(OUT, "tlc-meta", f"{os.getpid()}-{time.time_ns()}")
    os.makedirs(md, exist_ok=True)
    jopts = ["-XX:+UseParallelGC", "-Xss1g", f"-Xmx{heap}"]
    if deque:
        jopts.append("-Dtlc2.tool.queue.IStateQueue=StateDeque")
    # search path for shared modules
    libs = [os.path.join(SPEC, d) for d in sorted(os.listdir(SPEC)) if os.path.isdir(os.path.join(SPEC, d))]
    jopts.append("-DTLA-Library=" + os.pathsep.join(libs))
    cmd = ["java"] + jopts + ["-cp", TLA_CP, "tlc2.TLC", "-workers", str(workers), "-metadir", md,
                              "-noGenerateSpecTE", "-config", cfgp]
    if coverage:
        cmd += ["-coverage", "1"]
    if simulate:
        cmd += ["-simulate", simulate]
    if depth:
        cmd += ["-depth", str(depth)]
    if seed is not None:
        cmd += ["-seed", str(seed)]
    if dfid:
        cmd += ["-dfid", str(dfid)]
    if extra:
        cmd += extra
    cmd.append(mpath)
    e = dict(os.environ)
    e.pop("JAVA_TOOL_OPTIONS", None)
    if env:
        e.update({k: str(v) for k, v in env.items()})
    t = time.time()
    try:
        p = subprocess.run(cmd, cwd=cwd, env=e, stdout=subprocess.PIPE, stderr=subprocess.STDOUT,
                           text=True, timeout=timeout)
    except subprocess.TimeoutExpired:
        shutil.rmtree(md, ignore_errors=True)
        raise ToolError(f"TLC timed out after {timeout}s on {module}")
    shutil.rmtree(md, ignore_errors=True)
    r = TlcResult(p.returncode, p.stdout)
    r.wall = time.time() - t
    if check and r.error:
        log(p.stdout[-6000:])
        raise ToolError(f"TLC failed (rc={p.returncode}) on {module} {os.path.basename(cfgp)}")
    return r


def tlc_parallel(runs, timeout=1800):
    """runs: list of kwargs dicts for tlc(); executed concurrently in threads."""
    import concurrent.futures as cf
    with cf.ThreadPoolExecutor(max_workers=min(len(runs), NCPU)) as ex:
        futs = [ex.submit(lambda kw=kw: tlc(**kw)) for kw in runs]
        return [f.result() for f in futs]



def apalache(module, *, init, inv, length, next=None, timeout=900):
    """Run apalache-mc check on spec file `module` (relative to SPEC). Returns (verdict, wall, tail) with
    verdict "ok" (no error up to `length`), "violation" or "error"."""
    mpath = module if os.path.isabs(module) else os.path.join(SPEC, module)
    if not mpath.endswith(".tla"):
        mpath += ".tla"
    od = os.path.join(OUT, "apalache", f"{os.getpid()}-{time.time_ns()}")
    os.makedirs(od, exist_ok=True)
    cmd = ["timeout", str(timeout), "apalache-mc", "check", f"--init={init}", f"--inv={inv}", f"--length={length}", f"--out-dir={od}"]
    if next:
        cmd.append(f"--next={next}")
    cmd.append(mpath)
    t0 = time.time()
    p = subprocess.run(cmd, stdout=subprocess.PIPE, stderr=subprocess.STDOUT, text=True)
    out = p.stdout
    verdict = "ok" if "EXITCODE: OK" in out else "violation" if "EXITCODE: ERROR (12)" in out else "error"
    shutil.rmtree(od, ignore_errors=True)
    return verdict, time.time() - t0, out[-1500:]


def inductive(ctx, module, name, control_next, consts, registered=None):
    """Apalache: `Init => IndInv`, `IndInv /\\ Next => IndInv'`, and a control transition relation that must break
    the invariant (vacuity guard).  Appends to ctx.mc; a non-inductive invariant is a model failure."""
    import concurrent.futures as cf
    jobs = [("base", dict(init="Init", inv="IndInv", length=0), "ok"),
            ("step", dict(init="IndInit", inv="IndInv", length=1), "ok"),
            ("step on the control (must be rejected)", dict(init="IndInit", inv="IndInv", length=1, next=control_next), "violation")]
    if registered:
        jobs.append((registered[0], registered[1], "ok"))
    with cf.ThreadPoolExecutor(max_workers=len(jobs)) as ex:
        futs = [ex.submit(apalache, module, **kw) for _, kw, _ in jobs]
        results = [f.result() for f in futs]
    for (what, _, want), (verdict, wall, tail) in zip(jobs, results):
        if verdict == "error":
            log(tail)
            raise ToolError(f"apalache failed on {name} {what}")
        if want == "violation" and verdict != want:
            raise ToolError(f"vacuous inductive check of {name}: the control was not rejected")
        if verdict != want:
            ctx.fail({"why": "model", "cfg": f"{name} {what}", "inv": "IndInv"}, f"{name} {what}: invariant not inductive", {"cfg": name, "trace": tail})
        ctx.mc.append({"model": f"{name} {what}", "constants": consts, "states": 0, "transitions": 0, "depth": 1, "wall_s": round(wall, 1), "verdict": verdict})


def tlapm(module, includes=(), timeout=900):
    """Run the TLA+ proof system on spec file `module` (relative to SPEC). Returns (obligations, proved, wall, tail)."""
    mpath = module if os.path.isabs(module) else os.path.join(SPEC, module)
    if not mpath.endswith(".tla"):
        mpath += ".tla"
    cache = os.path.join(OUT, "tlaps", f"{os.getpid()}-{time.time_ns()}")
    os.makedirs(cache, exist_ok=True)
    cmd = ["timeout", str(timeout), "tlapm", "--threads", "8", "--cache-dir", cache]
    for inc in includes:
        cmd += ["-I", os.path.join(SPEC, inc)]
    cmd.append(os.path.basename(mpath))
    t0 = time.time()
    p = subprocess.run(cmd, cwd=os.path.dirname(mpath), stdout=subprocess.PIPE, stderr=subprocess.STDOUT, text=True)
    out = p.stdout
    shutil.rmtree(cache, ignore_errors=True)
    m = re.search(r"All (\d+) obligations? proved", out)
    if m:
        return int(m.group(1)), int(m.group(1)), time.time() - t0, out[-800:]
    m = re.search(r"(\d+)/(\d+) obligations? failed", out)
    if m:
        return int(m.group(2)), int(m.group(2)) - int(m.group(1)), time.time() - t0, out[-2000:]
    return 0, 0, time.time() - t0, out[-2000:]

# --------------------------------------------------------------------------
# ndjson helpers
# --------------------------------------------------------------------------
def read_ndjson(path):
    with open(path) as f:
        return [json.loads(l) for l in f if l.strip()]


def write_ndjson(path, recs):
    with open(path, "w") as f:
        for r in recs:
            f.write(json.dumps(r, separators=(",", ":")) + "\n")


def shard(recs, n):
    n = max(1, min(n, len(recs)))
    return [recs[i::n] for i in range(n)]


def judge_sharded(ctx, module, cfg, recs, name, nshards=None, timeout=1500, env=None, deque=False, heap="3g"):
    """Write recs into shards, run the TLC judge `module` over each shard
    concurrently (TRACE = shard path, OUT = verdict path), return the list of
    verdict records written by the judges (ndjson: one per failed case) and the
    summed TLC stats."""
    if not recs:
        return [], []
    nshards = nshards or min(NCPU, max(1, len(recs) // 50))
    parts = shard(recs, nshards)
    runs = []
    outs = []
    for i, part in enumerate(parts):
        tp = ctx.path("judge", f"{name}.{i}.ndjson")
        vp = ctx.path("judge", f"{name}.{i}.verdicts.ndjson")
        write_ndjson(tp, part)
        if os.path.exists(vp):
            os.remove(vp)
        e = {"TRACE": tp, "OUT": vp}
        if env:
            e.update(env)
        runs.append(dict(module=module, cfg=cfg, env=e, timeout=timeout, deque=deque, heap=heap))
        outs.append(vp)
    results = tlc_parallel(runs, timeout=timeout)
    verdicts = []
    for vp, r in zip(outs, results):
        if not os.path.exists(vp):
            log(r.out[-3000:])
            raise ToolError(f"judge {module} wrote no verdict file")
        verdicts += read_ndjson(vp)
    return verdicts, results


# --------------------------------------------------------------------------
# known findings, evidence, exit
# --------------------------------------------------------------------------
def load_known():
    p = os.path.join(VERIF, "known_findings.json")
    if not os.path.exists(p):
        return []
    with open(p) as f:
        return json.load(f).get("findings", [])


def _match(pattern, key):
    """pattern: dict field -> value | {"in": [...]} | {"re": "..."}; all fields must match."""
    for k, v in pattern.items():
        if k not in key:
            return False
        x = key[k]
        if isinstance(v, dict):
            if "in" in v and x not in v["in"]:
                return False
            if "re" in v and not re.search(v["re"], str(x)):
                return False
        elif x != v:
            return False
    return True


def finish(ctx, level, coverage, assumptions=None):
    known = [k for k in load_known() if k.get("property") == ctx.prop and k.get("status", "open") == "open"]
    reported = []
    known_hit = {}
    for f in ctx.failures:
        hit = None
        for k in known:
            if _match(k["match"], f["key"]):
                hit = k
                break
        if hit is not None:
            known_hit.setdefault(hit["id"], [hit, 0])
            known_hit[hit["id"]][1] += 1
        else:
            reported.append(f)
    for kid, (k, n) in sorted(known_hit.items()):
        print(f"KNOWN-FINDING: property={ctx.prop} {k['what']} [{kid}; {n} failing cases matched]", flush=True)
    if ctx.regen_key is not None:
        reported = [f for f in reported if json.dumps(f["key"], sort_keys=True) == ctx.regen_key]
    # one replay file per distinct failure class (key), capped
    groups = {}
    for f in reported:
        groups.setdefault(json.dumps(f["key"], sort_keys=True), []).append(f)
    for i, (k, fs) in enumerate(list(groups.items())[:25]):
        f = fs[0]
        rp = ctx.path("replay", f"{ctx.prop}-{i:03d}.json")
        with open(rp, "w") as fh:
            json.dump({"property": ctx.prop, "what": f["what"], "key": f["key"], "case": f["case"],
                       "same_class": len(fs), "seed": ctx.seed, "tier": ctx.tier}, fh)
        print(f"VIOLATION property={ctx.prop} replay={rp}", flush=True)
        log(f"  -> {f['what'][:400]}  key={k[:300]} ({len(fs)} cases)")
    if len(groups) > 25:
        log(f"  ({len(groups)-25} further violation classes not written out)")
    wall = time.time() - ctx.t0
    ev = {
        "property_id": ctx.prop,
        "tier": ctx.tier,
        "seed": ctx.seed,
        "level": level,
        "coverage": coverage,
        "assumptions": assumptions or ctx.assumptions,
        "wall_s": round(wall, 2),
        "violations": len(reported),
    }
    ev["coverage"]["known_findings_matched"] = sum(n for _, n in known_hit.values())
    if ctx.replay is None and not ctx.no_evidence:
        # runs against a deliberately broken tree (bin/seedtest) keep the committed evidence untouched
        evdir = os.environ.get("VERIF_EVIDENCE_DIR") or os.path.join(VERIF, "evidence")
        os.makedirs(evdir, exist_ok=True)
        with open(os.path.join(evdir, f"{ctx.prop}.json"), "w") as fh:
            json.dump(ev, fh, indent=1)
        if ctx.tier == "thorough" and "VERIF_EVIDENCE_DIR" not in os.environ:
            # keep the last thorough run next to the per-run evidence file (which the next quick run rewrites)
            os.makedirs(os.path.join(VERIF, "evidence-thorough"), exist_ok=True)
            with open(os.path.join(VERIF, "evidence-thorough", f"{ctx.prop}.json"), "w") as fh:
                json.dump(ev, fh, indent=1)
    log(f"[{ctx.prop}] tier={ctx.tier} wall={wall:.1f}s violations={len(reported)} known={sum(n for _, n in known_hit.values())}")
    return 1 if reported else 0


def require_coverage(res, actions):
    """Vacuity guard: every named action must have been taken."""
    missing = [a for a in actions if res.actions.get(a, 0) == 0]
    if missing:
        raise ToolError(f"vacuous model run: actions never taken: {missing}")


def mc_record(name, r, consts=""):
    return {"model": name, "constants": consts, "states": r.distinct, "transitions": r.generated,
            "depth": r.depth, "wall_s": round(r.wall, 1)}
