"""C08: row/column selectors resolve with Python slice semantics.

PRF  proofs/ViewBoundsProof (TLAPS): WellFormed(Resolve(form, a, b, n)) for
     EVERY axis length and EVERY integer bounds (the spec's own postcondition).
MC   ViewBoundsMC: the slice spec agrees with an independent element-wise
     reading of Python slicing and is well formed on every selector.
GEN  ViewBoundsGen: every selector form x integer type x bound values.
RPL  harness c08-replay: real ViewBounds::view_bounds in the named type.
JDG  ViewBoundsJudge: got = Resolve(form, a, b, n).
"""
from . import lib


def run(ctx):
    tier = ctx.tier
    import concurrent.futures as cf
    with cf.ThreadPoolExecutor(max_workers=1) as ex:
        # unbounded complement: TLAPS proves WellFormed(Resolve(..)) for every axis length and every integer bound
        proof = ex.submit(lib.tlapm, "proofs/ViewBoundsProof", includes=("surface",))
        mc = lib.tlc("surface/ViewBoundsMC", workers=8, timeout=600)
        obligations, proved, pwall, ptail = proof.result()
    if mc.invariant:
        raise lib.ToolError("ViewBounds spec disagrees with its own reference reading: " + mc.invariant)
    if obligations == 0 or proved != obligations:
        lib.log(ptail)
        raise lib.ToolError(f"TLAPS proof of ViewBoundsProof!ResolveWellFormed incomplete: {proved}/{obligations}")
    vec = ctx.path("vectors.ndjson")
    if ctx.replay:
        import json
        case = json.load(open(ctx.replay))["case"]
        lib.write_ndjson(vec, [{k: case[k] for k in ("form", "a", "b", "n", "ty")}])
    else:
        g = lib.tlc("surface/ViewBoundsGen", f"ViewBoundsGen.{tier}.cfg", env={"OUT": vec}, timeout=900, heap="6g")
    rec = ctx.path("recorded.ndjson")
    lib.harness(["c08-replay"], stdin=vec, stdout=rec)
    recs = lib.read_ndjson(rec)
    verdicts, runs = lib.judge_sharded(ctx, "surface/ViewBoundsJudge", None, recs, "vb", nshards=12)
    by_id = {r["id"]: r for r in recs}
    for v in verdicts:
        r = by_id[v["id"]]
        key = {"form": r["form"], "ty": r["ty"], "why": v["why"],
               "cls": classify(r)}
        ctx.fail(key, f"view_bounds {r['ty']} {r['form']} a={r['a']} b={r['b']} n={r['n']}: got {r['got']} expected {v['exp']} ({v['why']})", r)
    shapes = {(r["form"], r["ty"], sign(r["a"], r["n"]), sign(r["b"], r["n"]), min(r["n"], 2)) for r in recs}
    cov = {
        "evaluations": len(recs),
        "distinct_nontrivial": len(shapes),
        "rule": "vectors = every selector form x 10 integer types x bounds in -B..B plus type extremes x axis lengths (TLC-generated, ViewBoundsGen); distinct = distinct (form, type, position class of each bound relative to [-n, n], n in {0,1,>1}) tuples",
        "samples": recs[:: max(1, len(recs) // 5)][:5],
        "exhaustive": True,
        "spec_model_check": lib.mc_record("ViewBoundsMC", mc, "MaxN=6 B=9"),
        "states": mc.distinct, "transitions": mc.generated,
        "spec_proof": {"module": "proofs/ViewBoundsProof.tla", "theorem": "ResolveWellFormed: for all n in Nat, a, b in Int and every form, Resolve is None or a non-empty window inside 0..n",
                       "obligations": obligations, "discharged": proved, "wall_s": round(pwall, 1), "prover": "tlapm (SMT)"},
    }
    return lib.finish(ctx, "exploration", cov,
                      ["TLC/SANY and the CommunityModules Json module", "axis lengths < 2^31 (bounds of magnitude >= 2^31 are abstracted to +-infinity)"])


def sign(x, n):
    if x <= -2000000000 + 1:
        return "-inf"
    if x >= 2000000000 - 1:
        return "+inf"
    if x < -n:
        return "<-n"
    if x < 0:
        return "neg"
    if x < n:
        return "in"
    return ">=n"


def classify(r):
    """Class of the failing input used by known_findings matching."""
    f, a, b, n, ty = r["form"], r["a"], r["b"], r["n"], r["ty"]
    if f in ("incl", "toincl") and b < -n:
        return "inclusive-end-below-axis"
    return "other"
