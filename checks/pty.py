"""Shared pseudo-terminal machinery for C16 (b) and C17: PollLoop model runs and
real pty sessions judged by PollTrace."""
import os
from . import lib

C16_WHY = ("frames_drop", "tty write", "peer received", "payload received", "conservation", "poll_enter: chunk", "poll_exit: chunk", "select: write")


def model_runs(ctx, prop):
    q = ctx.quick
    cfgs = ["out", "mixed"] if prop == "C16" else ["wake", "input", "mixed", "live"]
    if not q:
        cfgs.append("mixedT")
    runs = []
    for c in cfgs:
        acts = ["AppPoll", "Sel", "Wr", "Ret"] if c != "live" else []
        runs.append((dict(module="io/PollLoop", cfg=f"PollLoop.{c}.cfg", workers=3 if c != "mixedT" else 10, coverage=(c != "live"),
                          check=False, timeout=3000, heap="8g"), f"PollLoop.{c}.cfg", acts))
    if prop == "C17":
        # escape-sequence size mode: the committed repair ("front") holds, liveness included
        if not q:
            # 4 window changes, 5 frame writes, 4 chunks: 3.6 M distinct states, about 5 minutes
            runs.append((dict(module="io/SizeMode", cfg="SizeMode.thorough.cfg", workers=8, coverage=False, check=False, timeout=2400, heap="8g"),
                         "SizeMode.thorough.cfg", []))
        runs.append((dict(module="io/SizeMode", cfg="SizeMode.cfg", workers=4, coverage=True, check=False, timeout=1500, heap="4g"),
                     "SizeMode.cfg", ["Sig", "AppDrop", "Rd", "Deliver", "Term", "Resize"]))
    return runs


def size_mode_controls(ctx):
    """The invariant of SizeMode must be able to fail: the tree as found ("back") and the rejected first repair
    ("reissue") both lose a window change."""
    cfgs = ["SizeMode.bug.cfg", "SizeMode.reissue.cfg"]
    res = lib.tlc_parallel([dict(module="io/SizeMode", cfg=c, workers=2, check=False, timeout=900, heap="3g") for c in cfgs])
    for c, r in zip(cfgs, res):
        if r.invariant != "NoLostResize":
            lib.log(r.out[-2000:])
            raise lib.ToolError(f"vacuous model: {c} was expected to violate NoLostResize, got {r.invariant!r}")
        ctx.mc.append(dict(lib.mc_record(c, r), expected="violation of NoLostResize (control)"))


def sessions(ctx, prop):
    """Run real pty sessions and judge them; failures are attributed to `prop`
    by the rule they break (queue / byte-stream rules -> C16, everything else -> C17)."""
    q = ctx.quick
    n = 64 if q else 1200
    scen = ["normal", "big", "quit", "quit2", "pending", "burst", "escsize", "unwind", "hammer"]
    recs = [{"id": i, "seed": ctx.seed * 100000 + i, "scenario": scen[i % len(scen)]} for i in range(n)]
    nproc = 8
    jobs = []
    for i, part in enumerate(lib.shard(recs, nproc)):
        ip = ctx.path("pty", f"in.{i}.ndjson")
        lib.write_ndjson(ip, part)
        jobs.append((["isolate", "c17-pty"], ip, ctx.path("pty", f"rec.{i}.ndjson")))
    lib.harness_parallel(jobs, timeout=3000)
    out = []
    for _, _, op in jobs:
        for r in lib.read_ndjson(op):
            if "outcome" in r:   # worker died / hung
                r = {"id": r["id"], "seed": r["input"]["seed"], "scenario": r["input"]["scenario"], "events": [], "panic": r["outcome"]}
            out.append(r)
    verdicts, _ = lib.judge_sharded(ctx, "io/PollTrace", None, out, "pty", nshards=lib.NCPU, timeout=3000)
    by = {r["id"]: r for r in out}
    mine = 0
    for v in verdicts:
        r = by[v["id"]]
        is16 = any(v["why"].startswith(p) for p in C16_WHY)
        if (prop == "C16") != is16:
            continue
        mine += 1
        evs = r["events"]
        around = evs[max(0, v["at"] - 6): v["at"]]
        ctx.fail({"why": "pty: " + v["why"], "scenario": r["scenario"]},
                 f"pty session seed={r['seed']} scenario={r['scenario']}: {v['why']} at event {v['at']}: ... {around[-3:]} {r['panic']}"[:900],
                 {"session": {"id": r["id"], "seed": r["seed"], "scenario": r["scenario"]}, "at": v["at"], "events_before": around})
    ctx.cov["pty_events"] = sum(len(r["events"]) for r in out)
    ctx.cov["pty_sample"] = out[0]["events"][40:52] if out and len(out[0]["events"]) > 52 else []
    return len(out)
